------------------------- MODULE OtlpRetryContract -------------------------
(* The C14 statement as a TOTAL monitor over the events observable at one OTLP   *)
(* export call: what the scripted collector saw and served, what the caller did *)
(* (Call / Cancel / exporter Shutdown) and got back (Ret), and what reached the  *)
(* otel.ErrorHandler.  Every event is accepted; broken clauses are returned.     *)
(*                                                                              *)
(* Retryable sets are transcribed from the statement / the OTLP specification,  *)
(* NOT from the Go code:                                                        *)
(*   HTTP : 429, 502, 503, 504, or a temporary network error                    *)
(*   gRPC : CANCELLED(1) DEADLINE_EXCEEDED(4) ABORTED(10) OUT_OF_RANGE(11)      *)
(*          UNAVAILABLE(14) DATA_LOSS(15); RESOURCE_EXHAUSTED(8) only when the  *)
(*          status carries RetryInfo                                            *)
(*                                                                              *)
(* Times are integers of one unit (microseconds in recorded traces, ticks in    *)
(* OtlpRetry.tla).  Two kinds of clauses:                                       *)
(*   hard (soft = FALSE): logical clauses and LOWER bounds.  They are sound     *)
(*        with zero tolerance because of where the clock is read: the gap before *)
(*        attempt n+1 is measured from the moment response n was handed to the   *)
(*        transport to the arrival of n+1 (both on the collector), which can     *)
(*        only over-estimate the time the client really waited; the elapsed time *)
(*        the client can have measured is bracketed by collector-side            *)
(*        (under-estimate) and caller-side (over-estimate) readings.             *)
(*   soft (soft = TRUE): UPPER bounds ("returns promptly") with tolerance        *)
(*        cfg.tol; the driver re-runs such cases before it believes them.        *)
EXTENDS Integers, Sequences, FiniteSets, TLC

HttpRetryable == {429, 502, 503, 504}
GrpcRetryable == {1, 4, 10, 11, 14, 15}
GrpcResourceExhausted == 8

Max(a, b) == IF a > b THEN a ELSE b

NoResp == [n |-> 0, kind |-> "none", code |-> 0, partial |-> FALSE, ri |-> FALSE, thr |-> 0, t |-> 0, acked |-> FALSE]

(* what a served outcome means for the retry loop *)
Class(proto, r) ==
  CASE r.kind = "none" -> "none"
    [] r.kind = "hold" -> "aborted"       \* request held by the collector until the client abandoned it
    [] r.kind = "tmpnet" -> "retryable"   \* no answer within the client's per-attempt timeout: temporary network error
    [] r.kind = "hung" -> "retryable"     \* gRPC: no answer until the export timeout (DEADLINE_EXCEEDED on the client)
    [] r.kind = "tempnet" -> "retryable"  \* transport fault that is temporary WITHOUT being a time-out (injected in the client's transport)
    [] r.kind = "permnet" -> "final"      \* transport fault that is not temporary: the statement lists only temporary network errors
    [] r.kind = "close" -> "either"       \* connection closed without an answer: the statement leaves it open
    [] r.kind = "status" /\ proto = "http" ->
         IF r.code >= 200 /\ r.code <= 299 THEN (IF r.partial THEN "partial" ELSE "success")
         ELSE IF r.code \in HttpRetryable THEN "retryable" ELSE "final"
    [] r.kind = "status" /\ proto = "grpc" ->
         IF r.code = 0 THEN (IF r.partial THEN "partial" ELSE "success")
         ELSE IF r.code \in GrpcRetryable THEN "retryable"
         ELSE IF r.code = GrpcResourceExhausted /\ r.ri THEN "retryable" ELSE "final"
    [] OTHER -> "either"

(* server-supplied delay that must be honoured before the next attempt *)
Throttle(proto, r) ==
  IF r.kind = "status" /\ Class(proto, r) = "retryable" /\ (proto = "http" \/ r.ri) THEN r.thr ELSE 0

NoWant == [valid |-> FALSE, attempts |-> 0, err |-> FALSE, handled |-> 0, clock |-> 0]

(* cfg: [proto, enabled, maxel (0 = no limit), boffmax (largest possible backoff interval),
         tol (tolerance of the soft clauses), atto (short per-attempt client timeout of an HTTP exporter, 0 = none),
         cto (short export timeout of a gRPC exporter: bounds the whole call, 0 = none), tick, want,
         nhdr (number of configured headers), enc (configured content encoding), grp,
         dl (deadline of the caller's context, 0 = none)]
   RetryConfig VALUE classes (round 6): maxel = 0 means NO elapsed-time limit, whatever default the library has for an
   unset policy; a configured limit counts as configured however large it is.  So after a retryable answer the call
   may end with an error only when the CONFIGURED limit would be exceeded (gave-up-early otherwise), and with a
   server-supplied delay far beyond any default limit and a short caller deadline it has to wait until that
   deadline (el >= dl) and then return promptly (late-return-after-deadline).
   nhdr / enc (and, invisible here, whether options or the environment configured the exporter and whether a timeout
   was given explicitly) are the exporter-option dimension: NO clause below depends on them, except that the
   configured headers and encoding themselves must accompany every attempt. *)
Fresh(cfg) == [cfg |-> cfg,
               callT |-> -1,
               n |-> 0,              \* attempts seen by the collector
               hash0 |-> "",         \* payload digest of attempt 1
               last |-> NoResp,      \* what was served for attempt n
               answered |-> TRUE,    \* attempt n has been served (or there is no attempt yet)
               firstT |-> 0, lastAttT |-> 0,
               cancelT |-> -1, sdCallT |-> -1, sdRetT |-> -1,
               attAfterStop |-> FALSE,  \* an attempt arrived after a Cancel / Shutdown had been issued
               stopMissed |-> FALSE,    \* the scripted stop came after a later attempt had already arrived
               stopRaced |-> FALSE,     \* the stop was issued while a final answer was on its way to the client
               ret |-> "none", retT |-> -1,
               handled |-> {}]

Stopped(m) == m.cancelT >= 0 \/ m.sdCallT >= 0
OnStop(m, e) == [m EXCEPT !.stopMissed = @ \/ e.k # m.n,
                          !.stopRaced = @ \/ (m.ret = "none" /\ m.n > 0 /\ m.answered
                                               /\ Class(m.cfg.proto, m.last) \in {"success", "partial", "final"})]
Delivered(m) == m.cfg.atto = 0 \/ m.last.acked     \* the client really received the last response
(* the export timeout of the whole call may have fired, or the deadline of the CALLER's context (cfg.dl, 0 = none;
   counted from the Call event, which is logged before the deadline is armed) may have passed: "the context is cancelled" *)
Expired(m, el) == (m.cfg.cto # 0 /\ el >= m.cfg.cto) \/ (m.cfg.dl # 0 /\ el >= m.cfg.dl)
CurClass(m) == IF m.n = 0 THEN "none" ELSE IF ~m.answered THEN "aborted" ELSE Class(m.cfg.proto, m.last)
CurThr(m) == IF m.n = 0 \/ ~m.answered \/ ~Delivered(m) THEN 0 ELSE Throttle(m.cfg.proto, m.last)

(* scenarios with a short per-attempt client timeout (needed to produce temporary network errors): on a loaded
   machine the client can time out on an answer the collector did serve in time (even after its first byte arrived),
   so every clause that depends on what the client received is only believed when it repeats (soft) *)
Flaky(m) == m.cfg.atto # 0 \/ m.cfg.cto # 0
V(kind, soft, m, extra) == [kind |-> kind, soft |-> soft, proto |-> m.cfg.proto, n |-> m.n, code |-> m.last.code,
                            lastkind |-> m.last.kind, ri |-> m.last.ri, thr |-> m.last.thr, x |-> extra]

OnAttempt(m, e) ==
  LET cls == CurClass(m)
      thr == CurThr(m)
      c == m.cfg
      \* hash "-" = the attempt failed in the client's transport before a payload could be observed
      m2 == [m EXCEPT !.n = e.n, !.hash0 = IF @ = "" /\ e.hash # "-" THEN e.hash ELSE @, !.firstT = IF m.n = 0 THEN e.t ELSE @,
                      !.lastAttT = e.t, !.answered = FALSE, !.attAfterStop = @ \/ Stopped(m)]
      retry == m.n > 0
  IN <<m2,
       (IF e.n # m.n + 1 THEN {V("x-harness-numbering", FALSE, m, e.n)} ELSE {})
       \cup (IF e.hdr # c.nhdr THEN {V("headers-missing", FALSE, m2, e.hdr)} ELSE {})
       \cup (IF e.enc # c.enc THEN {V("encoding-differs", FALSE, m2, 0)} ELSE {})
       \cup (IF retry /\ ~c.enabled THEN {V("retry-when-disabled", FALSE, m, 0)} ELSE {})
       \cup (IF retry /\ c.enabled /\ cls \in {"success", "partial", "final"} /\ Delivered(m)
               THEN {V("retry-after-nonretryable", Flaky(m), m, 0)} ELSE {})
       \cup (IF retry /\ e.hash # "-" /\ m.hash0 # "" /\ e.hash # m.hash0 THEN {V("payload-differs", FALSE, m, 0)} ELSE {})
       \cup (IF retry /\ thr > 0 /\ e.t - m.last.t < thr THEN {V("throttle-not-honoured", Flaky(m), m, e.t - m.last.t)} ELSE {})
       \cup (IF retry /\ c.enabled /\ c.maxel # 0 /\ m.answered /\ (m.last.t - m.firstT) + thr > c.maxel
               THEN {V("attempt-after-max-elapsed", Flaky(m), m, (m.last.t - m.firstT) + thr)} ELSE {})
       \cup (IF m.ret # "none" /\ ~Stopped(m) /\ ~Flaky(m) THEN {V("attempt-after-return", FALSE, m, 0)} ELSE {})
       \cup (IF m.ret # "none" /\ e.t - m.retT > c.tol THEN {V("attempt-after-return", TRUE, m, e.t - m.retT)} ELSE {})
       \cup (IF m.cancelT >= 0 /\ e.t - m.cancelT > c.tol THEN {V("attempt-after-cancel", TRUE, m, e.t - m.cancelT)} ELSE {})
       \cup (IF m.sdRetT >= 0 /\ e.t - m.sdRetT > c.tol THEN {V("attempt-after-shutdown", TRUE, m, e.t - m.sdRetT)} ELSE {})>>

OnRet(m, e) ==
  LET cls == CurClass(m)
      thr == CurThr(m)
      c == m.cfg
      el == e.t - m.callT           \* over-estimate of the time the retry loop can have measured
      lastDur == IF m.n = 0 THEN 0 ELSE Max(Max(IF m.answered THEN m.last.t - m.lastAttT ELSE 0, c.atto), c.cto)
      setup == IF m.n = 0 THEN 0 ELSE m.firstT - m.callT   \* connection set-up before the first attempt got through
      m2 == [m EXCEPT !.ret = IF e.err THEN "err" ELSE "nil", !.retT = e.t]
  IN <<m2,
       (IF ~e.err /\ cls \notin {"success", "partial"} THEN {V("nil-without-success", FALSE, m, 0)} ELSE {})
       \cup (IF e.err /\ cls \in {"success", "partial"} /\ ~Stopped(m) /\ Delivered(m) /\ ~Expired(m, el)
               THEN {V("error-despite-success", Flaky(m), m, 0)} ELSE {})
       \cup (IF e.err /\ cls = "final" /\ e.ref # m.n /\ ~Stopped(m) /\ Delivered(m) /\ ~Expired(m, el)
               THEN {V("failure-not-reported", Flaky(m), m, e.ref)} ELSE {})
       \cup (IF ~e.err /\ cls = "partial" /\ m.n \notin m.handled THEN {V("partial-not-reported", FALSE, m, 0)} ELSE {})
       \cup (IF e.err /\ cls = "retryable" /\ c.enabled /\ ~Stopped(m)
                /\ ~(c.maxel # 0 /\ el + Max(thr, c.boffmax) > c.maxel) /\ ~Expired(m, el)
               THEN {V("gave-up-early", Flaky(m), m, el)} ELSE {})
       \cup (IF m.cancelT >= 0 /\ e.t - Max(m.cancelT, m.callT) > c.tol
               THEN {V("late-return-after-cancel", TRUE, m, e.t - Max(m.cancelT, m.callT))} ELSE {})
       \cup (IF m.sdRetT >= 0 /\ e.t - m.sdRetT > c.tol THEN {V("late-return-after-shutdown", TRUE, m, e.t - m.sdRetT)} ELSE {})
       \cup (IF cls \in {"success", "partial", "final"} /\ e.t - m.last.t > c.tol THEN {V("late-return", TRUE, m, e.t - m.last.t)} ELSE {})
       \cup (IF c.cto # 0 /\ el > c.cto + c.tol THEN {V("call-beyond-timeout", TRUE, m, el)} ELSE {})
       \cup (IF c.dl # 0 /\ el > c.dl + c.tol THEN {V("late-return-after-deadline", TRUE, m, el)} ELSE {})
       \cup (IF c.enabled /\ c.maxel # 0 /\ el > c.maxel + c.boffmax + lastDur + setup + c.tol
               THEN {V("blocked-beyond-max-elapsed", TRUE, m, el)} ELSE {})>>

(* prediction of OtlpRetry.tla for the replayed behaviour (cfg.want): attempts, result, error-handler calls.
   Compared only where it does not depend on real time (no elapsed-time limit: with a limit every decision is
   already bracketed with zero tolerance by attempt-after-max-elapsed / gave-up-early), the script contains no
   exporter shutdown (whether Shutdown interrupts or waits is the exporter's choice) and the scripted stop hit
   its window (was issued while the attempt it was scripted for was still the latest one, and not while a
   final answer was still on its way to the client). *)
OnEnd(m) ==
  LET w == m.cfg.want
      comparable == /\ w.valid /\ m.ret # "none" /\ m.sdCallT < 0 /\ ~m.attAfterStop /\ ~m.stopMissed /\ ~m.stopRaced /\ m.cfg.maxel = 0 /\ m.cfg.cto = 0
                    /\ (m.cfg.dl = 0 \/ m.retT - m.callT < m.cfg.dl)   \* a call that reached its caller's deadline raced with it
      got == [attempts |-> m.n, err |-> (m.ret = "err"), handled |-> Cardinality(m.handled)]
  IN <<m, IF comparable /\ got # [attempts |-> w.attempts, err |-> w.err, handled |-> w.handled]
            THEN {V("prediction-mismatch", Flaky(m), m, w.attempts)} ELSE {}>>

(* Step(m, e) = <<next monitor state, set of broken clauses>> *)
Step(m, e) ==
  CASE e.ev = "Call" -> <<[m EXCEPT !.callT = e.t], {}>>
    [] e.ev = "Attempt" -> OnAttempt(m, e)
    [] e.ev = "Resp" ->
         IF e.n = m.n
           THEN <<[m EXCEPT !.last = [n |-> e.n, kind |-> e.kind, code |-> e.code, partial |-> e.partial, ri |-> e.ri,
                                     thr |-> e.thr, t |-> e.t, acked |-> e.kind \in {"tempnet", "permnet"}],
                            !.answered = TRUE], {}>>
           ELSE <<m, {}>>
    [] e.ev = "Got" -> <<[m EXCEPT !.last.acked = m.answered], {}>>
    [] e.ev = "Handled" -> <<[m EXCEPT !.handled = @ \cup {e.n}],
                             IF e.n = m.n /\ m.answered /\ Class(m.cfg.proto, m.last) = "partial" THEN {}
                             ELSE {V("handled-without-partial", FALSE, m, e.n)}>>
    [] e.ev = "Cancel" -> <<[OnStop(m, e) EXCEPT !.cancelT = IF @ < 0 THEN e.t ELSE @], {}>>
    [] e.ev = "ShutdownCall" -> <<[OnStop(m, e) EXCEPT !.sdCallT = IF @ < 0 THEN e.t ELSE @], {}>>
    [] e.ev = "ShutdownRet" -> <<[m EXCEPT !.sdRetT = IF m.ret = "none" /\ @ < 0 THEN e.t ELSE @], {}>>
    [] e.ev = "Ret" -> OnRet(m, e)
    [] e.ev = "NoRet" -> <<m, {V("no-return", TRUE, m, 0)}>>
    [] e.ev = "Gone" ->   \* the collector saw the client abandon attempt e.n, which it never answered
         <<m, (IF m.cfg.atto # 0 /\ e.n = m.n /\ e.t - m.lastAttT > m.cfg.atto + m.cfg.tol
                 THEN {V("attempt-beyond-timeout", TRUE, m, e.t - m.lastAttT)} ELSE {})
              \cup (IF m.cfg.cto # 0 /\ e.t - m.callT > m.cfg.cto + m.cfg.tol
                      THEN {V("attempt-beyond-timeout", TRUE, m, e.t - m.callT)} ELSE {})>>
    [] e.ev = "End" -> OnEnd(m)
    [] OTHER -> <<m, {}>>

RECURSIVE StepAll(_, _, _)
StepAll(m, evs, acc) == IF evs = <<>> THEN <<m, acc>>
                        ELSE LET r == Step(m, Head(evs)) IN StepAll(r[1], Tail(evs), acc \cup r[2])
=============================================================================
