---------------------------- MODULE MC_OtlpRetry ----------------------------
EXTENDS OtlpRetry
MCOutcomes == @OUTCOMES@
MCBackoffs == @BACKOFFS@
MCStopKinds == @STOPKINDS@
MCXCfgs == @XCFGS@
=============================================================================
