SPECIFICATION Spec
CONSTANTS
  Proto = "@PROTO@"
  Enabled = @ENABLED@
  MaxElapsed = @MAXEL@
  Outcomes <- MCOutcomes
  MaxAttempts = @MAXATT@
  Backoffs <- MCBackoffs
  AttTO = 2
  Late = @LATE@
  StopKinds <- MCStopKinds
  SdInterrupts = @SDINT@
  Deviation = "@DEV@"
  MaxClock = @MAXCLOCK@
  CallTO = @CALLTO@
  CtxDL = @CTXDL@
  XCfgs <- MCXCfgs
INVARIANT Inv DisabledOnce NilOnlyAfterSuccess
PROPERTY Terminates
CHECK_DEADLOCK TRUE
