----------------------------- MODULE OtlpRetry -----------------------------
(* One OTLP export call with retry (property C14).                              *)
(*                                                                              *)
(* The client loop is the shape of retry.Config.RequestFunc: call fn, evaluate  *)
(* the outcome, check the elapsed time, delay = max(throttle, backoff), wait    *)
(* for the timer or ctx.Done.  WHICH outcomes are retryable and WHAT must be    *)
(* honoured comes from the statement (OtlpRetryContract!Class / Throttle).      *)
(* The environment chooses the collector's outcome for every attempt, lets the  *)
(* discrete clock advance, and may cancel the context or shut the exporter down *)
(* at any point.  The contract monitor (the same Step operator that judges the  *)
(* recorded traces of the real exporters) runs along as `mon`; Inv says no      *)
(* clause is ever broken.  Every terminal behaviour is printed (EDGE json) and  *)
(* is a SCRIPT for the loopback collector of harness/c14 plus the model's        *)
(* prediction (attempts, result, error-handler calls, clock).                   *)
EXTENDS OtlpRetryContract, Json

CONSTANTS Proto,         \* "http" | "grpc"
          Enabled,       \* RetryConfig.Enabled
          MaxElapsed,    \* ticks; 0 = no limit
          Outcomes,      \* set of [kind, code, partial, ri, thr, slow]
          MaxAttempts,   \* bound on the script length
          Backoffs,      \* possible values of one backoff interval (ticks)
          AttTO,         \* per-attempt client timeout (ticks), for tmpnet outcomes
          Late,          \* timers may fire up to one tick late
          StopKinds,     \* subset of {"cancel", "shutdown"}
          SdInterrupts,  \* TRUE: Shutdown returns at once and ends the call; FALSE: Shutdown waits for the call
          Deviation,     \* "none" or the name of a seeded deviation (to show that the contract notices it)
          MaxClock,
          CallTO,        \* gRPC export timeout (bounds the whole call): it fires between tick CallTO-1 and CallTO; 0 = none
          CtxDL,         \* deadline of the caller's context (ticks after the call), 0 = none: the context ends at start + CtxDL
          XCfgs          \* exporter-option dimension: set of [headers, gzip, env, tmo]; the environment picks one

VARIABLES pc, now, start, n, sentAt, lastO, wake, waitFrom, ctx, sdPend, hist, mon, bad, opt
vars == <<pc, now, start, n, sentAt, lastO, wake, waitFrom, ctx, sdPend, hist, mon, bad, opt>>

SetMax(S) == CHOOSE x \in S : \A y \in S : y <= x
EncOf(xc) == IF xc.gzip THEN "gzip" ELSE "none"
MCfg(xc) == [proto |-> Proto, enabled |-> Enabled, maxel |-> MaxElapsed, boffmax |-> SetMax(Backoffs),
             tol |-> IF Late THEN 1 ELSE 0, atto |-> IF \E o \in Outcomes : o.kind = "tmpnet" THEN AttTO ELSE 0,
             cto |-> CallTO, tick |-> 1, want |-> NoWant, nhdr |-> xc.headers, enc |-> EncOf(xc), grp |-> 0, dl |-> CtxDL]
(* the export timeout of the whole call has fired *)
Ignored == IF Deviation = "timeoutIgnored" /\ opt.headers > 0 THEN 3 ELSE 0   \* seeded deviation: timeouts fire 3 ticks late
DeadlinePassed == (CallTO # 0 /\ now - start >= CallTO + Ignored) \/ (CtxDL # 0 /\ now - start >= CtxDL)
(* RetryConfig VALUE classes.  MaxElapsed = 0 is "no limit"; the library's default policy (used when NO policy is
   configured) has a limit of DefaultME.  BIG values (throttle hints, limits, backoff intervals >= DefaultME) only matter
   relative to DefaultME and to the caller's deadline CtxDL, which ends every wait long before them.
   Seeded deviation "defaultME": an unlimited or larger configured limit is replaced by the default one. *)
DefaultME == 60

NoO == [kind |-> "none", code |-> 0, partial |-> FALSE, ri |-> FALSE, thr |-> 0, slow |-> 0]
Item(i, o, how, at) == [i |-> i, kind |-> o.kind, code |-> o.code, partial |-> o.partial, ri |-> o.ri, thr |-> o.thr,
                        slow |-> o.slow, how |-> how, at |-> at]
Dur(o) == IF o.kind = "tmpnet" THEN AttTO ELSE o.slow

EvResp(k, o, t) == [ev |-> "Resp", n |-> k, kind |-> o.kind, code |-> o.code, partial |-> o.partial, ri |-> o.ri, thr |-> o.thr, t |-> t]
Hold == [NoO EXCEPT !.kind = "hold"]

Observe(evs) == LET r == StepAll(mon, evs, {}) IN mon' = r[1] /\ bad' = bad \cup r[2]

Init == /\ pc = "call" /\ now = 0 /\ start = 0 /\ n = 0 /\ sentAt = 0 /\ lastO = NoO /\ wake = 0 /\ waitFrom = 0
        /\ ctx = "live" /\ sdPend = FALSE /\ hist = <<>> /\ bad = {}
        /\ opt \in XCfgs /\ mon = Fresh(MCfg(opt))

(* the call returns *)
Return(isErr, ref, pre) ==
  /\ pc' = "done"
  /\ Observe(pre \o <<[ev |-> "Ret", t |-> now, err |-> isErr, ref |-> ref]>>
             \o (IF sdPend THEN <<[ev |-> "ShutdownRet", t |-> now]>> ELSE <<>>) \o <<[ev |-> "End", t |-> now]>>)
  /\ UNCHANGED <<now, start, n, sentAt, lastO, wake, waitFrom, ctx, sdPend, hist, opt>>

StopBefore == /\ pc = "call" /\ ctx = "live" /\ "cancel" \in StopKinds
              /\ ctx' = "cancel" /\ hist' = Append(hist, Item("stop", NoO, "cancel", "before"))
              /\ Observe(<<[ev |-> "Cancel", t |-> now, k |-> n]>>)
              /\ UNCHANGED <<pc, now, start, n, sentAt, lastO, wake, waitFrom, sdPend, opt>>

Call == /\ pc = "call" /\ pc' = "loop" /\ start' = now
        /\ Observe(<<[ev |-> "Call", t |-> now]>>)
        /\ UNCHANGED <<now, n, sentAt, lastO, wake, waitFrom, ctx, sdPend, hist, opt>>

(* fn(ctx): one attempt, unless the context is already done *)
Fn == /\ pc = "loop"
      /\ IF ctx # "live" \/ DeadlinePassed THEN Return(TRUE, 0, <<>>)
         ELSE IF n = MaxAttempts
         THEN (pc' = "cut" /\ UNCHANGED <<now, start, n, sentAt, lastO, wake, waitFrom, ctx, sdPend, hist, mon, bad, opt>>)
         ELSE (/\ n' = n + 1 /\ sentAt' = now /\ pc' = "inflight"
               /\ Observe(<<[ev |-> "Attempt", n |-> n + 1, t |-> now,
                             hash |-> IF Deviation = "payload" /\ n >= 1 THEN "other" ELSE "h",
                             hdr |-> IF Deviation = "headersOnRetry" /\ n >= 1 THEN 0 ELSE opt.headers,
                             enc |-> IF Deviation = "gzipFirstOnly" /\ n >= 1 THEN "none" ELSE EncOf(opt)]>>)
               /\ UNCHANGED <<now, start, lastO, wake, waitFrom, ctx, sdPend, hist, opt>>)

(* the collector serves outcome o for the attempt in flight; tmpnet (HTTP) = it never answers and the per-attempt
   timeout ends the attempt; hung (gRPC) = it never answers and the export timeout of the whole call ends it *)
Unanswered(o) == o.kind \in {"tmpnet", "hung"}
TimeoutDue(o) == IF o.kind = "hung" THEN DeadlinePassed
                 ELSE now - sentAt = Dur(o) + Ignored
Respond(o) ==
  /\ pc = "inflight" /\ ctx = "live" /\ o \in Outcomes
  /\ IF Unanswered(o) THEN TimeoutDue(o) ELSE (now - sentAt = Dur(o) /\ ~DeadlinePassed)
  /\ lastO' = o /\ pc' = "eval" /\ hist' = Append(hist, Item("o", o, "", ""))
  /\ Observe(<<EvResp(n, o, IF Unanswered(o) THEN sentAt ELSE now)>>
             \o (IF Unanswered(o) THEN <<[ev |-> "Gone", n |-> n, t |-> now]>> ELSE <<>>)
             \o (IF Proto = "http" /\ o.kind = "status" THEN <<[ev |-> "Got", t |-> now]>> ELSE <<>>))
  /\ UNCHANGED <<now, start, n, sentAt, wake, waitFrom, ctx, sdPend, opt>>

(* the export timeout fires while a slow answer is still being prepared: the call ends, the answer comes too late *)
AbortSlow(o) ==
  /\ pc = "inflight" /\ ctx = "live" /\ DeadlinePassed /\ o \in Outcomes /\ ~Unanswered(o) /\ Dur(o) > 0 /\ Dur(o) >= now - sentAt
  /\ hist' = Append(hist, Item("o", o, "", ""))
  /\ pc' = "done"
  /\ Observe(<<[ev |-> "Ret", t |-> now, err |-> TRUE, ref |-> 0]>>
             \o (IF sdPend THEN <<[ev |-> "ShutdownRet", t |-> now]>> ELSE <<>>) \o <<[ev |-> "End", t |-> now]>>)
  /\ UNCHANGED <<now, start, n, sentAt, lastO, wake, waitFrom, ctx, sdPend, opt>>

Tick == /\ now < MaxClock
        /\ \/ pc = "inflight" /\ ctx = "live" /\ ~DeadlinePassed
              /\ \E o \in Outcomes : (o.kind = "hung" \/ Dur(o) + (IF Unanswered(o) THEN Ignored ELSE 0) > now - sentAt)
           \/ pc = "wait" /\ ctx = "live" /\ ~DeadlinePassed /\ now < wake + (IF Late THEN 1 ELSE 0)
        /\ now' = now + 1
        /\ UNCHANGED <<pc, start, n, sentAt, lastO, wake, waitFrom, ctx, sdPend, hist, mon, bad, opt>>

(* retry.RequestFunc after a retryable outcome *)
RetryPath ==
  LET el == now - start
      thr0 == Throttle(Proto, lastO)
      thr == IF Deviation = "RetryAfterNs" /\ Proto = "http" THEN 0 ELSE thr0
      me == IF Deviation = "ignoreME" THEN 0
            ELSE IF Deviation = "defaultME" /\ (MaxElapsed = 0 \/ MaxElapsed > DefaultME) THEN DefaultME ELSE MaxElapsed
  IN IF ~Enabled /\ Deviation # "retryDisabled" THEN Return(TRUE, n, <<>>)
     ELSE IF me # 0 /\ el > me THEN Return(TRUE, n, <<>>)
     ELSE \E b \in Backoffs :
            LET delay == Max(thr, b) IN
            IF me # 0 /\ el + thr > me THEN Return(TRUE, n, <<>>)
            ELSE \/ /\ pc' = "wait" /\ wake' = now + delay /\ waitFrom' = now
                    /\ UNCHANGED <<now, start, n, sentAt, lastO, ctx, sdPend, hist, mon, bad, opt>>
                 \/ /\ me # 0 /\ el + delay > me      \* the statement also admits giving up when the whole delay would overrun
                    /\ Return(TRUE, n, <<>>)

Eval ==
  /\ pc = "eval"
  /\ LET cls0 == Class(Proto, lastO)
         cls == IF Deviation = "retry400" /\ cls0 = "final" /\ lastO.kind = "status" THEN "retryable"
                ELSE IF Deviation = "permRetried" /\ lastO.kind = "permnet" THEN "retryable"
                ELSE IF Deviation = "tempOnlyTimeout" /\ lastO.kind = "tempnet" THEN "final"
                ELSE IF Deviation = "exhaustedNoRI" /\ Proto = "grpc" /\ lastO.code = GrpcResourceExhausted THEN "retryable"
                ELSE cls0
     IN CASE cls = "success" -> Return(FALSE, 0, <<>>)
          [] cls = "partial" -> Return(FALSE, 0, IF Deviation = "noHandle" THEN <<>> ELSE <<[ev |-> "Handled", n |-> n, t |-> now]>>)
          [] cls = "final" -> Return(TRUE, n, <<>>)
          [] cls = "retryable" -> RetryPath
          [] cls = "either" -> Return(TRUE, 0, <<>>) \/ RetryPath
          [] OTHER -> FALSE

WaitDone == /\ pc = "wait" /\ now >= wake /\ pc' = "loop"
            /\ UNCHANGED <<now, start, n, sentAt, lastO, wake, waitFrom, ctx, sdPend, hist, mon, bad, opt>>

(* Cancel / exporter Shutdown while the call is running.  A stop during a wait or an attempt happens right at
   its beginning unless Late (keeps the exported scripts free of redundant timing variants). *)
Stop(k) ==
  /\ ctx = "live" /\ ~sdPend /\ k \in StopKinds /\ pc \in {"inflight", "eval", "wait", "loop"}
  /\ (Late \/ ((pc = "wait" => now = waitFrom) /\ (pc = "inflight" => now = sentAt)))
  /\ hist' = Append(hist, Item("stop", NoO, k, pc))
  /\ LET interrupts == k = "cancel" \/ SdInterrupts
         held == IF pc = "inflight" /\ interrupts THEN <<EvResp(n, Hold, now)>> ELSE <<>>
     IN /\ ctx' = IF interrupts THEN k ELSE ctx
        /\ sdPend' = (k = "shutdown" /\ ~SdInterrupts)
        /\ Observe(IF k = "cancel" THEN <<[ev |-> "Cancel", t |-> now, k |-> n]>> \o held
                   ELSE <<[ev |-> "ShutdownCall", t |-> now, k |-> n]>>
                        \o (IF SdInterrupts THEN <<[ev |-> "ShutdownRet", t |-> now]>> ELSE <<>>) \o held)
  /\ UNCHANGED <<pc, now, start, n, sentAt, lastO, wake, waitFrom, opt>>

Abort == /\ (ctx # "live" /\ pc \in {"inflight", "wait"}) \/ (DeadlinePassed /\ pc = "wait")
         /\ ~(Deviation = "ignoreCtxInWait" /\ pc = "wait" /\ now < wake)
         /\ Return(TRUE, 0, <<>>)

TickIgnoringCtx == /\ Deviation = "ignoreCtxInWait" /\ pc = "wait" /\ ctx # "live" /\ now < wake /\ now < MaxClock
                   /\ now' = now + 1
                   /\ UNCHANGED <<pc, start, n, sentAt, lastO, wake, waitFrom, ctx, sdPend, hist, mon, bad, opt>>

Finished == pc \in {"done", "cut"} /\ UNCHANGED vars

Next == \/ StopBefore \/ Call \/ Fn \/ (\E o \in Outcomes : Respond(o) \/ AbortSlow(o)) \/ Tick \/ Eval \/ WaitDone
        \/ (\E k \in StopKinds : Stop(k)) \/ Abort \/ TickIgnoringCtx \/ Finished
Spec == Init /\ [][Next]_vars /\ WF_vars(Next)

-----------------------------------------------------------------------------
(* the statement, through the monitor *)
Inv == bad = {}
(* and directly on the model state *)
DisabledOnce == ~Enabled => n <= 1
NilOnlyAfterSuccess == (pc = "done" /\ mon.ret = "nil") => Class(Proto, lastO) \in {"success", "partial"}
Terminates == <>(pc \in {"done", "cut"})

(* every terminal behaviour, once: script + prediction *)
EmitBehaviour ==
  (pc # "done" /\ pc' = "done") =>
     PrintT("EDGE " \o ToJson([proto |-> Proto, enabled |-> Enabled, maxel |-> MaxElapsed, sdint |-> SdInterrupts, hist |-> hist',
                               callto |-> CallTO, xcfg |-> opt, ctxdl |-> CtxDL, boffs |-> Backoffs,
                               want |-> [attempts |-> n', err |-> (mon'.ret = "err"), handled |-> Cardinality(mon'.handled), clock |-> now']]))
=============================================================================
