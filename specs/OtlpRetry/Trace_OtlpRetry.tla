--------------------------- MODULE Trace_OtlpRetry ---------------------------
(* code -> spec: every recorded line of a real export call (six OTLP exporters  *)
(* against the scripted loopback collector) is one step of the contract monitor. *)
(* A Cfg line starts a new scenario (monitor reset).  Broken clauses are printed *)
(* as VIOL json, the run ends with ACCEPTED <lines>.                             *)
EXTENDS OtlpRetryContract, TraceKit
VARIABLES l, m, cur
vars == <<l, m, cur>>
NoCfg == [proto |-> "http", enabled |-> FALSE, maxel |-> 0, boffmax |-> 0, tol |-> 0, atto |-> 0, tick |-> 1, want |-> NoWant]
(* largest interval the exponential backoff can produce: 1.5 x max(InitialInterval, MaxInterval) *)
CfgOf(e) == [proto |-> e.proto, enabled |-> e.enabled, maxel |-> e.maxel,
             boffmax |-> (3 * Max(e.initial, e.maxint)) \div 2 + 1,
             tol |-> e.tol, atto |-> e.atto, tick |-> e.tick, want |-> e.want]
Init == l = 1 /\ m = Fresh(NoCfg) /\ cur = -1
TStep == /\ l <= Len(Trace)
         /\ LET e == Trace[l] IN
            IF e.ev = "Cfg"
              THEN m' = Fresh(CfgOf(e)) /\ cur' = e.sc
              ELSE IF e.sc # cur
              THEN UNCHANGED <<m, cur>>
              ELSE LET r == Step(m, e) IN
                   /\ m' = r[1] /\ UNCHANGED cur
                   /\ \A v \in r[2] : Viol([line |-> l, sc |-> e.sc, v |-> v])
         /\ l' = l + 1
TDone == l = Len(Trace) + 1 /\ Accepted(l) /\ UNCHANGED vars
Next == TStep \/ TDone
Spec == Init /\ [][Next]_vars
=============================================================================
