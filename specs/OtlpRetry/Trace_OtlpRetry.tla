--------------------------- MODULE Trace_OtlpRetry ---------------------------
(* code -> spec: every recorded line of a real export call (six OTLP exporters  *)
(* against the scripted loopback collector) is one step of the contract monitor. *)
(* A Cfg line starts a new scenario (monitor reset).  Broken clauses are printed *)
(* as VIOL json, the run ends with ACCEPTED <lines>.                             *)
EXTENDS OtlpRetryContract, TraceKit
VARIABLES l, m, cur, grps
vars == <<l, m, cur, grps>>
NoCfg == [proto |-> "http", enabled |-> FALSE, maxel |-> 0, boffmax |-> 0, tol |-> 0, atto |-> 0, cto |-> 0, tick |-> 1,
          want |-> NoWant, nhdr |-> 0, enc |-> "none", grp |-> 0, dl |-> 0]
(* largest interval the exponential backoff can produce: 1.5 x max(InitialInterval, MaxInterval) *)
CfgOf(e) == [proto |-> e.proto, enabled |-> e.enabled, maxel |-> e.maxel,
             boffmax |-> Max(e.initial, e.maxint) + Max(e.initial, e.maxint) \div 2 + 1,   \* (no 3 * x: 32-bit integers, intervals up to 400 s in us)
             tol |-> e.tol, atto |-> e.atto, cto |-> e.cto, tick |-> e.tick, want |-> e.want,
             nhdr |-> e.nhdr, enc |-> e.enc, grp |-> e.grp, dl |-> e.dl]
(* scenarios of one group run the same exporter and script and differ in the exporter-option dimension only:
   the outcome must not depend on it (soft: believed when the whole group repeats it) *)
(* with a small export timeout of the whole call a retry may still slip out right at the deadline: the number of
   attempts is then not part of the outcome *)
Summary(mm) == [attempts |-> IF mm.cfg.cto # 0 THEN 0 ELSE mm.n, ret |-> mm.ret, handled |-> Cardinality(mm.handled)]
Put(f, k, v) == [x \in (DOMAIN f) \cup {k} |-> IF x = k THEN v ELSE f[x]]
Init == l = 1 /\ m = Fresh(NoCfg) /\ cur = -1 /\ grps = <<>>
TStep == /\ l <= Len(Trace)
         /\ LET e == Trace[l] IN
            IF e.ev = "Cfg"
              THEN m' = Fresh(CfgOf(e)) /\ cur' = e.sc /\ UNCHANGED grps
              ELSE IF e.sc # cur
              THEN UNCHANGED <<m, cur, grps>>
              ELSE LET r == Step(m, e)
                       g == m.cfg.grp
                       grouped == e.ev = "End" /\ g # 0 IN
                   /\ m' = r[1] /\ UNCHANGED cur
                   /\ \A v \in r[2] : Viol([line |-> l, sc |-> e.sc, v |-> v])
                   /\ grps' = IF grouped /\ g \notin DOMAIN grps THEN Put(grps, g, Summary(m)) ELSE grps
                   /\ (grouped /\ g \in DOMAIN grps /\ grps[g] # Summary(m))
                        => Viol([line |-> l, sc |-> e.sc, v |-> V("cfg-dependent-outcome", TRUE, m, g)])
         /\ l' = l + 1
TDone == l = Len(Trace) + 1 /\ Accepted(l) /\ UNCHANGED vars
Next == TStep \/ TDone
Spec == Init /\ [][Next]_vars
=============================================================================
