--------------------------- MODULE GlobalDelegate ---------------------------
(* Implementation-shaped, LOCK-LEVEL specification of internal/global (C16).   *)
(* One action per critical section of state.go / meter.go / instruments.go /   *)
(* trace.go / propagator.go / handler.go; DESIGN.md Appendix A.4.              *)
(*                                                                            *)
(* Metric side (record M): provider.mtx (pmtx), meter.mtx (mmtx[m]),           *)
(* registration.unregMu (umu[g]), delegateMeterOnce (once).  Processes:        *)
(*   MInst       callers of SetMeterProvider; each runs Script[i], a sequence  *)
(*               over "self" (Set(Get()): documented no-op while the default   *)
(*               is installed), "r1", "r2" (two distinct real SDKs).  Docs:    *)
(*               the FIRST real provider gets every early handle (and those    *)
(*               the default provider will still hand out); later Sets only    *)
(*               replace the global for new Get calls; a self-set must not     *)
(*               use up the one-time hand-over.                                *)
(*   Creators    Meter -> sync instrument -> RecsPer x Add (PreC: the meter   *)
(*               and instrument were obtained before anything else ran)       *)
(*   Registrars  Meter -> observable instrument -> RegisterCallback           *)
(*               [-> Unregister if in UnregG] (PreG: registered beforehand)   *)
(*               Kept: owners / tracer users that go through a kept reference *)
(*               to the default provider instead of a fresh Get               *)
(* Trace side (record T): tracerProvider.mtx; TInst, TUsers (Tracer, Start).   *)
(* Simple delegators (record X): propagator / error handler, kinds XKinds.     *)
(* Monitor variables (mon) observe API-level facts only.                       *)
(* Named deviation D1 (known_findings/C16.json): lock-order inversion          *)
(*   Unregister: unregMu -> meter.mtx   vs  meter.setDelegate: meter.mtx ->    *)
(*   unregMu.  Patched = TRUE models proposed_fixes/C16-*.diff (Unregister     *)
(*   swaps the unreg func out under unregMu and calls it after unlocking).     *)
EXTENDS Naturals, Sequences, FiniteSets, TLC

CONSTANTS MInst, Creators, PreC, RecsPer, Registrars, PreG, UnregG, MeterOf,
          TInst, TUsers, PreT, TracerOf, SpansPer, XKinds, UsesPer,
          Script,      \* installer (MInst, TInst, XI) -> sequence over {"self", "r1", "r2"}
          Kept,        \* owners / tracer users holding a reference to the default provider
          RefuseReg,   \* callbacks whose RegisterCallback the delegate SDK refuses (returns an error)
          RefuseInst,  \* owners whose instrument constructor the delegate SDK refuses
          Invokers,    \* processes that invoke a registered callback as an SDK may: overlapping, own Observer each
          CbOf,        \* invoker -> registrar whose callback it invokes
          SharedObs,   \* shape switch (deviation): ONE unwrapping Observer per callback instead of one per invocation
          IdOf,        \* owner -> identity of its instrument <<name, kind, unit, description>> (documented: identical
                       \* identity -> the same instrument; any difference -> distinct instruments)
          KeyFields,   \* shape switch: the fields (subset of 1..4) the placeholder cache is keyed by; the code: all four
          SdkObs,      \* registrars whose observable comes straight from SDK r1: only the callback goes through the
                       \* global meter (a placeholder meter with callbacks but no placeholder instruments)
          PreMeter,    \* owners whose Meter was obtained before anything runs, the instrument only later (a placeholder
                       \* meter that may be empty when it is handed over)
          SkipEmpty,   \* shape switch (deviation): meter.setDelegate returns early when it has no placeholder instruments
          Shape,       \* Meter() / Tracer() on the default provider: "atomic" (the code: one critical section) |
                       \* "split" (check, unlocked config computation, insert WITHOUT re-check: deviation) | "recheck"
          Patched, AllowKnown

VARIABLES M, T, X, S, V, pc, cnt, mon
vars == <<M, T, X, S, V, pc, cnt, mon>>

XI == {"xi." \o k : k \in XKinds}
XU == {"xu." \o k : k \in XKinds}
KindOf(x) == CHOOSE k \in XKinds : x = "xi." \o k \/ x = "xu." \o k
Owners == Creators \cup Registrars
Procs == MInst \cup Owners \cup TInst \cup TUsers \cup XI \cup XU \cup Invokers
Meters == {MeterOf[x] : x \in Owners}
Tracers == {TracerOf[u] : u \in TUsers}
Kinds == {"mp", "tp"} \cup XKinds
Real == {"r1", "r2"}
Insts == MInst \cup TInst \cup XI

RECURSIVE SeqOf(_)
SeqOf(Z) == IF Z = {} THEN <<>> ELSE LET x == CHOOSE y \in Z : TRUE IN <<x>> \o SeqOf(Z \ {x})
Without(s, g) == SelectSeq(s, LAMBDA y : y # g)

SameKey(x, y) == MeterOf[x] = MeterOf[y] /\ \A f \in KeyFields : IdOf[x][f] = IdOf[y][f]
PreOwn == (PreC \cup PreG) \ SdkObs                               \* placeholder instruments created beforehand
Canon(x) == CHOOSE y \in {z \in PreOwn : SameKey(z, x)} : TRUE     \* the placeholder of x's cache key
Collapsed(x, y) == IF IdOf[x] # IdOf[y] THEN {"placeholder-identity-collapsed"} ELSE {}

(* "none" = no delegate / no handle; "global" = the default (delegating) object; "r1"/"r2" = a real SDK *)
Init ==
  /\ M = [gmp |-> "global", once |-> "free", pmtx |-> "none", pdel |-> "none",
          meters |-> {MeterOf[x] : x \in PreC \cup PreG \cup PreMeter},
          mmtx |-> [m \in Meters |-> "none"], mdel |-> [m \in Meters |-> "none"],
          minst |-> [m \in Meters |-> {Canon(x) : x \in {y \in PreOwn : MeterOf[y] = m}}],
          rep |-> [x \in Owners |-> IF x \in PreOwn THEN Canon(x) ELSE "none"],   \* whose placeholder x was handed
          idel |-> [x \in Owners |-> "none"],
          registry |-> [m \in Meters |-> SeqOf({g \in PreG : MeterOf[g] = m})],
          unreg |-> [g \in Registrars |-> IF g \in PreG THEN "pre" ELSE "none"],
          umu |-> [g \in Registrars |-> "none"], utmp |-> [g \in Registrars |-> "none"],
          todo |-> {}, cur |-> "none", tried |-> {},
          handle |-> [x \in Owners |-> IF x \in PreC \cup PreG \cup PreMeter THEN "global" ELSE "none"],
          ikind |-> [x \in Owners |-> IF x \in PreOwn THEN "global" ELSE IF x \in PreG THEN "sdkobs" ELSE "none"],
          rkind |-> [g \in Registrars |-> IF g \in PreG THEN "global" ELSE "none"]]
  /\ T = [gtp |-> "global", once |-> "free", mtx |-> "none", pdel |-> "none",
          tracers |-> {TracerOf[u] : u \in PreT}, tdel |-> [t \in Tracers |-> "none"], todo |-> {},
          handle |-> [u \in TUsers |-> IF u \in PreT THEN "global" ELSE "none"]]
  /\ X = [g |-> [k \in XKinds |-> "global"], del |-> [k \in XKinds |-> "none"], once |-> [k \in XKinds |-> "free"]]
  /\ S = [val |-> [i \in Insts |-> "none"],    \* the provider passed to the Set call in progress
          cur |-> [i \in Insts |-> "none"]]    \* `current` as read at the beginning of that call
  /\ V = [uo |-> [g \in Registrars |-> "none"]]    \* the shared unwrapping Observer (SharedObs): whose Observer it wraps
  /\ pc = [p \in Procs |->
             IF p \in Insts THEN (IF Len(Script[p]) = 0 THEN "done" ELSE "idle")
             ELSE IF p \in PreC THEN "rec"
             ELSE IF p \in PreG THEN (IF p \in UnregG THEN "registered" ELSE "done")
             ELSE IF p \in PreMeter THEN "inst"
             ELSE IF p \in PreT THEN "start"
             ELSE IF p \in XU THEN "use" ELSE "idle"]
  /\ cnt = [p \in Procs |-> 0]
  /\ mon = [setRet |-> [k \in Kinds |-> FALSE],     \* some Set with a REAL provider has returned
            first |-> [k \in Kinds |-> "none"],     \* the real provider of the first such Set that began delegating
            after |-> [p \in Procs |-> FALSE],
            sdkReg |-> [g \in Registrars |-> 0], sdkAct |-> [g \in Registrars |-> 0],
            regRet |-> PreG, unregCalled |-> {}, unregRet |-> {},
            bad |-> UNION {Collapsed(x, Canon(x)) : x \in PreOwn}]

Go(p, l) == pc' = [pc EXCEPT ![p] = l]
SdkRegister(mn, g) ==
  [mn EXCEPT !.sdkReg[g] = @ + 1, !.sdkAct[g] = @ + 1,
             !.bad = @ \cup (IF mn.sdkReg[g] >= 1 THEN {"registered-twice"} ELSE {})
                       \cup (IF g \in mn.unregRet THEN {"registered-after-unregister"} ELSE {})]
SdkUnregister(mn, g) == [mn EXCEPT !.sdkAct[g] = IF @ > 0 THEN @ - 1 ELSE 0]
(* a use through a handle of the default provider, begun after a real Set returned, must reach an SDK, and
   always the one that was installed first *)
Judge(mn, p, k, viaDefault, target, what) ==
  [mn EXCEPT !.bad = @ \cup (IF mn.after[p] /\ target = "none" THEN {what} ELSE {})
                       \cup (IF viaDefault /\ target # "none" /\ target # mn.first[k]
                             THEN {"early-handle-reached-other-sdk"} ELSE {})]

(* ------------------------------------------------ the Set call surface (state.go:62,94,123,155) *)
(* SBegin: next entry of the script; "self" = Set(Get()): the argument is whatever Get returns now.       *)
(* SCall:  `current := Get()`; the guard "default set to itself" returns without touching the once.       *)
Glob(i) == IF i \in MInst THEN M.gmp ELSE IF i \in TInst THEN T.gtp ELSE X.g[KindOf(i)]
KindK(i) == IF i \in MInst THEN "mp" ELSE IF i \in TInst THEN "tp" ELSE KindOf(i)
SBegin(i) == /\ pc[i] = "idle"
             /\ LET a == Script[i][cnt[i] + 1] IN
                S' = [S EXCEPT !.val[i] = IF a = "self" THEN Glob(i) ELSE a]
             /\ Go(i, "call") /\ UNCHANGED <<M, T, X, V, cnt, mon>>
SCall(i) == /\ pc[i] = "call"
            /\ S' = [S EXCEPT !.cur[i] = Glob(i)]
            /\ Go(i, IF Glob(i) = "global" /\ S.val[i] = "global" THEN "ret" ELSE "once")
            /\ UNCHANGED <<M, T, X, V, cnt, mon>>
SRet(i) == /\ pc[i] = "ret"
           /\ cnt' = [cnt EXCEPT ![i] = @ + 1]
           /\ Go(i, IF cnt[i] + 1 >= Len(Script[i]) THEN "done" ELSE "idle")
           /\ mon' = IF S.val[i] \in Real THEN [mon EXCEPT !.setRet[KindK(i)] = TRUE] ELSE mon
           /\ S' = [S EXCEPT !.val[i] = "none", !.cur[i] = "none"]
           /\ UNCHANGED <<M, T, X, V>>

(* ------------------------------------------------ SetMeterProvider (state.go:155, meter.go:37,126,596) *)
Pending == IF M.cur = "none" THEN {} ELSE {x \in M.minst[M.cur] : x \notin M.tried}
(* the delegate refuses g's callback: scripted for g, or a consequence of g's own instrument having been refused *)
Refused(g) == g \in RefuseReg \cup RefuseInst \/ (g \in SdkObs /\ M.pdel = "r2")   \* (r2 refuses r1's observable)
(* sync.Once: the first caller runs the body; the body delegates only if `current` is the default provider *)
IOnce(i) == /\ pc[i] = "once"
            /\ IF M.once = "free"
                 THEN IF S.cur[i] = "global" THEN (M' = [M EXCEPT !.once = "running"] /\ Go(i, "plock"))
                                             ELSE (M' = [M EXCEPT !.once = "done"] /\ Go(i, "store"))
                 ELSE (UNCHANGED M /\ Go(i, "oncewait"))
            /\ UNCHANGED <<T, X, S, V, cnt, mon>>
IOnceWait(i) == pc[i] = "oncewait" /\ M.once = "done" /\ Go(i, "store") /\ UNCHANGED <<M, T, X, S, V, cnt, mon>>
IProvLock(i) == /\ pc[i] = "plock" /\ M.pmtx = "none"
                /\ M' = [M EXCEPT !.pmtx = i, !.pdel = S.val[i], !.todo = M.meters]
                /\ mon' = [mon EXCEPT !.first["mp"] = IF @ = "none" THEN S.val[i] ELSE @]
                /\ Go(i, IF M.meters = {} THEN "punlock" ELSE "mlock")
                /\ UNCHANGED <<T, X, S, V, cnt>>
IMeterLock(i, m) == /\ pc[i] = "mlock" /\ m \in M.todo /\ M.mmtx[m] = "none"
                    /\ M' = [M EXCEPT !.mmtx[m] = i, !.cur = m] /\ Go(i, "mdeleg")
                    /\ UNCHANGED <<T, X, S, V, cnt, mon>>
IDelegateMeter(i) == /\ pc[i] = "mdeleg" /\ M' = [M EXCEPT !.mdel[M.cur] = M.pdel] /\ Go(i, "walk")
                     /\ UNCHANGED <<T, X, S, V, cnt, mon>>
(* inst.setDelegate: a refused constructor is reported to the error handler and affects only this instrument *)
IInst(i, x) == /\ pc[i] = "walk" /\ x \in Pending
               /\ M' = [M EXCEPT !.tried = @ \cup {x}, !.idel[x] = IF x \in RefuseInst THEN @ ELSE M.pdel]
               /\ UNCHANGED <<T, X, S, V, pc, cnt, mon>>
Skip == SkipEmpty /\ M.cur # "none" /\ M.minst[M.cur] = {}     \* deviation: "nothing to re-create" although callbacks wait
IRegLock(i) == /\ pc[i] = "walk" /\ Pending = {} /\ M.registry[M.cur] # <<>> /\ ~Skip
               /\ LET g == Head(M.registry[M.cur]) IN
                  /\ M.umu[g] = "none" /\ M' = [M EXCEPT !.umu[g] = i]
               /\ Go(i, "reg") /\ UNCHANGED <<T, X, S, V, cnt, mon>>
IReg(i) == /\ pc[i] = "reg"
           /\ LET g == Head(M.registry[M.cur]) IN
              IF M.unreg[g] = "nil" \/ Refused(g)   \* Unregister already called: skip; refused: reported, unreg kept
                THEN /\ M' = [M EXCEPT !.umu[g] = "none", !.registry[M.cur] = Tail(@)]
                     /\ UNCHANGED mon
                ELSE /\ M' = [M EXCEPT !.umu[g] = "none", !.registry[M.cur] = Tail(@), !.unreg[g] = "sdk"]
                     /\ mon' = SdkRegister(mon, g)
           /\ Go(i, "walk") /\ UNCHANGED <<T, X, S, V, cnt>>
IMeterUnlock(i) == /\ pc[i] = "walk" /\ Pending = {} /\ (M.registry[M.cur] = <<>> \/ Skip)
                   /\ M' = [M EXCEPT !.mmtx[M.cur] = "none", !.minst[M.cur] = {}, !.todo = @ \ {M.cur}, !.cur = "none"]
                   /\ Go(i, IF M.todo \ {M.cur} = {} THEN "punlock" ELSE "mlock")
                   /\ UNCHANGED <<T, X, S, V, cnt, mon>>
IProvUnlock(i) == /\ pc[i] = "punlock" /\ M' = [M EXCEPT !.pmtx = "none", !.meters = {}, !.once = "done"]
                  /\ Go(i, "store") /\ UNCHANGED <<T, X, S, V, cnt, mon>>
IStore(i) == pc[i] = "store" /\ M' = [M EXCEPT !.gmp = S.val[i]] /\ Go(i, "ret") /\ UNCHANGED <<T, X, S, V, cnt, mon>>

(* ------------------------------------------------ creators and registrars: Meter, instrument (meter.go:55,149-496) *)
(* OGet = GetMeterProvider(); an owner in Kept uses its reference to the default provider instead *)
OGet(c) == /\ pc[c] = "idle"
           /\ IF M.gmp # "global" /\ c \notin Kept THEN (M' = [M EXCEPT !.handle[c] = M.gmp] /\ Go(c, "inst"))
                                                  ELSE (UNCHANGED M /\ Go(c, "pm"))
           /\ UNCHANGED <<T, X, S, V, cnt, mon>>
(* meterProvider.Meter: the code checks the delegate and inserts the placeholder in ONE critical section
   (Shape = "atomic"). "split" / "recheck": check, unlocked computation of the config / key, second critical section
   without / with a re-check of the delegate -- a placeholder inserted after the hand-over is an orphan. *)
OMeter(c) == /\ pc[c] = "pm" /\ M.pmtx = "none"
             /\ IF M.pdel # "none" THEN (M' = [M EXCEPT !.handle[c] = "fwd"] /\ Go(c, "inst"))
                ELSE IF Shape = "atomic"
                  THEN (M' = [M EXCEPT !.handle[c] = "global", !.meters = @ \cup {MeterOf[c]}] /\ Go(c, "inst"))
                  ELSE (UNCHANGED M /\ Go(c, "pmcompute"))
             /\ UNCHANGED <<T, X, S, V, cnt, mon>>
OMeterCompute(c) == pc[c] = "pmcompute" /\ Go(c, "pminsert") /\ UNCHANGED <<M, T, X, S, V, cnt, mon>>
OMeterInsert(c) == /\ pc[c] = "pminsert" /\ M.pmtx = "none"
                   /\ M' = IF M.pdel = "none" THEN [M EXCEPT !.handle[c] = "global", !.meters = @ \cup {MeterOf[c]}]
                           ELSE IF Shape = "recheck" THEN [M EXCEPT !.handle[c] = "fwd"]
                           ELSE [M EXCEPT !.handle[c] = "orphan"]
                   /\ Go(c, "inst") /\ UNCHANGED <<T, X, S, V, cnt, mon>>
(* handle: "global" = placeholder meter; "fwd" = the first SDK's meter handed out by the default provider;
   "r1"/"r2" = a meter of the SDK that Get returned.  ikind: "global" = placeholder instrument (delegate in idel),
   "fwd:<sdk>" is represented by idel[c] set at creation. *)
(* a constructor forwarded to (or called on) an SDK that refuses it returns the error to the caller: nothing to use.
   On an orphan meter (Shape = "split") the instrument is a placeholder nobody will ever connect. *)
OInst(c) == /\ pc[c] = "inst"
            /\ LET m == MeterOf[c]
                   sdkside == M.handle[c] \in Real \cup {"fwd"} \/ (M.handle[c] = "global" /\ M.mdel[m] # "none")
                   same == {x \in M.minst[m] : SameKey(x, c)} IN
               /\ (M.handle[c] = "global" /\ c \notin SdkObs) => M.mmtx[m] = "none"
               /\ IF c \in SdkObs THEN M' = [M EXCEPT !.ikind[c] = "sdkobs"]    \* created on SDK r1 itself, no global lock
                  ELSE IF sdkside /\ c \in RefuseInst THEN M' = [M EXCEPT !.ikind[c] = "refused"]
                  ELSE IF M.handle[c] \in Real THEN M' = [M EXCEPT !.ikind[c] = M.handle[c]]
                  ELSE IF M.handle[c] = "fwd" THEN M' = [M EXCEPT !.ikind[c] = "fwd", !.idel[c] = M.pdel]
                  ELSE IF M.handle[c] = "orphan" THEN M' = [M EXCEPT !.ikind[c] = "orphan"]
                  ELSE M' = IF M.mdel[m] # "none" THEN [M EXCEPT !.ikind[c] = "fwd", !.idel[c] = M.mdel[m]]
                            ELSE IF same = {} THEN [M EXCEPT !.ikind[c] = "global", !.minst[m] = @ \cup {c}, !.rep[c] = c]
                            ELSE [M EXCEPT !.ikind[c] = "global", !.rep[c] = CHOOSE x \in same : TRUE]   \* cached placeholder
               /\ mon' = IF M.handle[c] = "global" /\ c \notin SdkObs /\ M.mdel[m] = "none" /\ same # {}
                            /\ ~(sdkside /\ c \in RefuseInst)
                         THEN [mon EXCEPT !.bad = @ \cup Collapsed(c, CHOOSE x \in same : TRUE)] ELSE mon
               /\ Go(c, IF c \notin SdkObs /\ sdkside /\ c \in RefuseInst THEN "done" ELSE IF c \in Creators THEN "rec" ELSE "register")
            /\ UNCHANGED <<T, X, S, V, cnt>>
(* Add / Record: delegate.Load() then forward or drop (instruments.go:330) *)
RCall(c) == /\ c \in Creators /\ pc[c] = "rec" /\ Go(c, "load")
            /\ mon' = [mon EXCEPT !.after[c] = mon.setRet["mp"]] /\ UNCHANGED <<M, T, X, S, V, cnt>>
RLoad(c) == /\ c \in Creators /\ pc[c] = "load"
            /\ mon' = IF M.ikind[c] \in Real \/ (M.ikind[c] = "global" /\ M.rep[c] \in RefuseInst) THEN mon
                      ELSE Judge(mon, c, "mp", TRUE, IF M.ikind[c] = "orphan" THEN "none"
                                                     ELSE IF M.ikind[c] = "global" THEN M.idel[M.rep[c]] ELSE M.idel[c],
                                 "lost-after-set")
            /\ cnt' = [cnt EXCEPT ![c] = @ + 1]
            /\ Go(c, IF cnt[c] + 1 >= RecsPer THEN "done" ELSE "rec") /\ UNCHANGED <<M, T, X, S, V>>

(* ------------------------------------------------ RegisterCallback / Unregister (meter.go:499,614) *)
GRegister(g) ==
  /\ g \in Registrars /\ pc[g] = "register"
  /\ LET m == MeterOf[g]
         fwd == [M EXCEPT !.rkind[g] = "sdk", !.unreg[g] = "sdk"]
         sdkside == M.handle[g] \in Real \cup {"fwd"} \/ (M.handle[g] = "global" /\ M.mdel[m] # "none") IN
     /\ M.handle[g] = "global" => M.mmtx[m] = "none"
     /\ IF sdkside /\ Refused(g) THEN (M' = [M EXCEPT !.rkind[g] = "refused"] /\ UNCHANGED mon)   \* error returned to the caller
        ELSE IF sdkside THEN (M' = fwd /\ mon' = [SdkRegister(mon, g) EXCEPT !.regRet = @ \cup {g}])
        ELSE IF M.handle[g] = "orphan"     \* registry of a meter nobody will ever hand over
          THEN (M' = [M EXCEPT !.rkind[g] = "orphan", !.unreg[g] = "nil"] /\ mon' = [mon EXCEPT !.regRet = @ \cup {g}])
          ELSE /\ M' = [M EXCEPT !.rkind[g] = "global", !.unreg[g] = "pre", !.registry[m] = Append(@, g)]
               /\ mon' = [mon EXCEPT !.regRet = @ \cup {g}]
     /\ Go(g, IF (sdkside /\ Refused(g)) \/ g \notin UnregG THEN "done" ELSE "registered")
  /\ UNCHANGED <<T, X, S, V, cnt>>
GUnregCall(g) == /\ g \in Registrars /\ pc[g] = "registered" /\ Go(g, "ulock")
                 /\ mon' = [mon EXCEPT !.unregCalled = @ \cup {g}] /\ UNCHANGED <<M, T, X, S, V, cnt>>
GUnregLock(g) ==
  /\ g \in Registrars /\ pc[g] = "ulock"
  /\ IF M.rkind[g] = "sdk"      \* the SDK's own registration was handed out: no global lock involved
       THEN /\ M' = [M EXCEPT !.unreg[g] = "nil"] /\ mon' = SdkUnregister(mon, g) /\ Go(g, "uret")
       ELSE /\ M.umu[g] = "none" /\ UNCHANGED mon
            /\ IF M.unreg[g] = "nil" THEN (UNCHANGED M /\ Go(g, "uret"))
               ELSE IF Patched
                 THEN (M' = [M EXCEPT !.utmp[g] = M.unreg[g], !.unreg[g] = "nil"] /\ Go(g, "ucall"))
                 ELSE (M' = [M EXCEPT !.utmp[g] = M.unreg[g], !.umu[g] = g] /\ Go(g, "ucall"))
  /\ UNCHANGED <<T, X, S, V, cnt>>
GUnreg(g) ==
  /\ g \in Registrars /\ pc[g] = "ucall"
  /\ LET m == MeterOf[g]
         rel(Q) == IF Patched THEN Q ELSE [Q EXCEPT !.unreg[g] = "nil", !.umu[g] = "none"] IN
     IF M.utmp[g] = "pre"     \* the closure of RegisterCallback: m.mtx.Lock(); registry.Remove(e)
       THEN /\ M.mmtx[m] = "none"
            /\ M' = rel([M EXCEPT !.registry[m] = Without(@, g)]) /\ UNCHANGED mon
       ELSE /\ M' = rel(M) /\ mon' = SdkUnregister(mon, g)
  /\ Go(g, "uret") /\ UNCHANGED <<T, X, S, V, cnt>>
GURet(g) == /\ g \in Registrars /\ pc[g] = "uret" /\ Go(g, "done")
            /\ mon' = [mon EXCEPT !.unregRet = @ \cup {g},
                                  !.bad = @ \cup (IF mon.sdkAct[g] > 0 THEN {"active-after-unregister"} ELSE {})]
            /\ UNCHANGED <<M, T, X, S, V, cnt>>

(* ------------------------------------------------ tracers (state.go:94, trace.go:58,76,131) *)
TIOnce(i) == /\ pc[i] = "once"
             /\ IF T.once = "free"
                  THEN IF S.cur[i] = "global" THEN (T' = [T EXCEPT !.once = "running"] /\ Go(i, "plock"))
                                              ELSE (T' = [T EXCEPT !.once = "done"] /\ Go(i, "store"))
                  ELSE (UNCHANGED T /\ Go(i, "oncewait"))
             /\ UNCHANGED <<M, X, S, V, cnt, mon>>
TIOnceWait(i) == pc[i] = "oncewait" /\ T.once = "done" /\ Go(i, "store") /\ UNCHANGED <<M, T, X, S, V, cnt, mon>>
TIProvLock(i) == /\ pc[i] = "plock" /\ T.mtx = "none"
                 /\ T' = [T EXCEPT !.mtx = i, !.pdel = S.val[i], !.todo = T.tracers] /\ Go(i, "walk")
                 /\ mon' = [mon EXCEPT !.first["tp"] = IF @ = "none" THEN S.val[i] ELSE @]
                 /\ UNCHANGED <<M, X, S, V, cnt>>
TITracer(i, t) == /\ pc[i] = "walk" /\ t \in T.todo
                  /\ T' = [T EXCEPT !.tdel[t] = T.pdel, !.todo = @ \ {t}] /\ UNCHANGED <<M, X, S, V, pc, cnt, mon>>
TIProvUnlock(i) == /\ pc[i] = "walk" /\ T.todo = {}
                   /\ T' = [T EXCEPT !.mtx = "none", !.tracers = {}, !.once = "done"] /\ Go(i, "store")
                   /\ UNCHANGED <<M, X, S, V, cnt, mon>>
TIStore(i) == pc[i] = "store" /\ T' = [T EXCEPT !.gtp = S.val[i]] /\ Go(i, "ret") /\ UNCHANGED <<M, X, S, V, cnt, mon>>
UGet(u) == /\ pc[u] = "idle"
           /\ IF T.gtp # "global" /\ u \notin Kept THEN (T' = [T EXCEPT !.handle[u] = T.gtp] /\ Go(u, "start"))
                                                  ELSE (UNCHANGED T /\ Go(u, "pt"))
           /\ UNCHANGED <<M, X, S, V, cnt, mon>>
UTracer(u) == /\ pc[u] = "pt" /\ T.mtx = "none"
              /\ IF T.pdel # "none" THEN (T' = [T EXCEPT !.handle[u] = "fwd"] /\ Go(u, "start"))
                 ELSE IF Shape = "atomic"
                   THEN (T' = [T EXCEPT !.handle[u] = "global", !.tracers = @ \cup {TracerOf[u]}] /\ Go(u, "start"))
                   ELSE (UNCHANGED T /\ Go(u, "ptcompute"))
              /\ UNCHANGED <<M, X, S, V, cnt, mon>>
UTracerCompute(u) == pc[u] = "ptcompute" /\ Go(u, "ptinsert") /\ UNCHANGED <<M, T, X, S, V, cnt, mon>>
UTracerInsert(u) == /\ pc[u] = "ptinsert" /\ T.mtx = "none"
                    /\ T' = IF T.pdel = "none" THEN [T EXCEPT !.handle[u] = "global", !.tracers = @ \cup {TracerOf[u]}]
                            ELSE IF Shape = "recheck" THEN [T EXCEPT !.handle[u] = "fwd"]
                            ELSE [T EXCEPT !.handle[u] = "orphan"]
                    /\ Go(u, "start") /\ UNCHANGED <<M, X, S, V, cnt, mon>>
UCall(u) == /\ pc[u] = "start" /\ Go(u, "load")
            /\ mon' = [mon EXCEPT !.after[u] = mon.setRet["tp"]] /\ UNCHANGED <<M, T, X, S, V, cnt>>
ULoad(u) == /\ pc[u] = "load"
            /\ mon' = IF T.handle[u] \in Real THEN mon
                      ELSE Judge(mon, u, "tp", TRUE, IF T.handle[u] = "fwd" THEN T.pdel
                                                     ELSE IF T.handle[u] = "orphan" THEN "none" ELSE T.tdel[TracerOf[u]],
                                 "span-lost-after-set")
            /\ cnt' = [cnt EXCEPT ![u] = @ + 1]
            /\ Go(u, IF cnt[u] + 1 >= SpansPer THEN "done" ELSE "start") /\ UNCHANGED <<M, T, X, S, V>>

(* ------------------------------------------------ propagator / error handler (propagator.go, handler.go) *)
XOnce(i) == /\ pc[i] = "once"
            /\ LET k == KindOf(i) IN
               IF X.once[k] = "free"
                 THEN X' = [X EXCEPT !.once[k] = "done", !.del[k] = IF S.cur[i] = "global" THEN S.val[i] ELSE @]
                 ELSE UNCHANGED X
            /\ mon' = IF X.once[KindOf(i)] = "free" /\ S.cur[i] = "global"
                        THEN [mon EXCEPT !.first[KindOf(i)] = S.val[i]] ELSE mon
            /\ Go(i, "store") /\ UNCHANGED <<M, T, S, V, cnt>>
XStore(i) == /\ pc[i] = "store" /\ X' = [X EXCEPT !.g[KindOf(i)] = S.val[i]] /\ Go(i, "ret")
             /\ UNCHANGED <<M, T, S, V, cnt, mon>>
XUCall(u) == /\ pc[u] = "use" /\ Go(u, "load")
             /\ mon' = [mon EXCEPT !.after[u] = mon.setRet[KindOf(u)]] /\ UNCHANGED <<M, T, X, S, V, cnt>>
XULoad(u) == /\ pc[u] = "load"
             /\ mon' = Judge(mon, u, KindOf(u), TRUE, X.del[KindOf(u)], "use-lost-after-set")
             /\ cnt' = [cnt EXCEPT ![u] = @ + 1]
             /\ Go(u, IF cnt[u] + 1 >= UsesPer THEN "done" ELSE "use") /\ UNCHANGED <<M, T, X, S, V>>

(* ------------------------------------------------ invocations of a registered callback (meter.go:590 unwrapCallback) *)
(* An SDK may invoke a callback concurrently, each invocation with an Observer that is valid for it only.  The code
   allocates one unwrapping Observer per invocation; SharedObs models one per callback, overwritten by each Begin. *)
VBegin(v) == /\ pc[v] = "idle" /\ mon.sdkReg[CbOf[v]] >= 1
             /\ V' = [V EXCEPT !.uo[CbOf[v]] = v] /\ Go(v, "obs") /\ UNCHANGED <<M, T, X, S, cnt, mon>>
VObserve(v) == /\ pc[v] = "obs"
               /\ LET to == IF SharedObs THEN V.uo[CbOf[v]] ELSE v IN
                  mon' = [mon EXCEPT !.bad = @ \cup (IF to # v THEN {"observation-cross-delivered"} ELSE {})]
               /\ cnt' = [cnt EXCEPT ![v] = @ + 1]
               /\ Go(v, IF cnt[v] + 1 >= 2 THEN "done" ELSE "obs") /\ UNCHANGED <<M, T, X, S, V>>
(* the callback never reached an SDK (no installation, refused, unregistered before): nothing to invoke *)
VSkip(v) == /\ pc[v] = "idle" /\ mon.sdkReg[CbOf[v]] = 0 /\ \A p \in Procs \ Invokers : pc[p] = "done"
            /\ Go(v, "done") /\ UNCHANGED <<M, T, X, S, V, cnt, mon>>

PNext(p) ==
  \/ p \in Insts /\ (SBegin(p) \/ SCall(p) \/ SRet(p))
  \/ p \in MInst /\ (IOnce(p) \/ IOnceWait(p) \/ IProvLock(p) \/ (\E m \in Meters : IMeterLock(p, m))
                     \/ IDelegateMeter(p) \/ (\E x \in Owners : IInst(p, x)) \/ IRegLock(p) \/ IReg(p)
                     \/ IMeterUnlock(p) \/ IProvUnlock(p) \/ IStore(p))
  \/ p \in Invokers /\ (VBegin(p) \/ VObserve(p) \/ VSkip(p))
  \/ p \in Owners /\ (OGet(p) \/ OMeter(p) \/ OMeterCompute(p) \/ OMeterInsert(p) \/ OInst(p) \/ RCall(p) \/ RLoad(p)
                      \/ GRegister(p) \/ GUnregCall(p) \/ GUnregLock(p) \/ GUnreg(p) \/ GURet(p))
  \/ p \in TInst /\ (TIOnce(p) \/ TIOnceWait(p) \/ TIProvLock(p) \/ (\E t \in Tracers : TITracer(p, t))
                     \/ TIProvUnlock(p) \/ TIStore(p))
  \/ p \in TUsers /\ (UGet(p) \/ UTracer(p) \/ UTracerCompute(p) \/ UTracerInsert(p) \/ UCall(p) \/ ULoad(p))
  \/ p \in XI /\ (XOnce(p) \/ XStore(p))
  \/ p \in XU /\ (XUCall(p) \/ XULoad(p))
Next ==
  \/ \E i \in Insts : SBegin(i) \/ SCall(i) \/ SRet(i)
  \/ \E i \in MInst : \/ IOnce(i) \/ IOnceWait(i) \/ IProvLock(i) \/ (\E m \in Meters : IMeterLock(i, m))
                       \/ IDelegateMeter(i) \/ (\E x \in Owners : IInst(i, x)) \/ IRegLock(i) \/ IReg(i)
                       \/ IMeterUnlock(i) \/ IProvUnlock(i) \/ IStore(i)
  \/ \E v \in Invokers : VBegin(v) \/ VObserve(v) \/ VSkip(v)
  \/ \E c \in Owners : \/ OGet(c) \/ OMeter(c) \/ OMeterCompute(c) \/ OMeterInsert(c) \/ OInst(c) \/ RCall(c) \/ RLoad(c)
                        \/ GRegister(c) \/ GUnregCall(c) \/ GUnregLock(c) \/ GUnreg(c) \/ GURet(c)
  \/ \E i \in TInst : \/ TIOnce(i) \/ TIOnceWait(i) \/ TIProvLock(i) \/ (\E t \in Tracers : TITracer(i, t))
                       \/ TIProvUnlock(i) \/ TIStore(i)
  \/ \E u \in TUsers : UGet(u) \/ UTracer(u) \/ UTracerCompute(u) \/ UTracerInsert(u) \/ UCall(u) \/ ULoad(u)
  \/ \E i \in XI : XOnce(i) \/ XStore(i)
  \/ \E u \in XU : XUCall(u) \/ XULoad(u)
Spec == Init /\ [][Next]_vars
FairSpec == Spec /\ \A p \in Procs : WF_vars(PNext(p))

(* ------------------------------------------------ properties *)
Contract == mon.bad = {}
RegisteredAtMostOnce == \A g \in Registrars : mon.sdkReg[g] <= 1
(* each callback whose RegisterCallback returned and that nobody unregisters is registered with the SDK once
   an installation of a real provider has returned *)
CallbackConnected == mon.setRet["mp"] =>
  \A g \in (mon.regRet \ mon.unregCalled) \ (RefuseReg \cup RefuseInst \cup (IF mon.first["mp"] = "r2" THEN SdkObs ELSE {})) :
     mon.sdkReg[g] = 1 /\ mon.sdkAct[g] = 1
(* no placeholder instrument / tracer is left without delegate once a real installation returned *)
(* (a refusal by the delegate affects the refused instrument only) *)
InstConnected == mon.setRet["mp"] => \A x \in Owners : /\ M.ikind[x] = "global" /\ M.rep[x] \notin RefuseInst => M.idel[M.rep[x]] # "none"
                                                        /\ M.ikind[x] # "orphan" /\ M.handle[x] # "orphan"
TracerConnected == mon.setRet["tp"] => \A u \in TUsers : /\ T.handle[u] = "global" => T.tdel[TracerOf[u]] # "none"
                                                          /\ T.handle[u] # "orphan"
(* the one-time hand-over is used up only by a real provider, never by a self-set *)
OnceOnlyByReal == /\ M.once # "free" => mon.first["mp"] \in Real \/ M.once = "running"
                  /\ M.once = "done" => M.pdel \in Real
                  /\ T.once = "done" => T.pdel \in Real
                  /\ \A k \in XKinds : X.once[k] = "done" => X.del[k] \in Real
(* every delegate ever configured is the first real provider *)
OneDelegate == /\ M.pdel \in {"none", mon.first["mp"]}
               /\ \A m \in Meters : M.mdel[m] \in {"none", mon.first["mp"]}
               /\ \A x \in Owners : M.idel[x] \in {"none", mon.first["mp"]}
               /\ \A t \in Tracers : T.tdel[t] \in {"none", mon.first["tp"]}
LockSanity == /\ M.pmtx \in MInst \cup {"none"}
              /\ \A m \in Meters : M.mmtx[m] # "none" => (M.pmtx = M.mmtx[m])
AllDone == \A p \in Procs : pc[p] = "done"
(* D1: the installer holds meter.mtx and waits for unregMu of the head registration; its Unregister holds
   unregMu and waits for meter.mtx inside the pre-delegation unreg closure *)
KnownDeadlock ==
  /\ ~Patched
  /\ \E i \in MInst, g \in Registrars :
       /\ pc[i] = "walk" /\ M.cur = MeterOf[g] /\ M.mmtx[M.cur] = i /\ Pending = {}
       /\ M.registry[M.cur] # <<>> /\ Head(M.registry[M.cur]) = g
       /\ M.umu[g] = g /\ pc[g] = "ucall" /\ M.utmp[g] = "pre"
Stuck == (~ENABLED Next) => (AllDone \/ (AllowKnown /\ KnownDeadlock))
Termination == <>AllDone
=============================================================================
