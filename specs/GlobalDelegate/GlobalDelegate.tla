--------------------------- MODULE GlobalDelegate ---------------------------
(* Implementation-shaped, LOCK-LEVEL specification of internal/global (C16).   *)
(* One action per critical section of state.go / meter.go / instruments.go /   *)
(* trace.go / propagator.go / handler.go; DESIGN.md Appendix A.4.              *)
(*                                                                            *)
(* Metric side (record M): provider.mtx (pmtx), meter.mtx (mmtx[m]),           *)
(* registration.unregMu (umu[g]), delegateMeterOnce (once).  Processes:        *)
(*   MInst       SetMeterProvider callers                                     *)
(*   Creators    Meter -> sync instrument -> RecsPer x Add (PreC: the meter   *)
(*               and instrument were obtained before anything else ran)       *)
(*   Registrars  Meter -> observable instrument -> RegisterCallback           *)
(*               [-> Unregister if in UnregG] (PreG: registered beforehand)   *)
(* Trace side (record T): tracerProvider.mtx; TInst, TUsers (Tracer, Start).   *)
(* Simple delegators (record X): propagator / error handler, kinds XKinds.     *)
(* Monitor variables (mon) observe API-level facts only.                       *)
(* Named deviation D1 (known_findings/C16.json): lock-order inversion          *)
(*   Unregister: unregMu -> meter.mtx   vs  meter.setDelegate: meter.mtx ->    *)
(*   unregMu.  Patched = TRUE models proposed_fixes/C16-*.diff (Unregister     *)
(*   swaps the unreg func out under unregMu and calls it after unlocking).     *)
EXTENDS Naturals, Sequences, FiniteSets, TLC

CONSTANTS MInst, Creators, PreC, RecsPer, Registrars, PreG, UnregG, MeterOf,
          TInst, TUsers, PreT, TracerOf, SpansPer, XKinds, UsesPer,
          Patched, AllowKnown

VARIABLES M, T, X, pc, cnt, mon
vars == <<M, T, X, pc, cnt, mon>>

XI == {"xi." \o k : k \in XKinds}
XU == {"xu." \o k : k \in XKinds}
KindOf(x) == CHOOSE k \in XKinds : x = "xi." \o k \/ x = "xu." \o k
Owners == Creators \cup Registrars
Procs == MInst \cup Owners \cup TInst \cup TUsers \cup XI \cup XU
Meters == {MeterOf[x] : x \in Owners}
Tracers == {TracerOf[u] : u \in TUsers}
Kinds == {"mp", "tp"} \cup XKinds

RECURSIVE SeqOf(_)
SeqOf(S) == IF S = {} THEN <<>> ELSE LET x == CHOOSE y \in S : TRUE IN <<x>> \o SeqOf(S \ {x})
Without(s, g) == SelectSeq(s, LAMBDA y : y # g)

Init ==
  /\ M = [gmp |-> "global", once |-> "free", pmtx |-> "none", pdel |-> FALSE,
          meters |-> {MeterOf[x] : x \in PreC \cup PreG},
          mmtx |-> [m \in Meters |-> "none"], mdel |-> [m \in Meters |-> FALSE],
          minst |-> [m \in Meters |-> {x \in PreC \cup PreG : MeterOf[x] = m}],
          idel |-> [x \in Owners |-> FALSE],
          registry |-> [m \in Meters |-> SeqOf({g \in PreG : MeterOf[g] = m})],
          unreg |-> [g \in Registrars |-> IF g \in PreG THEN "pre" ELSE "none"],
          umu |-> [g \in Registrars |-> "none"], utmp |-> [g \in Registrars |-> "none"],
          todo |-> {}, cur |-> "none",
          handle |-> [x \in Owners |-> IF x \in PreC \cup PreG THEN "global" ELSE "none"],
          ikind |-> [x \in Owners |-> IF x \in PreC \cup PreG THEN "global" ELSE "none"],
          rkind |-> [g \in Registrars |-> IF g \in PreG THEN "global" ELSE "none"]]
  /\ T = [gtp |-> "global", once |-> "free", mtx |-> "none", pdel |-> FALSE,
          tracers |-> {TracerOf[u] : u \in PreT}, tdel |-> [t \in Tracers |-> FALSE], todo |-> {},
          handle |-> [u \in TUsers |-> IF u \in PreT THEN "global" ELSE "none"]]
  /\ X = [g |-> [k \in XKinds |-> "global"], del |-> [k \in XKinds |-> FALSE]]
  /\ pc = [p \in Procs |->
             IF p \in PreC THEN "rec"
             ELSE IF p \in PreG THEN (IF p \in UnregG THEN "registered" ELSE "done")
             ELSE IF p \in PreT THEN "start"
             ELSE IF p \in XU THEN "use" ELSE "idle"]
  /\ cnt = [p \in Procs |-> 0]
  /\ mon = [setRet |-> [k \in Kinds |-> FALSE], after |-> [p \in Procs |-> FALSE],
            sdkReg |-> [g \in Registrars |-> 0], sdkAct |-> [g \in Registrars |-> 0],
            regRet |-> PreG, unregCalled |-> {}, unregRet |-> {}, bad |-> {}]

Go(p, l) == pc' = [pc EXCEPT ![p] = l]
SdkRegister(mn, g) ==
  [mn EXCEPT !.sdkReg[g] = @ + 1, !.sdkAct[g] = @ + 1,
             !.bad = @ \cup (IF mn.sdkReg[g] >= 1 THEN {"registered-twice"} ELSE {})
                       \cup (IF g \in mn.unregRet THEN {"registered-after-unregister"} ELSE {})]
SdkUnregister(mn, g) == [mn EXCEPT !.sdkAct[g] = IF @ > 0 THEN @ - 1 ELSE 0]
Lost(mn, p, reached, what) ==
  [mn EXCEPT !.bad = @ \cup (IF mn.after[p] /\ ~reached THEN {what} ELSE {})]

(* ------------------------------------------------ SetMeterProvider (state.go:155, meter.go:37,126,596) *)
Pending == IF M.cur = "none" THEN {} ELSE {x \in M.minst[M.cur] : ~M.idel[x]}
ICall(i) == pc[i] = "idle" /\ Go(i, "once") /\ UNCHANGED <<M, T, X, cnt, mon>>
IOnce(i) == /\ pc[i] = "once"
            /\ IF M.once = "free" THEN (M' = [M EXCEPT !.once = "running"] /\ Go(i, "plock"))
                                  ELSE (UNCHANGED M /\ Go(i, "oncewait"))
            /\ UNCHANGED <<T, X, cnt, mon>>
IOnceWait(i) == pc[i] = "oncewait" /\ M.once = "done" /\ Go(i, "store") /\ UNCHANGED <<M, T, X, cnt, mon>>
IProvLock(i) == /\ pc[i] = "plock" /\ M.pmtx = "none"
                /\ M' = [M EXCEPT !.pmtx = i, !.pdel = TRUE, !.todo = M.meters]
                /\ Go(i, IF M.meters = {} THEN "punlock" ELSE "mlock")
                /\ UNCHANGED <<T, X, cnt, mon>>
IMeterLock(i, m) == /\ pc[i] = "mlock" /\ m \in M.todo /\ M.mmtx[m] = "none"
                    /\ M' = [M EXCEPT !.mmtx[m] = i, !.cur = m] /\ Go(i, "mdeleg")
                    /\ UNCHANGED <<T, X, cnt, mon>>
IDelegateMeter(i) == /\ pc[i] = "mdeleg" /\ M' = [M EXCEPT !.mdel[M.cur] = TRUE] /\ Go(i, "walk")
                     /\ UNCHANGED <<T, X, cnt, mon>>
IInst(i, x) == /\ pc[i] = "walk" /\ x \in Pending /\ M' = [M EXCEPT !.idel[x] = TRUE]
               /\ UNCHANGED <<T, X, pc, cnt, mon>>
IRegLock(i) == /\ pc[i] = "walk" /\ Pending = {} /\ M.registry[M.cur] # <<>>
               /\ LET g == Head(M.registry[M.cur]) IN
                  /\ M.umu[g] = "none" /\ M' = [M EXCEPT !.umu[g] = i]
               /\ Go(i, "reg") /\ UNCHANGED <<T, X, cnt, mon>>
IReg(i) == /\ pc[i] = "reg"
           /\ LET g == Head(M.registry[M.cur]) IN
              IF M.unreg[g] = "nil"      \* Unregister already called: skip
                THEN /\ M' = [M EXCEPT !.umu[g] = "none", !.registry[M.cur] = Tail(@)]
                     /\ UNCHANGED mon
                ELSE /\ M' = [M EXCEPT !.umu[g] = "none", !.registry[M.cur] = Tail(@), !.unreg[g] = "sdk"]
                     /\ mon' = SdkRegister(mon, g)
           /\ Go(i, "walk") /\ UNCHANGED <<T, X, cnt>>
IMeterUnlock(i) == /\ pc[i] = "walk" /\ Pending = {} /\ M.registry[M.cur] = <<>>
                   /\ M' = [M EXCEPT !.mmtx[M.cur] = "none", !.minst[M.cur] = {}, !.todo = @ \ {M.cur}, !.cur = "none"]
                   /\ Go(i, IF M.todo \ {M.cur} = {} THEN "punlock" ELSE "mlock")
                   /\ UNCHANGED <<T, X, cnt, mon>>
IProvUnlock(i) == /\ pc[i] = "punlock" /\ M' = [M EXCEPT !.pmtx = "none", !.meters = {}, !.once = "done"]
                  /\ Go(i, "store") /\ UNCHANGED <<T, X, cnt, mon>>
IStore(i) == pc[i] = "store" /\ M' = [M EXCEPT !.gmp = "sdk"] /\ Go(i, "ret") /\ UNCHANGED <<T, X, cnt, mon>>
IRet(i) == /\ pc[i] = "ret" /\ Go(i, "done") /\ mon' = [mon EXCEPT !.setRet["mp"] = TRUE]
           /\ UNCHANGED <<M, T, X, cnt>>

(* ------------------------------------------------ creators and registrars: Meter, instrument (meter.go:55,149-496) *)
OGet(c) == /\ pc[c] = "idle"
           /\ IF M.gmp = "sdk" THEN (M' = [M EXCEPT !.handle[c] = "sdk"] /\ Go(c, "inst"))
                               ELSE (UNCHANGED M /\ Go(c, "pm"))
           /\ UNCHANGED <<T, X, cnt, mon>>
OMeter(c) == /\ pc[c] = "pm" /\ M.pmtx = "none"
             /\ M' = IF M.pdel THEN [M EXCEPT !.handle[c] = "sdk"]
                               ELSE [M EXCEPT !.handle[c] = "global", !.meters = @ \cup {MeterOf[c]}]
             /\ Go(c, "inst") /\ UNCHANGED <<T, X, cnt, mon>>
OInst(c) == /\ pc[c] = "inst"
            /\ LET m == MeterOf[c] IN
               IF M.handle[c] = "sdk" THEN M' = [M EXCEPT !.ikind[c] = "sdk"]
               ELSE /\ M.mmtx[m] = "none"
                    /\ M' = IF M.mdel[m] THEN [M EXCEPT !.ikind[c] = "sdk"]
                                         ELSE [M EXCEPT !.ikind[c] = "global", !.minst[m] = @ \cup {c}]
            /\ Go(c, IF c \in Creators THEN "rec" ELSE "register") /\ UNCHANGED <<T, X, cnt, mon>>
(* Add / Record: delegate.Load() then forward or drop (instruments.go:330) *)
RCall(c) == /\ c \in Creators /\ pc[c] = "rec" /\ Go(c, "load")
            /\ mon' = [mon EXCEPT !.after[c] = mon.setRet["mp"]] /\ UNCHANGED <<M, T, X, cnt>>
RLoad(c) == /\ c \in Creators /\ pc[c] = "load"
            /\ mon' = Lost(mon, c, M.ikind[c] = "sdk" \/ M.idel[c], "lost-after-set")
            /\ cnt' = [cnt EXCEPT ![c] = @ + 1]
            /\ Go(c, IF cnt[c] + 1 >= RecsPer THEN "done" ELSE "rec") /\ UNCHANGED <<M, T, X>>

(* ------------------------------------------------ RegisterCallback / Unregister (meter.go:499,614) *)
GRegister(g) ==
  /\ g \in Registrars /\ pc[g] = "register"
  /\ LET m == MeterOf[g]
         fwd == [M EXCEPT !.rkind[g] = "sdk", !.unreg[g] = "sdk"] IN
     IF M.handle[g] = "sdk" THEN (M' = fwd /\ mon' = [SdkRegister(mon, g) EXCEPT !.regRet = @ \cup {g}])
     ELSE /\ M.mmtx[m] = "none"
          /\ IF M.mdel[m] THEN (M' = fwd /\ mon' = [SdkRegister(mon, g) EXCEPT !.regRet = @ \cup {g}])
             ELSE /\ M' = [M EXCEPT !.rkind[g] = "global", !.unreg[g] = "pre", !.registry[m] = Append(@, g)]
                  /\ mon' = [mon EXCEPT !.regRet = @ \cup {g}]
  /\ Go(g, IF g \in UnregG THEN "registered" ELSE "done") /\ UNCHANGED <<T, X, cnt>>
GUnregCall(g) == /\ g \in Registrars /\ pc[g] = "registered" /\ Go(g, "ulock")
                 /\ mon' = [mon EXCEPT !.unregCalled = @ \cup {g}] /\ UNCHANGED <<M, T, X, cnt>>
GUnregLock(g) ==
  /\ g \in Registrars /\ pc[g] = "ulock"
  /\ IF M.rkind[g] = "sdk"      \* the SDK's own registration was handed out: no global lock involved
       THEN /\ M' = [M EXCEPT !.unreg[g] = "nil"] /\ mon' = SdkUnregister(mon, g) /\ Go(g, "uret")
       ELSE /\ M.umu[g] = "none" /\ UNCHANGED mon
            /\ IF M.unreg[g] = "nil" THEN (UNCHANGED M /\ Go(g, "uret"))
               ELSE IF Patched
                 THEN (M' = [M EXCEPT !.utmp[g] = M.unreg[g], !.unreg[g] = "nil"] /\ Go(g, "ucall"))
                 ELSE (M' = [M EXCEPT !.utmp[g] = M.unreg[g], !.umu[g] = g] /\ Go(g, "ucall"))
  /\ UNCHANGED <<T, X, cnt>>
GUnreg(g) ==
  /\ g \in Registrars /\ pc[g] = "ucall"
  /\ LET m == MeterOf[g]
         rel(S) == IF Patched THEN S ELSE [S EXCEPT !.unreg[g] = "nil", !.umu[g] = "none"] IN
     IF M.utmp[g] = "pre"     \* the closure of RegisterCallback: m.mtx.Lock(); registry.Remove(e)
       THEN /\ M.mmtx[m] = "none"
            /\ M' = rel([M EXCEPT !.registry[m] = Without(@, g)]) /\ UNCHANGED mon
       ELSE /\ M' = rel(M) /\ mon' = SdkUnregister(mon, g)
  /\ Go(g, "uret") /\ UNCHANGED <<T, X, cnt>>
GURet(g) == /\ g \in Registrars /\ pc[g] = "uret" /\ Go(g, "done")
            /\ mon' = [mon EXCEPT !.unregRet = @ \cup {g},
                                  !.bad = @ \cup (IF mon.sdkAct[g] > 0 THEN {"active-after-unregister"} ELSE {})]
            /\ UNCHANGED <<M, T, X, cnt>>

(* ------------------------------------------------ tracers (state.go:94, trace.go:58,76,131) *)
TICall(i) == pc[i] = "idle" /\ Go(i, "once") /\ UNCHANGED <<M, T, X, cnt, mon>>
TIOnce(i) == /\ pc[i] = "once"
             /\ IF T.once = "free" THEN (T' = [T EXCEPT !.once = "running"] /\ Go(i, "plock"))
                                   ELSE (UNCHANGED T /\ Go(i, "oncewait"))
             /\ UNCHANGED <<M, X, cnt, mon>>
TIOnceWait(i) == pc[i] = "oncewait" /\ T.once = "done" /\ Go(i, "store") /\ UNCHANGED <<M, T, X, cnt, mon>>
TIProvLock(i) == /\ pc[i] = "plock" /\ T.mtx = "none"
                 /\ T' = [T EXCEPT !.mtx = i, !.pdel = TRUE, !.todo = T.tracers] /\ Go(i, "walk")
                 /\ UNCHANGED <<M, X, cnt, mon>>
TITracer(i, t) == /\ pc[i] = "walk" /\ t \in T.todo
                  /\ T' = [T EXCEPT !.tdel[t] = TRUE, !.todo = @ \ {t}] /\ UNCHANGED <<M, X, pc, cnt, mon>>
TIProvUnlock(i) == /\ pc[i] = "walk" /\ T.todo = {}
                   /\ T' = [T EXCEPT !.mtx = "none", !.tracers = {}, !.once = "done"] /\ Go(i, "store")
                   /\ UNCHANGED <<M, X, cnt, mon>>
TIStore(i) == pc[i] = "store" /\ T' = [T EXCEPT !.gtp = "sdk"] /\ Go(i, "ret") /\ UNCHANGED <<M, X, cnt, mon>>
TIRet(i) == /\ pc[i] = "ret" /\ Go(i, "done") /\ mon' = [mon EXCEPT !.setRet["tp"] = TRUE]
            /\ UNCHANGED <<M, T, X, cnt>>
UGet(u) == /\ pc[u] = "idle"
           /\ IF T.gtp = "sdk" THEN (T' = [T EXCEPT !.handle[u] = "sdk"] /\ Go(u, "start"))
                               ELSE (UNCHANGED T /\ Go(u, "pt"))
           /\ UNCHANGED <<M, X, cnt, mon>>
UTracer(u) == /\ pc[u] = "pt" /\ T.mtx = "none"
              /\ T' = IF T.pdel THEN [T EXCEPT !.handle[u] = "sdk"]
                                ELSE [T EXCEPT !.handle[u] = "global", !.tracers = @ \cup {TracerOf[u]}]
              /\ Go(u, "start") /\ UNCHANGED <<M, X, cnt, mon>>
UCall(u) == /\ pc[u] = "start" /\ Go(u, "load")
            /\ mon' = [mon EXCEPT !.after[u] = mon.setRet["tp"]] /\ UNCHANGED <<M, T, X, cnt>>
ULoad(u) == /\ pc[u] = "load"
            /\ mon' = Lost(mon, u, T.handle[u] = "sdk" \/ T.tdel[TracerOf[u]], "span-lost-after-set")
            /\ cnt' = [cnt EXCEPT ![u] = @ + 1]
            /\ Go(u, IF cnt[u] + 1 >= SpansPer THEN "done" ELSE "start") /\ UNCHANGED <<M, T, X>>

(* ------------------------------------------------ propagator / error handler (propagator.go, handler.go) *)
XCall(i) == pc[i] = "idle" /\ Go(i, "set") /\ UNCHANGED <<M, T, X, cnt, mon>>
XSet(i) == /\ pc[i] = "set" /\ X' = [X EXCEPT !.del[KindOf(i)] = TRUE] /\ Go(i, "store")
           /\ UNCHANGED <<M, T, cnt, mon>>
XStore(i) == /\ pc[i] = "store" /\ X' = [X EXCEPT !.g[KindOf(i)] = "sdk"] /\ Go(i, "ret")
             /\ UNCHANGED <<M, T, cnt, mon>>
XRet(i) == /\ pc[i] = "ret" /\ Go(i, "done") /\ mon' = [mon EXCEPT !.setRet[KindOf(i)] = TRUE]
           /\ UNCHANGED <<M, T, X, cnt>>
XUCall(u) == /\ pc[u] = "use" /\ Go(u, "load")
             /\ mon' = [mon EXCEPT !.after[u] = mon.setRet[KindOf(u)]] /\ UNCHANGED <<M, T, X, cnt>>
XULoad(u) == /\ pc[u] = "load"
             /\ mon' = Lost(mon, u, X.del[KindOf(u)], "use-lost-after-set")
             /\ cnt' = [cnt EXCEPT ![u] = @ + 1]
             /\ Go(u, IF cnt[u] + 1 >= UsesPer THEN "done" ELSE "use") /\ UNCHANGED <<M, T, X>>

PNext(p) ==
  \/ p \in MInst /\ (ICall(p) \/ IOnce(p) \/ IOnceWait(p) \/ IProvLock(p) \/ (\E m \in Meters : IMeterLock(p, m))
                     \/ IDelegateMeter(p) \/ (\E x \in Owners : IInst(p, x)) \/ IRegLock(p) \/ IReg(p)
                     \/ IMeterUnlock(p) \/ IProvUnlock(p) \/ IStore(p) \/ IRet(p))
  \/ p \in Owners /\ (OGet(p) \/ OMeter(p) \/ OInst(p) \/ RCall(p) \/ RLoad(p)
                      \/ GRegister(p) \/ GUnregCall(p) \/ GUnregLock(p) \/ GUnreg(p) \/ GURet(p))
  \/ p \in TInst /\ (TICall(p) \/ TIOnce(p) \/ TIOnceWait(p) \/ TIProvLock(p) \/ (\E t \in Tracers : TITracer(p, t))
                     \/ TIProvUnlock(p) \/ TIStore(p) \/ TIRet(p))
  \/ p \in TUsers /\ (UGet(p) \/ UTracer(p) \/ UCall(p) \/ ULoad(p))
  \/ p \in XI /\ (XCall(p) \/ XSet(p) \/ XStore(p) \/ XRet(p))
  \/ p \in XU /\ (XUCall(p) \/ XULoad(p))
Next ==
  \/ \E i \in MInst : \/ ICall(i) \/ IOnce(i) \/ IOnceWait(i) \/ IProvLock(i) \/ (\E m \in Meters : IMeterLock(i, m))
                       \/ IDelegateMeter(i) \/ (\E x \in Owners : IInst(i, x)) \/ IRegLock(i) \/ IReg(i)
                       \/ IMeterUnlock(i) \/ IProvUnlock(i) \/ IStore(i) \/ IRet(i)
  \/ \E c \in Owners : \/ OGet(c) \/ OMeter(c) \/ OInst(c) \/ RCall(c) \/ RLoad(c)
                        \/ GRegister(c) \/ GUnregCall(c) \/ GUnregLock(c) \/ GUnreg(c) \/ GURet(c)
  \/ \E i \in TInst : \/ TICall(i) \/ TIOnce(i) \/ TIOnceWait(i) \/ TIProvLock(i) \/ (\E t \in Tracers : TITracer(i, t))
                       \/ TIProvUnlock(i) \/ TIStore(i) \/ TIRet(i)
  \/ \E u \in TUsers : UGet(u) \/ UTracer(u) \/ UCall(u) \/ ULoad(u)
  \/ \E i \in XI : XCall(i) \/ XSet(i) \/ XStore(i) \/ XRet(i)
  \/ \E u \in XU : XUCall(u) \/ XULoad(u)
Spec == Init /\ [][Next]_vars
FairSpec == Spec /\ \A p \in Procs : WF_vars(PNext(p))

(* ------------------------------------------------ properties *)
Contract == mon.bad = {}
RegisteredAtMostOnce == \A g \in Registrars : mon.sdkReg[g] <= 1
(* each callback whose RegisterCallback returned and that nobody unregisters is registered with the SDK once
   installation has returned *)
CallbackConnected == mon.setRet["mp"] =>
  \A g \in mon.regRet \ mon.unregCalled : mon.sdkReg[g] = 1 /\ mon.sdkAct[g] = 1
(* no instrument / tracer handed out by the global API is left without delegate once installation returned *)
InstConnected == mon.setRet["mp"] => \A x \in Owners : M.ikind[x] = "global" => M.idel[x]
TracerConnected == mon.setRet["tp"] => \A u \in TUsers : T.handle[u] = "global" => T.tdel[TracerOf[u]]
LockSanity == /\ M.pmtx \in MInst \cup {"none"}
              /\ \A m \in Meters : M.mmtx[m] # "none" => (M.pmtx = M.mmtx[m])
AllDone == \A p \in Procs : pc[p] = "done"
(* D1: the installer holds meter.mtx and waits for unregMu of the head registration; its Unregister holds
   unregMu and waits for meter.mtx inside the pre-delegation unreg closure *)
KnownDeadlock ==
  /\ ~Patched
  /\ \E i \in MInst, g \in Registrars :
       /\ pc[i] = "walk" /\ M.cur = MeterOf[g] /\ M.mmtx[M.cur] = i /\ Pending = {}
       /\ M.registry[M.cur] # <<>> /\ Head(M.registry[M.cur]) = g
       /\ M.umu[g] = g /\ pc[g] = "ucall" /\ M.utmp[g] = "pre"
Stuck == (~ENABLED Next) => (AllDone \/ (AllowKnown /\ KnownDeadlock))
Termination == <>AllDone
=============================================================================
