SPECIFICATION Spec
CONSTANTS
  ObsIds <- MCObsIds
  SyncIds <- MCSyncIds
  Shapes <- MCShapes
  MaxRegs = @MAXREGS@
  MaxAdds = @MAXADDS@
  MaxSteps = @MAXSTEPS@
  Wrap = @WRAP@
  UnwrapList = @UNWRAPLIST@
  UnregPost = @UNREGPOST@
VIEW View
ACTION_CONSTRAINT EmitEdge
INVARIANTS Forwarding ExpIsContract
CHECK_DEADLOCK FALSE
