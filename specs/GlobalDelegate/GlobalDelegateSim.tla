------------------------- MODULE GlobalDelegateSim -------------------------
(* spec -> code: TLC -simulate over GlobalDelegate with a history of GATE       *)
(* PASSAGES.  No hooks exist in internal/global; the gates are                  *)
(*   - harness gates in front of every API call        "<proc>@<call>"          *)
(*   - the installed delegate (a wrapper around the real SDK), whose Meter,     *)
(*     instrument constructors, RegisterCallback, Unregister, Tracer are called *)
(*     by internal/global WHILE IT HOLDS ITS LOCKS      "<proc>@sdk.<Method>:<name>" *)
(* A goroutine released from a gate runs every ungated step up to its next      *)
(* gate (or blocks on a lock), so the key of a harness gate is appended at the  *)
(* first lock / linearization step behind it (IProvLock, OMeter, RLoad,         *)
(* GUnregLock ...), not at the bare call step.  The harness scheduler           *)
(* lets goroutines pass their gates in exactly this order and, before letting   *)
(* the next one pass, waits until the previous one reached its next gate,       *)
(* returned, or stayed blocked (on a lock the model says is held).  Lock        *)
(* acquisitions themselves are not gated: between two gates the goroutine runs  *)
(* freely, so a behaviour is replayed up to the order of gate passages.         *)
EXTENDS GlobalDelegate, Json

VARIABLES hist, fin
svars == <<vars, hist, fin>>
Say(keys) == hist' = hist \o keys /\ UNCHANGED fin
K(p, point) == p \o "@" \o point
N(p) == ToString(cnt[p] + 1)

SK(i) == K(i, "set:" \o N(i))       \* the harness gate in front of the k-th Set call of installer i
SimNext ==
  \/ \E i \in Insts :
       \/ SBegin(i) /\ Say(<<>>)
       \/ SCall(i) /\ Say(IF Glob(i) = "global" /\ S.val[i] = "global" THEN <<SK(i)>> ELSE <<>>)   \* no-op self-set
       \/ SRet(i) /\ Say(<<>>)
  \/ \E i \in MInst :
       \/ IOnce(i) /\ Say(IF M.once = "free" /\ S.cur[i] = "global" THEN <<>> ELSE <<SK(i)>>)   \* not the winner of the once
       \/ IProvLock(i) /\ Say(<<SK(i)>>)
       \/ (IOnceWait(i) \/ (\E m \in Meters : IMeterLock(i, m)) \/ IRegLock(i)
           \/ IMeterUnlock(i) \/ IProvUnlock(i) \/ IStore(i)) /\ Say(<<>>)
       \/ IDelegateMeter(i) /\ Say(<<K(i, "sdk.Meter:" \o M.cur)>>)
       \/ \E x \in Owners : IInst(i, x) /\ Say(<<K(i, "sdk.Inst:" \o x)>>)
       \/ IReg(i) /\ Say(LET g == Head(M.registry[M.cur]) IN
                         IF M.unreg[g] = "nil" THEN <<>>
                         ELSE <<K(i, "sdk.Register:" \o (IF g \in RefuseInst THEN "?" ELSE g))>>)
  \/ \E c \in Owners :
       \/ OGet(c) /\ Say(IF M.gmp # "global" /\ c \notin Kept THEN <<K(c, "meter"), K(c, "sdk.Meter:" \o MeterOf[c])>> ELSE <<>>)
       \/ OMeter(c) /\ Say(<<K(c, "meter")>> \o (IF M.pdel # "none" THEN <<K(c, "sdk.Meter:" \o MeterOf[c])>> ELSE <<>>))
       \/ OInst(c) /\ Say(<<K(c, "inst")>> \o (IF c \in SdkObs THEN <<K(c, "sdk.Meter:" \o MeterOf[c]), K(c, "sdk.Inst:" \o c)>>
                                                ELSE IF M.handle[c] # "global" \/ M.mdel[MeterOf[c]] # "none"
                                                THEN <<K(c, "sdk.Inst:" \o c)>> ELSE <<>>))
       \/ (OMeterCompute(c) \/ OMeterInsert(c)) /\ Say(<<>>)
       \/ RCall(c) /\ Say(<<>>)
       \/ RLoad(c) /\ Say(<<K(c, "rec:" \o N(c))>>)
       \/ GRegister(c) /\ Say(<<K(c, "register")>> \o (IF M.handle[c] # "global" \/ M.mdel[MeterOf[c]] # "none"
                                                        THEN <<K(c, "sdk.Register:" \o c)>> ELSE <<>>))
       \/ GUnregCall(c) /\ Say(<<>>)
       \/ GUnregLock(c) /\ Say(<<K(c, "unreg")>> \o (IF M.rkind[c] = "sdk" THEN <<K(c, "sdk.Unregister:" \o c)>> ELSE <<>>))
       \/ GUnreg(c) /\ Say(IF M.utmp[c] = "sdk" THEN <<K(c, "sdk.Unregister:" \o c)>> ELSE <<>>)
       \/ GURet(c) /\ Say(<<>>)
  \/ \E i \in TInst :
       \/ TIOnce(i) /\ Say(IF T.once = "free" /\ S.cur[i] = "global" THEN <<>> ELSE <<SK(i)>>)
       \/ TIProvLock(i) /\ Say(<<SK(i)>>)
       \/ (TIOnceWait(i) \/ TIProvUnlock(i) \/ TIStore(i)) /\ Say(<<>>)
       \/ \E t \in Tracers : TITracer(i, t) /\ Say(<<K(i, "sdk.Tracer:" \o t)>>)
  \/ \E u \in TUsers :
       \/ UGet(u) /\ Say(IF T.gtp # "global" /\ u \notin Kept THEN <<K(u, "tracer"), K(u, "sdk.Tracer:" \o TracerOf[u])>> ELSE <<>>)
       \/ UTracer(u) /\ Say(<<K(u, "tracer")>> \o (IF T.pdel # "none" THEN <<K(u, "sdk.Tracer:" \o TracerOf[u])>> ELSE <<>>))
       \/ (UTracerCompute(u) \/ UTracerInsert(u)) /\ Say(<<>>)
       \/ UCall(u) /\ Say(<<>>)
       \/ ULoad(u) /\ Say(<<K(u, "start:" \o N(u))>>)
  \/ \E v \in Invokers : \/ VBegin(v) /\ Say(<<K(v, "invoke:1")>>)
                         \/ VObserve(v) /\ Say(<<K(v, "obs:" \o N(v))>>)
                         \/ VSkip(v) /\ Say(<<>>)
  \/ \E i \in XI : \/ XOnce(i) /\ Say(<<SK(i)>>)
                   \/ XStore(i) /\ Say(<<>>)
  \/ \E u \in XU : \/ XULoad(u) /\ Say(<<K(u, "use:" \o N(u))>>)
                   \/ XUCall(u) /\ Say(<<>>)

Finish == /\ ~fin /\ ~ENABLED Next
          /\ PrintT("BEHAVIOUR " \o ToJson([script |-> hist, alldone |-> AllDone,
                                            stuck |-> {p \in Procs : pc[p] # "done"}, bad |-> mon.bad]))
          /\ fin' = TRUE /\ UNCHANGED <<vars, hist>>
SimInit == Init /\ hist = <<>> /\ fin = FALSE
SimSpec == SimInit /\ [][(~fin /\ SimNext) \/ Finish]_svars
=============================================================================
