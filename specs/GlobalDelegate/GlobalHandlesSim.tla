------------------------- MODULE GlobalHandlesSim -------------------------
(* spec -> code, long histories: TLC -simulate over GlobalHandles with larger constants.  A walk keeps its      *)
(* actions and the contract's expectation after each of them; it is printed once, when it is complete           *)
(* (BEHAVIOUR json) -- the harness replays every prefix and compares with the expectation TLC computed.         *)
EXTENDS GlobalHandles
VARIABLES hist, exps, fin
svars == <<vars, hist, exps, fin>>
SimInit == Init /\ hist = <<>> /\ exps = <<>> /\ fin = FALSE
Walk == /\ ~fin /\ Next
        /\ hist' = Append(hist, act') /\ exps' = Append(exps, st'.exp) /\ UNCHANGED fin
Finish == /\ ~fin /\ (steps >= MaxSteps \/ Acts(st) = {})
          /\ PrintT("BEHAVIOUR " \o ToJson([acts |-> hist, exps |-> exps]))
          /\ fin' = TRUE /\ UNCHANGED <<vars, hist, exps>>
SimSpec == SimInit /\ [][Walk \/ Finish]_svars
=============================================================================
