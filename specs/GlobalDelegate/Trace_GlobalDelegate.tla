-------------------------- MODULE Trace_GlobalDelegate --------------------------
(* code -> spec: every recorded line is one step of the contract monitor; a Cfg line starts a new
   scenario (= a fresh subprocess of the harness, sc = its index). *)
EXTENDS GlobalDelegateContract, TraceKit, Integers
VARIABLES l, m, cur
vars == <<l, m, cur>>
Init == l = 1 /\ m = Fresh /\ cur = -1
TStep == /\ l <= Len(Trace)
         /\ LET e == Trace[l] IN
            IF e.ev = "Cfg" THEN m' = Fresh /\ cur' = e.sc
            ELSE IF e.sc # cur THEN UNCHANGED <<m, cur>>
            ELSE LET r == Step(m, e) IN
                 /\ m' = r[1] /\ UNCHANGED cur
                 /\ \A v \in r[2] : Viol([line |-> l, sc |-> e.sc, v |-> v])
         /\ l' = l + 1
TDone == l = Len(Trace) + 1 /\ Accepted(l) /\ UNCHANGED vars
Next == TStep \/ TDone
Spec == Init /\ [][Next]_vars
=============================================================================
