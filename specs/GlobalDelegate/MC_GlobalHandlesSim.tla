------------------------ MODULE MC_GlobalHandlesSim ------------------------
EXTENDS GlobalHandlesSim
MCObsIds == @OBSIDS@
MCSyncIds == @SYNCIDS@
AllShapes(ids) == LET hs == ids \X {"ph", "nat"} IN
  {[list |-> l, body |-> b] : l \in SUBSET hs \ {{}}, b \in SUBSET hs \ {{}}}
MCShapes == @SHAPES@
=============================================================================
