------------------------- MODULE MC_GlobalHandles -------------------------
EXTENDS GlobalHandles
MCObsIds == @OBSIDS@
MCSyncIds == @SYNCIDS@
(* every non-empty list / body over the handles of the given ids, body ids within the list ids *)
AllShapes(ids) == LET hs == ids \X {"ph", "nat"} IN
  {[list |-> l, body |-> b] : l \in SUBSET hs \ {{}}, b \in SUBSET hs \ {{}}}
MCShapes == @SHAPES@
=============================================================================
