--------------------------- MODULE GlobalHandles ---------------------------
(* C16, behaviour class MIXED HANDLES: one instrumentation scope seen through the global API over a        *)
(* HISTORY  pre-install ... SetMeterProvider ... post-install.                                              *)
(*                                                                                                          *)
(* Handle classes (defined by WHEN a handle was obtained, never by its Go type):                            *)
(*   meter      "old" = Meter(scope) called on the default provider BEFORE the installation (placeholder)   *)
(*              "new" = Meter(scope) called AFTER it (fresh Get, or the kept default provider: the SDK's)   *)
(*   instrument "ph"  = handle obtained before the installation (through the old meter)                     *)
(*              "nat" = handle of the SAME identity (name, kind, unit, description, scope) obtained after   *)
(*                      it, through the old or a new meter.  Documented: identical identity = the same      *)
(*                      instrument, so both handles denote one SDK instrument.                              *)
(* A callback registration = [meter, era, list (handles passed to RegisterCallback), body (handles the       *)
(* callback observes through)].  Statement: "instruments and callback registrations obtained from the       *)
(* global API before an SDK is installed start forwarding as soon as installation returns: every ...        *)
(* measurement made afterwards reaches the SDK" -- an observation made through ANY handle of an instrument  *)
(* inside a callback that lists the instrument (through any handle) is such a measurement; so is Add through *)
(* either handle of a synchronous instrument.  `exp` is what a collection of the SDK must show (contract);  *)
(* `Reach` is what the implementation shape delivers (wrap = the placeholder-translating Observer).         *)
(* Outside the statement (not modelled, see docs/notes/C16.md): a registration made on a NEW meter (an SDK   *)
(* object, internal/global is not involved in it) that lists or observes a placeholder handle.              *)
EXTENDS Naturals, Sequences, FiniteSets, TLC, Json

CONSTANTS ObsIds, SyncIds,   \* instrument identities of the scope (observable / synchronous)
          Shapes,            \* admissible [list, body] pairs: sets of <<id, class>>
          MaxRegs, MaxAdds, MaxSteps,
          Wrap,              \* shape switch: "always" (the code: every callback that goes through a global meter
                             \* gets the translating Observer) | "if-ph-listed" (deviation: only when the
                             \* instrument list holds a placeholder) | "handover-only" (deviation: only
                             \* registrations handed over by the installation)
          UnwrapList,        \* shape switch: TRUE (the code: placeholders of the list are translated when the
                             \* old meter forwards RegisterCallback) | FALSE (deviation: passed as they are)
          UnregPost          \* shape switch: "sdk" (the code: Unregister of a post-install registration is the
                             \* SDK's) | "noop" (deviation)

VARIABLES st, steps, act
vars == <<st, steps, act>>

Cls == {"ph", "nat"}
Has(s, h) == IF h[2] = "ph" THEN h[1] \in s.ph ELSE h[1] \in s.nat
IdsOf(hs) == {h[1] : h \in hs}

(* ---- the contract: what a collection of the installed SDK shows now *)
NoSums == [i \in SyncIds |-> 0]
Owed(s) == {r \in 1..Len(s.regs) : ~s.regs[r].unreg}     \* registrations nobody has unregistered
ObsOf(s, R, ok(_, _)) == UNION {{<<r, h[1], h[2]>> : h \in {x \in s.regs[r].body : Has(s, x) /\ ok(r, x)}} : r \in R}
AnyH(r, x) == TRUE
Exp(s) ==
  IF ~s.installed THEN [obs |-> {}, inv |-> {}, sums |-> NoSums, stray |-> {}, regerr |-> {}]
  ELSE [obs |-> ObsOf(s, Owed(s), AnyH),              \* every observation of every owed callback, whatever the handle
        inv |-> {<<r, 1>> : r \in Owed(s)},          \* every owed callback is invoked exactly once per collection
        sums |-> s.adds,                             \* every Add made after the installation, through either handle
        stray |-> {},                                \* no data under an identity nobody asked for
        regerr |-> {}]                               \* RegisterCallback / Unregister report no error

(* ---- the implementation shape: which observations the SDK accepts *)
Wrapped(s, era, list) ==
  CASE Wrap = "always" -> TRUE
    [] Wrap = "if-ph-listed" -> era = "pre" \/ \E h \in list : h[2] = "ph"
    [] OTHER -> era = "pre"
Reach(s) == LET ok(r, x) == x[2] = "nat" \/ s.regs[r].wrapped IN
            ObsOf(s, {r \in 1..Len(s.regs) : s.regs[r].atsdk}, ok)

Fresh == [installed |-> FALSE, ph |-> {}, nat |-> {}, regs |-> <<>>, adds |-> NoSums,
          exp |-> [obs |-> {}, inv |-> {}, sums |-> NoSums, stray |-> {}, regerr |-> {}]]

Enabled(s, a) ==
  CASE a.op = "Create" -> /\ a.id \in ObsIds \cup SyncIds
                          /\ IF s.installed THEN a.id \notin s.nat ELSE (a.id \notin s.ph /\ a.via = "old")
    [] a.op = "Install" -> ~s.installed
    [] a.op = "Register" ->
         /\ Len(s.regs) < MaxRegs /\ [list |-> a.list, body |-> a.body] \in Shapes
         /\ \A h \in a.list : Has(s, h)                       \* only handles that exist can be passed
         /\ IdsOf(a.body) \subseteq IdsOf(a.list)             \* a callback observes only instruments it lists
         /\ (~s.installed => a.meter = "old")
         /\ (a.meter = "new" => \A h \in a.list \cup a.body : h[2] = "nat")     \* see the header: outside the statement
    [] a.op = "Unregister" -> a.r <= Len(s.regs) /\ ~s.regs[a.r].unreg
    [] a.op = "Add" -> /\ s.installed /\ a.id \in SyncIds /\ Has(s, <<a.id, a.cls>>) /\ s.adds[a.id] < MaxAdds
    [] OTHER -> FALSE

WithExp(s) == [s EXCEPT !.exp = Exp(s)]
Apply(s, a) ==
  WithExp(
  CASE a.op = "Create" -> IF s.installed THEN [s EXCEPT !.nat = @ \cup {a.id}] ELSE [s EXCEPT !.ph = @ \cup {a.id}]
    [] a.op = "Install" ->     \* hand-over: every registration made so far is registered with the SDK, translated
         [s EXCEPT !.installed = TRUE,
                   !.regs = [r \in 1..Len(s.regs) |-> [s.regs[r] EXCEPT !.atsdk = ~s.regs[r].unreg]]]
    [] a.op = "Register" ->
         LET era == IF s.installed THEN "post" ELSE "pre"
             foreign == era = "post" /\ a.meter = "old" /\ ~UnwrapList /\ \E h \in a.list : h[2] = "ph" IN
         [s EXCEPT !.regs = Append(@, [meter |-> a.meter, era |-> era, list |-> a.list, body |-> a.body,
                                       failed |-> foreign, atsdk |-> s.installed /\ ~foreign, unreg |-> FALSE,
                                       wrapped |-> a.meter = "old" /\ Wrapped(s, era, a.list)])]
    [] a.op = "Unregister" ->
         IF s.regs[a.r].era = "post" /\ UnregPost = "noop" THEN [s EXCEPT !.regs[a.r].unreg = TRUE]
         ELSE [s EXCEPT !.regs[a.r].unreg = TRUE, !.regs[a.r].atsdk = FALSE]
    [] a.op = "Add" -> [s EXCEPT !.adds[a.id] = @ + 1])

Acts(s) ==
  {a \in [op : {"Create"}, id : ObsIds \cup SyncIds, via : {"old", "new"}] : Enabled(s, a)}
  \cup {a \in {[op |-> "Install"]} : Enabled(s, a)}
  \cup {a \in {[op |-> "Register", meter |-> m, list |-> sh.list, body |-> sh.body] : m \in {"old", "new"}, sh \in Shapes} : Enabled(s, a)}
  \cup {a \in [op : {"Unregister"}, r : 1..MaxRegs] : Enabled(s, a)}
  \cup {a \in [op : {"Add"}, id : SyncIds, cls : Cls] : Enabled(s, a)}

Init == st = Fresh /\ steps = 0 /\ act = [op |-> "Init"]
Next == /\ steps < MaxSteps
        /\ \E a \in Acts(st) : st' = Apply(st, a) /\ act' = a
        /\ steps' = steps + 1
Spec == Init /\ [][Next]_vars

View == <<st, steps>>
EmitEdge == PrintT("EDGE " \o ToJson([from |-> st, act |-> act', to |-> st']))

(* the statement, on the implementation shape: what reaches the SDK is exactly what the contract demands, no
   registration was refused, Unregister took effect *)
Forwarding == st.installed => /\ Reach(st) = st.exp.obs
                              /\ \A r \in 1..Len(st.regs) : ~st.regs[r].failed
ExpIsContract == st.exp = Exp(st)
=============================================================================
