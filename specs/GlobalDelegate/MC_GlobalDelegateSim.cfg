SPECIFICATION SimSpec
CONSTANTS
  MInst <- MCMInst
  Creators <- MCCreators
  PreC <- MCPreC
  Registrars <- MCRegistrars
  PreG <- MCPreG
  UnregG <- MCUnregG
  MeterOf <- MCMeterOf
  TInst <- MCTInst
  TUsers <- MCTUsers
  PreT <- MCPreT
  TracerOf <- MCTracerOf
  XKinds <- MCXKinds
  Script <- MCScript
  Kept <- MCKept
  RefuseReg <- MCRefuseReg
  RefuseInst <- MCRefuseInst
  Invokers <- MCInvokers
  CbOf <- MCCbOf
  IdOf <- MCIdOf
  KeyFields <- MCKeyFields
  SdkObs <- MCSdkObs
  PreMeter <- MCPreMeter
  SkipEmpty = @SKIPEMPTY@
  SharedObs = @SHAREDOBS@
  Shape = @SHAPE@
  RecsPer = @RECSPER@
  SpansPer = @SPANSPER@
  UsesPer = @USESPER@
  Patched = @PATCHED@
  AllowKnown = @ALLOWKNOWN@
CHECK_DEADLOCK FALSE
