----------------------- MODULE GlobalDelegateContract -----------------------
(* The C16 statement as a TOTAL monitor over API-observable events:            *)
(*   Call/Ret of the public API made by the harness (op = Set | Obj | Use |    *)
(*   Register | Unregister | Collect; kind = mp | tp | prop | eh),             *)
(*   what the installed SDK sees (SdkUse = a measurement / span / inject /     *)
(*   handled error arrived; SdkCbRegistered / SdkCbUnregistered / SdkCbInvoked),*)
(*   Timeout (goroutines did not finish; proven = a stop-the-world dump shows   *)
(*   every unfinished goroutine parked in Mutex.Lock), Panic, End.             *)
(* Only sound real-time orderings are used: Call is logged before the call,    *)
(* Ret after the return, Sdk* inside the delegate.  Every event is accepted;   *)
(* broken clauses are returned by Step.                                        *)
EXTENDS Naturals, Sequences, FiniteSets, TLC

Fresh == [setCalled |-> {},      \* kinds for which some Set call has begun
          setRet |-> {},         \* kinds for which some Set call has returned
          must |-> {},           \* use ids whose call began after Set returned
          reached |-> {},        \* use ids seen by the SDK
          class |-> <<>>,        \* object -> "before" | "during" | "after" (when it was handed out)
          got |-> <<>>,          \* instrument -> number of measurements the SDK saw
          regRet |-> {},         \* callbacks whose RegisterCallback returned without error
          unregCalled |-> {},    \* callbacks for which an Unregister call has begun
          unregRet |-> {},       \* callbacks for which an Unregister call has returned
          inflight |-> <<>>,     \* callback -> Unregister calls in flight
          nreg |-> <<>>,         \* callback -> registrations with the SDK (ever)
          active |-> <<>>,       \* callback -> registrations with the SDK minus SDK unregistrations
          invoked |-> <<>>,      \* callback -> invocations during the final collection
          final |-> FALSE]       \* the final collection is running

Put(f, k, v) == [x \in (DOMAIN f) \cup {k} |-> IF x = k THEN v ELSE f[x]]
Get(f, k) == IF k \in DOMAIN f THEN f[k] ELSE 0
SeqToSet(s) == {s[i] : i \in 1..Len(s)}

(* callbacks that must be registered with the SDK exactly once by now *)
Owed(m) == IF "mp" \in m.setRet THEN m.regRet \ m.unregCalled ELSE {}
NotDelegated(m) == {[kind |-> "callback-not-delegated", cb |-> cb] : cb \in {c \in Owed(m) : Get(m.nreg, c) # 1}}

Step(m, e) ==
  CASE e.ev = "Call" /\ e.op = "Set" -> <<[m EXCEPT !.setCalled = @ \cup {e.kind}], {}>>
    [] e.ev = "Ret" /\ e.op = "Set" ->
         LET n == [m EXCEPT !.setRet = @ \cup {e.kind}] IN <<n, NotDelegated(n)>>
    [] e.ev = "Ret" /\ e.op = "Obj" ->
         <<[m EXCEPT !.class = Put(@, e.obj, IF e.kind \in m.setRet THEN "after"
                                             ELSE IF e.kind \in m.setCalled THEN "during" ELSE "before")], {}>>
    [] e.ev = "Call" /\ e.op = "Use" ->
         <<IF e.kind \in m.setRet THEN [m EXCEPT !.must = @ \cup {e.id}] ELSE m, {}>>
    [] e.ev = "SdkUse" ->
         <<[m EXCEPT !.reached = @ \cup {e.id}, !.got = Put(@, e.inst, Get(@, e.inst) + 1)],
           (IF e.id \in m.reached THEN {[kind |-> "delivered-twice", sig |-> e.kind, id |-> e.id]} ELSE {})
           \cup (IF e.kind \notin m.setCalled THEN {[kind |-> "delivered-before-install", sig |-> e.kind, id |-> e.id]} ELSE {})>>
    [] e.ev = "Ret" /\ e.op = "Use" ->
         <<m, IF e.id \in m.must /\ e.id \notin m.reached
              THEN {[kind |-> "lost-after-set", sig |-> e.kind, id |-> e.id, obj |-> e.obj,
                     class |-> IF e.obj \in DOMAIN m.class THEN m.class[e.obj] ELSE "before"]}
              ELSE {}>>
    [] e.ev = "Ret" /\ e.op = "Register" ->
         IF e.err # "" THEN <<m, {[kind |-> "register-error", cb |-> e.cb]}>>
         ELSE LET n == [m EXCEPT !.regRet = @ \cup {e.cb}] IN <<n, NotDelegated(n)>>
    [] e.ev = "SdkCbRegistered" ->
         <<[m EXCEPT !.nreg = Put(@, e.cb, Get(@, e.cb) + 1), !.active = Put(@, e.cb, Get(@, e.cb) + 1)],
           (IF Get(m.nreg, e.cb) >= 1 THEN {[kind |-> "callback-registered-twice", cb |-> e.cb]} ELSE {})
           \cup (IF e.cb \in m.unregRet THEN {[kind |-> "registered-after-unregister", cb |-> e.cb]} ELSE {})
           \cup (IF e.cb = "?" THEN {[kind |-> "registered-with-undelegated-instrument", cb |-> e.cb]} ELSE {})>>
    [] e.ev = "SdkCbUnregistered" ->
         <<[m EXCEPT !.active = Put(@, e.cb, IF Get(@, e.cb) > 0 THEN Get(@, e.cb) - 1 ELSE 0)], {}>>
    [] e.ev = "Call" /\ e.op = "Unregister" ->
         <<[m EXCEPT !.unregCalled = @ \cup {e.cb}, !.inflight = Put(@, e.cb, Get(@, e.cb) + 1)], {}>>
    [] e.ev = "Ret" /\ e.op = "Unregister" ->
         LET left == Get(m.inflight, e.cb) - 1 IN
         <<[m EXCEPT !.unregRet = @ \cup {e.cb}, !.inflight = Put(@, e.cb, left)],
           (IF left = 0 /\ Get(m.active, e.cb) > 0 THEN {[kind |-> "active-after-unregister", cb |-> e.cb]} ELSE {})
           \cup (IF e.err # "" THEN {[kind |-> "unregister-error", cb |-> e.cb]} ELSE {})>>
    [] e.ev = "Call" /\ e.op = "Collect" -> <<[m EXCEPT !.final = e.final, !.invoked = <<>>], {}>>
    [] e.ev = "SdkCbInvoked" ->
         <<IF m.final THEN [m EXCEPT !.invoked = Put(@, e.cb, Get(@, e.cb) + 1)] ELSE m, {}>>
    [] e.ev = "Ret" /\ e.op = "Collect" ->
         IF ~e.final THEN <<m, {}>>
         ELSE LET pts == SeqToSet(e.points) IN
           <<[m EXCEPT !.final = FALSE],
             {[kind |-> "callback-invoked-n", cb |-> cb, n |-> Get(m.invoked, cb)] :
                  cb \in {c \in Owed(m) : Get(m.invoked, c) # 1}}
             \cup {[kind |-> "observation-missing", cb |-> cb] : cb \in {c \in Owed(m) : c \notin pts}}
             \cup {[kind |-> "invoked-after-unregister", cb |-> cb] :
                  cb \in {c \in m.unregRet : Get(m.invoked, c) > 0}}
             \cup {[kind |-> "collected-sum-differs", inst |-> r.inst, n |-> r.n, sdk |-> Get(m.got, r.inst)] :
                  r \in {x \in SeqToSet(e.sums) : x.n >= 0 /\ x.inst \notin m.regRet /\ x.n # Get(m.got, x.inst)}}>>
    [] e.ev = "Timeout" ->
         <<m, IF e.proven THEN {[kind |-> "deadlock", sites |-> e.sites]} ELSE {}>>
    [] e.ev = "Panic" ->
         <<m, IF e.inGlobal THEN {[kind |-> "panic", proc |-> e.proc]} ELSE {}>>
    [] OTHER -> <<m, {}>>
=============================================================================
