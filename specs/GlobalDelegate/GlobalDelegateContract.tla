----------------------- MODULE GlobalDelegateContract -----------------------
(* The C16 statement as a TOTAL monitor over API-observable events:            *)
(*   Call/Ret of the public API made by the harness (op = Set | Get | Obj |    *)
(*   Use | Register | Unregister | Collect; kind = mp | tp | prop | eh),       *)
(*   what the installed SDK sees (SdkUse = a measurement / span / inject /     *)
(*   handled error arrived; SdkCbRegistered / SdkCbUnregistered / SdkCbInvoked),*)
(*   Timeout (goroutines did not finish; proven = a stop-the-world dump shows   *)
(*   every unfinished goroutine parked in Mutex.Lock), Panic, End.             *)
(* Only sound real-time orderings are used: Call is logged before the call,    *)
(* Ret after the return, Sdk* inside the delegate.  Every event is accepted;   *)
(* broken clauses are returned by Step.                                        *)
EXTENDS Naturals, Sequences, FiniteSets, TLC

(* Documented semantics (trace.go, metric.go, propagation.go, handler.go, internal/global/state.go):       *)
(*  - Set(x) with a REAL provider x, the first time: every handle obtained from the default (delegating)     *)
(*    provider before -- and every handle it still hands out later -- forwards to x from then on;            *)
(*  - later Sets only replace the global for new Get calls; early handles stay with the first provider;      *)
(*  - Set(Get()) while the default is installed is a no-op (an error is logged, "no delegate will be         *)
(*    configured"): in particular it must not use up the one-time hand-over.                                 *)
(* val / via / sdk are "dflt" (the default delegating object) or "r1" / "r2" (the two real SDKs).            *)
Fresh == [realCalled |-> {},     \* kinds for which a Set with a real provider has begun
          realRet |-> {},        \* kinds for which a Set with a real provider has returned
          cand |-> <<>>,         \* kind -> real providers whose Set began before the first real Set returned
          first |-> <<>>,        \* kind -> the provider early handles were seen forwarding to (pinned once)
          poss |-> <<>>,         \* kind -> values Get may return now (absent = {"dflt"})
          setIn |-> <<>>,        \* kind -> Set calls in flight
          ovl |-> {},            \* Set calls in flight that overlapped another Set of their kind
          gets |-> <<>>,         \* Get call in flight -> [kind, ok = values it may return]
          via |-> <<>>,          \* use id / callback -> provider its handle came from
          must |-> {},           \* use ids that have to reach an SDK
          reached |-> {},        \* use ids seen by an SDK
          class |-> <<>>,        \* object -> "before" | "during" | "after" (when it was handed out)
          got |-> <<>>,          \* sdk/instrument -> number of measurements that SDK saw
          regRet |-> {},         \* callbacks whose RegisterCallback returned without error
          unregCalled |-> {},    \* callbacks for which an Unregister call has begun
          unregRet |-> {},       \* callbacks for which an Unregister call has returned
          inflight |-> <<>>,     \* callback -> Unregister calls in flight
          nreg |-> <<>>,         \* callback -> registrations with an SDK (ever, any SDK)
          active |-> <<>>,       \* callback -> registrations minus SDK unregistrations
          invoked |-> <<>>,      \* callback -> invocations during the final collection
          final |-> FALSE,       \* the final collection is running
          refused |-> {},        \* names (instrument = callback = owner) the delegate SDK refused (scripted fault)
          nref |-> <<>>,         \* what/obj/sdk -> number of refusals
          watch |-> FALSE,       \* a recording error handler is installed
          pend |-> {},           \* messages of refusals made during a hand-over (inside Set)
          handled |-> {},        \* messages the error handler received
          want |-> <<>>,         \* measurement id -> identity (name|kind|unit|description) of the instrument it was made on
          owner |-> <<>>,        \* observation value -> the invocation that made it
          arrived |-> {}]        \* observation values that arrived at some Observer

Put(f, k, v) == [x \in (DOMAIN f) \cup {k} |-> IF x = k THEN v ELSE f[x]]
Get(f, k) == IF k \in DOMAIN f THEN f[k] ELSE 0
GetS(f, k) == IF k \in DOMAIN f THEN f[k] ELSE {}
GetV(f, k) == IF k \in DOMAIN f THEN f[k] ELSE ""
Poss(m, k) == IF k \in DOMAIN m.poss THEN m.poss[k] ELSE {"dflt"}
SeqToSet(s) == {s[i] : i \in 1..Len(s)}

(* callbacks that must be registered with an SDK exactly once by now *)
(* a refusal by the delegate affects the refused item only (a callback whose instrument was refused included) *)
Owed(m) == IF "mp" \in m.realRet THEN (m.regRet \ m.unregCalled) \ m.refused ELSE {}
NotDelegated(m) == {[kind |-> "callback-not-delegated", cb |-> cb] : cb \in {c \in Owed(m) : Get(m.nreg, c) # 1}}

(* something arrived at SDK `sdk` through handle `h` (a use id or a callback) of kind k: a handle of the default
   provider forwards to the first real provider -- one of the candidates, and always the same one *)
Arrive(m, k, h, sdk) ==
  LET v == IF h \in DOMAIN m.via THEN m.via[h] ELSE "dflt"
      f == GetV(m.first, k) IN
  IF v # "dflt" THEN <<m, IF sdk # v THEN {[kind |-> "wrong-sdk", sig |-> k, h |-> h, want |-> v, sdk |-> sdk]} ELSE {}>>
  ELSE IF f = "" THEN (IF sdk \in GetS(m.cand, k) THEN <<[m EXCEPT !.first = Put(@, k, sdk)], {}>>
                       ELSE <<m, {[kind |-> "delegated-to-unexpected-sdk", sig |-> k, h |-> h, sdk |-> sdk]}>>)
  ELSE <<m, IF sdk # f THEN {[kind |-> "early-handle-reached-other-sdk", sig |-> k, h |-> h, first |-> f, sdk |-> sdk]}
            ELSE {}>>

Step(m, e) ==
  CASE e.ev = "Call" /\ e.op = "Set" ->
         LET others == GetS(m.setIn, e.kind)
             real == e.val # "dflt" IN
         <<[m EXCEPT !.setIn = Put(@, e.kind, others \cup {e.proc}),
                     !.ovl = IF others # {} THEN @ \cup others \cup {e.proc} ELSE @,
                     !.poss = Put(@, e.kind, Poss(m, e.kind) \cup {e.val}),
                     !.gets = [g \in DOMAIN m.gets |-> IF m.gets[g].kind = e.kind
                                                         THEN [kind |-> e.kind, ok |-> m.gets[g].ok \cup {e.val}]
                                                         ELSE m.gets[g]],
                     !.realCalled = IF real THEN @ \cup {e.kind} ELSE @,
                     !.cand = IF real /\ e.kind \notin m.realRet THEN Put(@, e.kind, GetS(@, e.kind) \cup {e.val}) ELSE @],
           {}>>
    [] e.ev = "Ret" /\ e.op = "Set" ->
         LET n == [m EXCEPT !.setIn = Put(@, e.kind, GetS(@, e.kind) \ {e.proc}),
                            !.ovl = @ \ {e.proc},
                            !.poss = IF e.proc \in m.ovl THEN @ ELSE Put(@, e.kind, {e.val}),
                            !.realRet = IF e.val # "dflt" THEN @ \cup {e.kind} ELSE @] IN
         <<n, NotDelegated(n)
              \cup (IF e.kind = "mp" /\ e.val # "dflt" /\ m.watch /\ ~(m.pend \subseteq m.handled)
                    THEN {[kind |-> "refusal-not-reported", n |-> Cardinality(m.pend \ m.handled)]} ELSE {})>>
    [] e.ev = "Call" /\ e.op = "Get" ->
         <<[m EXCEPT !.gets = Put(@, e.kind \o "/" \o e.proc, [kind |-> e.kind, ok |-> Poss(m, e.kind)])], {}>>
    [] e.ev = "Ret" /\ e.op = "Get" ->
         LET g == e.kind \o "/" \o e.proc IN
         <<m, IF g \in DOMAIN m.gets /\ e.val \notin m.gets[g].ok
              THEN {[kind |-> "get-stale", sig |-> e.kind, val |-> e.val]} ELSE {}>>
    [] e.ev = "Ret" /\ e.op = "Obj" ->
         <<[m EXCEPT !.class = Put(@, e.obj, IF e.kind \in m.realRet THEN "after"
                                             ELSE IF e.kind \in m.realCalled THEN "during" ELSE "before")], {}>>
    [] e.ev = "Call" /\ e.op = "Use" ->
         <<[m EXCEPT !.via = Put(@, e.id, e.via),
                     !.want = IF e.sid # "" THEN Put(@, e.id, e.sid) ELSE @,
                     !.must = IF e.via # "dflt" \/ e.kind \in m.realRet THEN @ \cup {e.id} ELSE @], {}>>
    [] e.ev = "SdkUse" ->
         LET r == Arrive(m, e.kind, e.id, e.sdk) IN
         <<[r[1] EXCEPT !.reached = @ \cup {e.id}, !.got = Put(@, e.inst, Get(@, e.inst) + 1)],
           r[2]
           \cup (IF e.id \in DOMAIN m.want /\ m.want[e.id] # e.sid   \* identity = name, kind, unit, description: each
                 THEN {[kind |-> "measurement-on-wrong-instrument", id |-> e.id,   \* measurement reaches ITS OWN instrument
                        want |-> m.want[e.id], got |-> e.sid]} ELSE {})
           \cup (IF e.id \in m.reached THEN {[kind |-> "delivered-twice", sig |-> e.kind, id |-> e.id]} ELSE {})
           \cup (IF e.kind \notin m.realCalled THEN {[kind |-> "delivered-before-install", sig |-> e.kind, id |-> e.id]} ELSE {})>>
    [] e.ev = "Ret" /\ e.op = "Use" ->
         <<m, IF e.id \in m.must /\ e.id \notin m.reached /\ e.obj \notin m.refused
              THEN {[kind |-> "lost-after-set", sig |-> e.kind, id |-> e.id, obj |-> e.obj, via |-> e.via,
                     class |-> IF e.obj \in DOMAIN m.class THEN m.class[e.obj] ELSE "before"]}
              ELSE {}>>
    [] e.ev = "Call" /\ e.op = "Register" -> <<[m EXCEPT !.via = Put(@, e.cb, e.via)], {}>>
    [] e.ev = "Ret" /\ e.op = "Register" ->
         IF e.err # "" THEN <<m, IF e.cb \in m.refused THEN {} ELSE {[kind |-> "register-error", cb |-> e.cb]}>>
         ELSE LET n == [m EXCEPT !.regRet = @ \cup {e.cb}] IN <<n, NotDelegated(n)>>
    [] e.ev = "SdkCbRegistered" ->
         LET r == Arrive(m, "mp", e.cb, e.sdk) IN
         <<[r[1] EXCEPT !.nreg = Put(@, e.cb, Get(@, e.cb) + 1), !.active = Put(@, e.cb, Get(@, e.cb) + 1)],
           (IF e.cb = "?" THEN {[kind |-> "registered-with-undelegated-instrument", cb |-> e.cb]} ELSE r[2])
           \cup (IF Get(m.nreg, e.cb) >= 1 THEN {[kind |-> "callback-registered-twice", cb |-> e.cb]} ELSE {})
           \cup (IF e.cb \in m.unregRet THEN {[kind |-> "registered-after-unregister", cb |-> e.cb]} ELSE {})>>
    [] e.ev = "SdkCbUnregistered" ->
         <<[m EXCEPT !.active = Put(@, e.cb, IF Get(@, e.cb) > 0 THEN Get(@, e.cb) - 1 ELSE 0)], {}>>
    [] e.ev = "Call" /\ e.op = "Unregister" ->
         <<[m EXCEPT !.unregCalled = @ \cup {e.cb}, !.inflight = Put(@, e.cb, Get(@, e.cb) + 1)], {}>>
    [] e.ev = "Ret" /\ e.op = "Unregister" ->
         LET left == Get(m.inflight, e.cb) - 1 IN
         <<[m EXCEPT !.unregRet = @ \cup {e.cb}, !.inflight = Put(@, e.cb, left)],
           (IF left = 0 /\ Get(m.active, e.cb) > 0 THEN {[kind |-> "active-after-unregister", cb |-> e.cb]} ELSE {})
           \cup (IF e.err # "" THEN {[kind |-> "unregister-error", cb |-> e.cb]} ELSE {})>>
    [] e.ev = "Call" /\ e.op = "Collect" -> <<[m EXCEPT !.final = e.final, !.invoked = <<>>], {}>>
    [] e.ev = "SdkCbInvoked" ->
         <<IF m.final THEN [m EXCEPT !.invoked = Put(@, e.cb, Get(@, e.cb) + 1)] ELSE m, {}>>
    [] e.ev = "Ret" /\ e.op = "Collect" ->
         IF ~e.final THEN <<m, {}>>
         ELSE LET pts == SeqToSet(e.points) IN
           <<[m EXCEPT !.final = FALSE],
             {[kind |-> "callback-invoked-n", cb |-> cb, n |-> Get(m.invoked, cb)] :
                  cb \in {c \in Owed(m) : Get(m.invoked, c) # 1}}
             \cup {[kind |-> "observation-missing", cb |-> cb] : cb \in {c \in Owed(m) : c \notin pts}}
             \cup {[kind |-> "invoked-after-unregister", cb |-> cb] :
                  cb \in {c \in m.unregRet : Get(m.invoked, c) > 0}}
             \cup {[kind |-> "collected-sum-differs", inst |-> r.inst, n |-> r.n, sdk |-> Get(m.got, r.inst)] :
                  r \in {x \in SeqToSet(e.sums) : x.n >= 0 /\ x.name \notin m.regRet /\ x.n # Get(m.got, x.inst)}}>>
    [] e.ev = "Watch" -> <<[m EXCEPT !.watch = TRUE], {}>>
    [] e.ev = "SdkRefused" ->
         LET k == e.what \o "/" \o e.obj \o "/" \o e.sdk IN
         <<[m EXCEPT !.refused = @ \cup {e.obj}, !.nref = Put(@, k, Get(@, k) + 1),
                     !.pend = IF e.handover THEN @ \cup {e.msg} ELSE @],
           IF Get(m.nref, k) >= 1 /\ e.obj # "?"
           THEN {[kind |-> "refused-item-resubmitted", what |-> e.what, obj |-> e.obj, n |-> Get(m.nref, k) + 1]} ELSE {}>>
    [] e.ev = "Handled" -> <<[m EXCEPT !.handled = @ \cup {e.msg}], {}>>
    (* invocations of a registered callback (by a collection of the SDK or by the harness as an SDK may do it:
       overlapping, each with its own Observer): what an invocation observes arrives at ITS Observer *)
    [] e.ev = "ObsCall" -> <<[m EXCEPT !.owner = Put(@, e.val, e.inv)], {}>>
    [] e.ev = "Observed" ->
         <<[m EXCEPT !.arrived = @ \cup {e.val}],
           (IF e.val \in DOMAIN m.owner /\ m.owner[e.val] # e.observer
              THEN {[kind |-> "observation-cross-delivered", inv |-> m.owner[e.val], observer |-> e.observer]} ELSE {})
           \cup (IF e.inst = "?" THEN {[kind |-> "observation-not-unwrapped", observer |-> e.observer]} ELSE {})>>
    [] e.ev = "ObsRet" ->
         <<m, IF e.val \notin m.arrived THEN {[kind |-> "observation-lost", inv |-> e.inv, cb |-> e.cb]} ELSE {}>>
    [] e.ev = "Timeout" ->
         <<m, IF e.proven THEN {[kind |-> "deadlock", sites |-> e.sites]} ELSE {}>>
    [] e.ev = "Panic" ->
         <<m, IF e.inGlobal THEN {[kind |-> "panic", proc |-> e.proc]} ELSE {}>>
    [] OTHER -> <<m, {}>>
=============================================================================
