SPECIFICATION SimSpec
CONSTANTS
  ObsIds <- MCObsIds
  SyncIds <- MCSyncIds
  Shapes <- MCShapes
  MaxRegs = @MAXREGS@
  MaxAdds = @MAXADDS@
  MaxSteps = @MAXSTEPS@
  Wrap = @WRAP@
  UnwrapList = @UNWRAPLIST@
  UnregPost = @UNREGPOST@
INVARIANTS Forwarding ExpIsContract
CHECK_DEADLOCK FALSE
