------------------------- MODULE MC_GlobalDelegate -------------------------
EXTENDS GlobalDelegate
MCMInst == @MINST@
MCCreators == @CREATORS@
MCPreC == @PREC@
MCRegistrars == @REGISTRARS@
MCPreG == @PREG@
MCUnregG == @UNREGG@
MCMeterOf == @METEROF@
MCTInst == @TINST@
MCTUsers == @TUSERS@
MCPreT == @PRET@
MCTracerOf == @TRACEROF@
MCXKinds == @XKINDS@
MCScript == @SCRIPT@
MCKept == @KEPT@
MCRefuseReg == @REFUSEREG@
MCRefuseInst == @REFUSEINST@
MCInvokers == @INVOKERS@
MCCbOf == @CBOF@
MCIdOf == @IDOF@
MCKeyFields == @KEYFIELDS@
MCSdkObs == @SDKOBS@
MCPreMeter == @PREMETER@
=============================================================================
