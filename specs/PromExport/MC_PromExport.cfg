SPECIFICATION Spec
CONSTANTS
  OptsSet <- MCOpts
  Templates <- MCTemplates
  ASes <- MCASes
  RecAS <- MCRecAS
  Vals <- MCVals
  Res <- MCRes
  Bounds <- MCBounds
  Scopes <- MCScopes
  SpanFlags <- MCSpanFlags
  Mark = @MARK@
  MaxPre = @MAXPRE@
  AllowShut = @ALLOWSHUT@
  MaxInst = @MAXINST@
  MaxRec = @MAXREC@
  MaxScr = @MAXSCR@
  FaultSet <- MCFaultSet
  MaxFaults = @MAXFAULTS@
VIEW View
ACTION_CONSTRAINT EmitEdge
INVARIANT Inv
PROPERTIES CacheStable
CHECK_DEADLOCK FALSE
