--------------------------- MODULE Trace_PromExport ---------------------------
(* code -> spec (and the judging half of spec -> code): validates what real        *)
(* scrapes of the real exporter exposed against PromModel.  Lines:                 *)
(*   New{sc,opts,res,ases,bounds,qbounds,scopes,mark}  fresh exporter + provider (cache empty) *)
(*   Env{insts, streams}                 instruments created so far and the SDK's own          *)
(*                                       cumulative view (Reader.Collect of the same exporter) *)
(*   Scrape{via, phase, obs}             phase = reg: one scrape (direct Collect or registry Gather) taken  *)
(*                                       in the state described by the last Env line           *)
(*   CScrape{obs}                        a scrape taken while measurements were being recorded *)
(*                                       (Env = the final state)                               *)
(* Env and Scrape lines may carry faults = the armed faults of the collection (PromModel,      *)
(* "the collection behind a scrape") and Env ck = the outcome kind the harness saw when it     *)
(* asked the same reader for the SDK's view: it must be the kind the model derives from the    *)
(* faults (otherwise the line is not consumed: drift, never a verdict).  What a scrape must    *)
(* expose follows from Duty(CollectKind(phase, faults)).                                       *)
(* The order in which the SDK hands scopes to the exporter is unspecified and      *)
(* decides which of two conflicting definitions is first: the monitor keeps the    *)
(* SET of family caches that are consistent with everything observed so far.       *)
(* A scrape that no admissible alternative explains is reported (VIOL) together    *)
(* with the smallest set of named deviations (PromModel!Deviations) that explains  *)
(* it exactly, if there is one.                                                    *)
EXTENDS PromModel, TraceKit

VARIABLES l, env, streams, caches, nbad
vars == <<l, env, streams, caches, nbad>>

NoEnv == [o |-> <<>>, res |-> <<>>, insts |-> <<>>, ases |-> <<>>, bounds |-> <<>>, qbounds |-> <<>>, scopes |-> <<>>, mark |-> TRUE]

PermSeqs(S) == {f \in [1..Cardinality(S) -> S] : Range(f) = S}
Scopes(sts) == {sts[i].scope : i \in 1..Len(sts)}
RECURSIVE Reorder(_, _)
Reorder(sts, p) == IF p = <<>> THEN <<>> ELSE SelectSeq(sts, LAMBDA s : s.scope = Head(p)) \o Reorder(sts, Tail(p))
Orders(sts) == {Reorder(sts, p) : p \in PermSeqs(Scopes(sts))}

Try(c, ord, nm, dv, obs) == LET e == Scrape(env, ord, c, nm, dv) IN [v |-> Verdict(e, obs), cache |-> e.cache, dv |-> dv]
Cands(NM, DV, obs) == {Try(c, ord, nm, dv, obs) : c \in caches, ord \in Orders(streams), nm \in NM, dv \in DV}
OKs(R) == {r \in R : r.v.why = "ok"}
Result(ok, R, v) == [ok |-> ok, caches |-> {r.cache : r \in R}, v |-> v,
                     dev |-> IF R = {} THEN {} ELSE (CHOOSE r \in R : \A q \in R : Cardinality(r.dv) <= Cardinality(q.dv)).dv]

(* fast: after MaxSearch unexplained scrapes the verdict of the run is settled; the expensive  *)
(* search for an explanation is skipped (later lines may then be reported although an          *)
(* alternative would explain them)                                                              *)
MaxSearch == 25
Judge(obs, fast) ==
  LET singles == {{d} : d \in Deviations}
      canon == {NameMap(env, Canon)}
      r0 == Cands(canon, {{}}, obs)                       \* the literal reading
      r1 == Cands(canon, singles, obs)                    \* ... with one named deviation (cheap, tried early)
      r2 == Cands(NameMaps(env), {{}}, obs)               \* every admissible naming alternative
      r3 == Cands(NameMaps(env), singles, obs)
      r4 == Cands(NameMaps(env), (SUBSET Deviations) \ ({{}} \cup singles), obs)
      strict == (CHOOSE r \in r0 : TRUE).v
  IN IF OKs(r0) # {} THEN Result(TRUE, OKs(r0), strict)
     ELSE IF OKs(r1) # {} THEN Result(FALSE, OKs(r1), strict)
     ELSE IF fast THEN [ok |-> FALSE, caches |-> {r.cache : r \in r0}, v |-> strict, dev |-> {"none"}]
     ELSE IF OKs(r2) # {} THEN Result(TRUE, OKs(r2), strict)
     ELSE IF OKs(r3) # {} THEN Result(FALSE, OKs(r3), strict)
     ELSE IF OKs(r4) # {} THEN Result(FALSE, OKs(r4), strict)
     ELSE [ok |-> FALSE, caches |-> {r.cache : r \in r0}, v |-> strict, dev |-> {"none"}]

FaultsOf(r) == IF "faults" \in DOMAIN r THEN Range(r.faults) ELSE {}
KindOf(r) == CollectKind(r.phase, FaultsOf(r))
(* named in every report: which class of collection the scrape was taken behind *)
CollectOf(r) == [kind |-> KindOf(r), faults |-> IF "faults" \in DOMAIN r THEN r.faults ELSE <<>>]

Init == l = 1 /\ env = NoEnv /\ streams = <<>> /\ caches = {{}} /\ nbad = 0

TNew == /\ l <= Len(Trace) /\ Trace[l].ev = "New"
        /\ env' = [NoEnv EXCEPT !.o = Trace[l].opts, !.res = Trace[l].res, !.ases = Trace[l].ases, !.bounds = Trace[l].bounds,
                                 !.scopes = Trace[l].scopes, !.qbounds = Trace[l].qbounds, !.mark = Trace[l].mark]
        /\ streams' = <<>> /\ caches' = {{}} /\ l' = l + 1 /\ UNCHANGED nbad

TEnv == /\ l <= Len(Trace) /\ Trace[l].ev = "Env"
        /\ ("ck" \in DOMAIN Trace[l]) => (FaultsOf(Trace[l]) \subseteq Faults /\ Trace[l].ck = CollectKind("reg", FaultsOf(Trace[l])))
        /\ env' = [env EXCEPT !.insts = Trace[l].insts]
        /\ streams' = Trace[l].streams /\ l' = l + 1 /\ UNCHANGED <<caches, nbad>>

(* scrape before registration / after shutdown (PromModel, exporter lifecycle) *)
TLifeScrape == /\ l <= Len(Trace) /\ Trace[l].ev = "Scrape" /\ Duty(KindOf(Trace[l])) # "data"
               /\ LET obs == Trace[l].obs
                      empty == EmptyVerdict(obs)
                      last == Judge(obs, FALSE)      \* the exposition of the last state
                      v == IF Duty(KindOf(Trace[l])) = "nothing" \/ empty.why = "ok" \/ Unconditional(obs).why # "ok" THEN empty
                           ELSE IF last.ok THEN [why |-> "ok", fam |-> {}] ELSE last.v IN
                  (v.why # "ok") => Viol([line |-> l, sc |-> Trace[l].sc, via |-> Trace[l].via, why |-> v.why, fam |-> v.fam,
                                          devs |-> {"none"}, phase |-> Trace[l].phase, panic |-> obs.panic, gerr |-> obs.gerr,
                                          collect |-> CollectOf(Trace[l])])
               /\ l' = l + 1 /\ UNCHANGED <<env, streams, caches, nbad>>

(* behind an ok or a PARTIAL collection: the exposition of everything the reader produced (the last Env line) *)
TScrape == /\ l <= Len(Trace) /\ Trace[l].ev = "Scrape" /\ Duty(KindOf(Trace[l])) = "data"
           /\ LET obs == Trace[l].obs
                  j == Judge(obs, nbad >= MaxSearch) IN
              /\ caches' = j.caches
              /\ nbad' = IF j.dev = {"none"} THEN nbad + 1 ELSE nbad
              /\ (~j.ok) => Viol([line |-> l, sc |-> Trace[l].sc, via |-> Trace[l].via, why |-> j.v.why, fam |-> j.v.fam,
                                  devs |-> j.dev, panic |-> obs.panic, gerr |-> obs.gerr, collect |-> CollectOf(Trace[l])])
           /\ l' = l + 1 /\ UNCHANGED <<env, streams>>

TCScrape == /\ l <= Len(Trace) /\ Trace[l].ev = "CScrape"
            /\ LET obs == Trace[l].obs
                   e == Scrape(env, streams, {}, NameMap(env, Canon), {})
                   v == PartialVerdict(e, obs) IN
               (v.why # "ok") => Viol([line |-> l, sc |-> Trace[l].sc, via |-> "concurrent", why |-> v.why, fam |-> v.fam,
                                       devs |-> {"none"}, panic |-> obs.panic, gerr |-> obs.gerr])
            /\ l' = l + 1 /\ UNCHANGED <<env, streams, caches, nbad>>

TDone == l = Len(Trace) + 1 /\ Accepted(l) /\ UNCHANGED vars

Next == TNew \/ TEnv \/ TScrape \/ TLifeScrape \/ TCScrape \/ TDone
Spec == Init /\ [][Next]_vars
=============================================================================
