----------------------------- MODULE PromExport -----------------------------
(* Scrape state machine over PromModel for exhaustive exploration by TLC (C18).  *)
(* New(options) ; Create(instrument) ; Rec(instrument, attribute set, value) ;   *)
(* Scr (one scrape: family cache consulted and extended, families exposed).      *)
(* Every explored Scr edge is printed as  EDGE {path, act}: path = the actions   *)
(* by which TLC first reached the source state (kept in the history variable     *)
(* hist, hidden from fingerprints by VIEW).  harness/c18 replays path+act on a   *)
(* real exporter and records what the SDK aggregated and what every scrape       *)
(* exposed; Trace_PromExport.tla judges the recording with the same PromModel    *)
(* operators (the expected exposition has alternatives -- sets of admissible     *)
(* names / merged values -- so the comparison itself is part of the model).      *)
EXTENDS PromModel, Json

CONSTANTS OptsSet,    \* set of option records
          Templates,  \* set of instrument records [id, scope, toks, unit, kind, desc]
          ASes,       \* sequence of attribute sets (each: attrs ordered by original key)
          RecAS,      \* indexes of ASes that Rec may use
          Vals,       \* measurement values (integers)
          Res,        \* resource attributes (ordered by key)
          Bounds,     \* explicit histogram boundaries (integers, ascending)
          Scopes,     \* scope records [id, name, version, url, attrs] with a non-default identity
          SpanFlags,  \* subset of BOOLEAN: Rec inside a sampled span (exemplar) or not
          Mark,       \* BOOLEAN: measurements carry the vinst marker
          MaxPre,     \* scrapes allowed BEFORE the exporter is registered with a MeterProvider
          AllowShut,  \* BOOLEAN: MeterProvider.Shutdown (and one scrape after it) is explored
          MaxInst, MaxRec, MaxScr,
          FaultSet,   \* subset of PromModel!Faults: faults of the collection that may be armed (and cleared again)
          MaxFaults   \* how many of them at the same time

VARIABLES o, started, phase, npre, created, recs, cache, nscr, out, hist, act,
          faults      \* the armed faults: every collection fails with them (non-fatally) until they are cleared
vars == <<o, started, phase, npre, created, recs, cache, nscr, out, hist, act, faults>>

NoOpts == [scheme |-> "none", noUnits |-> FALSE, noSuffix |-> FALSE, ns |-> <<>>, noTarget |-> FALSE,
           noScope |-> FALSE, resConst |-> FALSE, resKeys |-> <<>>]
NoOut == [scr |-> FALSE, fams |-> {}]

(* ---- the SDK's cumulative aggregation of the recorded measurements (small ints) ---- *)
RECURSIVE SeqSum(_)
SeqSum(s) == IF s = <<>> THEN 0 ELSE Head(s) + SeqSum(Tail(s))
ValsOf(id, a) == LET rs == SelectSeq(recs, LAMBDA r : r.i = id /\ r.as = a) IN [k \in 1..Len(rs) |-> rs[k].v]
BucketOf(v) == IF \E k \in 1..Len(Bounds) : v <= Bounds[k]
               THEN CHOOSE k \in 1..Len(Bounds) : v <= Bounds[k] /\ \A j \in 1..(k - 1) : v > Bounds[j]
               ELSE Len(Bounds) + 1
Point(in, a) ==
  LET vs == ValsOf(in.id, a)
      d == DataOf(in.kind)
      base == [as |-> a, val |-> "", count |-> 0, sum |-> "", counts |-> <<>>, scale |-> 0, zero |-> 0,
               poff |-> 0, pcnt |-> <<>>, noff |-> 0, ncnt |-> <<>>, exs |-> <<>>]   \* exemplars: from the SDK in the replayed run
  IN CASE d = "counter" -> [base EXCEPT !.val = ToString(SeqSum(vs))]
       [] d = "gauge" -> [base EXCEPT !.val = IF in.kind \in {"gauge", "fgauge", "ogauge", "ofgauge"}
                                                THEN ToString(vs[Len(vs)]) ELSE ToString(SeqSum(vs))]
       [] d = "hist" -> [base EXCEPT !.count = Len(vs), !.sum = ToString(SeqSum(vs)),
                                     !.counts = [k \in 1..(Len(Bounds) + 1) |->
                                                   Cardinality({j \in 1..Len(vs) : BucketOf(vs[j]) = k})]]
       (* bucket layout of exponential histograms is not computed here (floating point); *)
       (* the replayed run uses what the SDK reports                                      *)
       [] d = "exphist" -> [base EXCEPT !.count = Len(vs), !.sum = ToString(SeqSum(vs))]
Stream(in) ==
  LET used == SelectSeq([k \in 1..Len(ASes) |-> k], LAMBDA a : \E j \in 1..Len(recs) : recs[j].i = in.id /\ recs[j].as = a)
  IN [inst |-> in.id, scope |-> in.scope, data |-> DataOf(in.kind), points |-> [k \in 1..Len(used) |-> Point(in, used[k])]]
Streams == LET live == SelectSeq(created, LAMBDA in : \E j \in 1..Len(recs) : recs[j].i = in.id)
           IN [k \in 1..Len(live) |-> Stream(live[k])]
Env == [o |-> o, res |-> Res, insts |-> created, ases |-> ASes, bounds |-> [k \in 1..Len(Bounds) |-> ToString(Bounds[k])],
        qbounds |-> [k \in 1..Len(Bounds) |-> 8 * Bounds[k]], scopes |-> Scopes, mark |-> Mark]

(* ---- actions ---- *)
(* phase: "unreg" exporter created (New), not yet handed to a MeterProvider; "reg" after Register (WithReader);  *)
(* "down" after MeterProvider.Shutdown; "done" after the one scrape that follows it                            *)
Init == /\ o = NoOpts /\ started = FALSE /\ phase = "none" /\ npre = 0 /\ created = <<>> /\ recs = <<>> /\ cache = {} /\ nscr = 0
        /\ out = NoOut /\ hist = <<>> /\ act = [op |-> "Init"] /\ faults = {}

Log(a) == act' = a /\ hist' = Append(hist, a)

New(op) == /\ ~started
           /\ o' = op /\ started' = TRUE /\ phase' = "unreg" /\ out' = NoOut
           /\ Log([op |-> "New", opts |-> op])
           /\ UNCHANGED <<npre, created, recs, cache, nscr>>

(* a scrape before registration: nothing is exposed and -- the point -- nothing is remembered (cache, infos) *)
PreScr == /\ phase = "unreg" /\ npre < MaxPre /\ Duty(CollectKind(phase, faults)) = "nothing"
          /\ npre' = npre + 1 /\ out' = NoOut
          /\ Log([op |-> "Scrape"])
          /\ UNCHANGED <<o, started, phase, created, recs, cache, nscr>>

Register == /\ phase = "unreg"
            /\ phase' = "reg" /\ out' = NoOut
            /\ Log([op |-> "Register"])
            /\ UNCHANGED <<o, started, npre, created, recs, cache, nscr>>

Shut == /\ AllowShut /\ phase = "reg" /\ nscr >= 1
        /\ phase' = "down" /\ out' = NoOut
        /\ Log([op |-> "Shutdown"])
        /\ UNCHANGED <<o, started, npre, created, recs, cache, nscr>>

PostScr == /\ phase = "down"
           /\ phase' = "done" /\ out' = NoOut
           /\ Log([op |-> "Scrape"])
           /\ UNCHANGED <<o, started, npre, created, recs, cache, nscr>>

Create(t) == /\ phase = "reg" /\ Len(created) < MaxInst /\ \A k \in 1..Len(created) : created[k].id # t.id
             /\ created' = Append(created, t) /\ out' = NoOut
             /\ Log([op |-> "Create", inst |-> t])
             /\ UNCHANGED <<o, started, phase, npre, recs, cache, nscr>>

Rec(k, a, v, sp) == /\ phase = "reg" /\ Len(recs) < MaxRec /\ k \in 1..Len(created)
                /\ (DataOf(created[k].kind) = "counter" => v >= 0)
                /\ recs' = Append(recs, [i |-> created[k].id, as |-> a, v |-> v, sp |-> sp]) /\ out' = NoOut
                /\ Log([op |-> "Rec", inst |-> created[k].id, as |-> a, v |-> v, sp |-> sp])
                /\ UNCHANGED <<o, started, phase, npre, created, cache, nscr>>

(* the collection behind it is ok or PARTIAL (faults armed): the duty is the same, everything the reader produced *)
Scr == /\ phase = "reg" /\ nscr < MaxScr /\ created # <<>> /\ Duty(CollectKind(phase, faults)) = "data"
       /\ (recs # <<>> \/ (MaxScr > 1 /\ nscr = 0))   \* one scrape before any measurement, where another can follow
       /\ LET r == Scrape(Env, Streams, cache, NameMap(Env, Canon), {}) IN
          /\ cache' = r.cache
          /\ out' = [scr |-> TRUE, fams |-> r.fams]
       /\ nscr' = nscr + 1
       /\ Log([op |-> "Scrape"])
       /\ UNCHANGED <<o, started, phase, npre, created, recs>>

(* a callback / producer starts or stops failing (a backend goes away and comes back) *)
Fault(f) == /\ phase = "reg" /\ created # <<>>
            /\ (f \notin faults => Cardinality(faults) < MaxFaults)
            /\ faults' = IF f \in faults THEN faults \ {f} ELSE faults \cup {f}
            /\ out' = NoOut
            /\ Log([op |-> "Fault", f |-> f, on |-> f \notin faults])
            /\ UNCHANGED <<o, started, phase, npre, created, recs, cache, nscr>>

Next == \/ /\ \/ \E op \in OptsSet : New(op)
              \/ \E t \in Templates : Create(t)
              \/ \E k \in 1..MaxInst, a \in RecAS, v \in Vals, sp \in SpanFlags : Rec(k, a, v, sp)
              \/ Scr \/ PreScr \/ Register \/ Shut \/ PostScr
           /\ UNCHANGED faults
        \/ \E f \in FaultSet : Fault(f)
Spec == Init /\ [][Next]_vars

View == <<o, started, phase, npre, created, recs, cache, nscr, faults>>
EmitEdge == (act'.op # "Scrape") \/ PrintT("EDGE " \o ToJson([path |-> hist, act |-> act']))

(* ---- the statement on the model ---- *)
LegalLabel(n) == n # ""    \* rendered names are legal by construction of LabelName; emptiness is the residual case
Inv ==
  /\ (recs = <<>>) => \A k \in 1..Len(created) : \A ch \in Choices : NameClauses(o, created[k], ch)
  /\ \A c1, c2 \in cache : c1.name = c2.name => c1 = c2                  \* one definition per family
  /\ \A f \in out.fams : \A s \in f.series :
        /\ \A l \in s.labels : LegalLabel(l.n)
        /\ ~s.loose => \A l1, l2 \in s.labels : l1.n = l2.n => l1 = l2     \* consistent label sets
  /\ \A f \in out.fams : f.name \notin {"target_info", "otel_scope_info"} =>
        \E c \in cache : c.name = f.name /\ c.typ = f.typ /\ c.help = f.help
  /\ \A f1, f2 \in out.fams : f1.name = f2.name => f1 = f2
  /\ (out.scr /\ ~o.noTarget) => \E f \in out.fams : f.name = "target_info"
  /\ o.noScope => ~\E f \in out.fams : f.name = "otel_scope_info"
  /\ faults \subseteq Faults
  (* whatever faults are armed: a scrape of a registered exporter exposes every stream the SDK holds *)
  /\ out.scr => \A k \in 1..Len(Streams) : \E f \in out.fams : f.name = NameMap(Env, Canon)[Streams[k].inst]
(* the first definition of a family is never replaced *)
CacheStable == [][cache \subseteq cache']_vars
=============================================================================
