----------------------------- MODULE PromModel -----------------------------
(* Reference model of the OpenTelemetry -> Prometheus exposition (C18).          *)
(* Transcribed from the property statement, the OTel "Prometheus and             *)
(* OpenMetrics compatibility" rules and the documented exporter options -- not   *)
(* from exporter.go.  Pure operators only; PromExport.tla explores them with     *)
(* TLC, Trace_PromExport.tla validates real scrapes against them.                *)
(*                                                                               *)
(* Names, namespaces and attribute keys are TOKEN sequences.  A token is         *)
(*   [c |-> class, s |-> concrete text]   with classes                           *)
(*   "w"     lower-case word that contains neither "total" nor a unit word       *)
(*   "W"     word with upper-case letters (case matters: never a suffix word)    *)
(*   "d"     ONE digit                                                           *)
(*   "total" the word total            "u"  a unit word (s = seconds, bytes ...) *)
(*   "sep"   one of _ . - /            "bad" any other character (keys only)     *)
(* The rules work on classes, the expected strings are rendered from s, so the   *)
(* model yields concrete Prometheus names.                                       *)
EXTENDS Naturals, Integers, Sequences, FiniteSets, TLC, SequencesExt

TOTAL == [c |-> "total", s |-> "total"]
US == [c |-> "sep", s |-> "_"]
UnitTok(u) == [c |-> "u", s |-> u]
IsSep(t) == t.c = "sep"
Range(f) == {f[i] : i \in DOMAIN f}

RECURSIVE Render(_)
Render(toks) == IF toks = <<>> THEN "" ELSE Head(toks).s \o Render(Tail(toks))

(* ---------------------------------------------------------------- units      *)
(* OTel unit (UCUM) -> Prometheus unit word.  "1" -> ratio and "%" -> percent   *)
(* are the special cases named by the compatibility spec.                       *)
UnitWord ==
  [d |-> "days", h |-> "hours", min |-> "minutes", s |-> "seconds", ms |-> "milliseconds",
   us |-> "microseconds", ns |-> "nanoseconds",
   By |-> "bytes", KiBy |-> "kibibytes", MiBy |-> "mebibytes", GiBy |-> "gibibytes", TiBy |-> "tibibytes",
   KBy |-> "kilobytes", MBy |-> "megabytes", GBy |-> "gigabytes", TBy |-> "terabytes",
   m |-> "meters", V |-> "volts", A |-> "amperes", J |-> "joules", W |-> "watts", g |-> "grams",
   Cel |-> "celsius", Hz |-> "hertz"] @@ ("1" :> "ratio") @@ ("%" :> "percent")

(* unit words that textually end with another unit word *)
Longer == {<<a \o "seconds", "seconds">> : a \in {"milli", "micro", "nano"}}
          \cup {<<a \o "bytes", "bytes">> : a \in {"kibi", "mebi", "gibi", "tibi", "kilo", "mega", "giga", "tera"}}
TokEndsWith(t, uw) == t.c = "u" /\ (t.s = uw \/ <<t.s, uw>> \in Longer)

(* ---------------------------------------------------------------- options    *)
(* o = [scheme, noUnits, noSuffix, ns, noTarget, noScope, resConst, resKeys]    *)
Legacy(o) == o.scheme = "legacy"

(* legacy metric-name escaping: every character outside [a-zA-Z0-9_:] -> "_"   *)
(* (valid instrument names only contain letters, digits and the 4 separators)  *)
EscName(o, toks) == IF Legacy(o) THEN [i \in 1..Len(toks) |-> IF IsSep(toks[i]) THEN US ELSE toks[i]]
                    ELSE toks

(* WithNamespace: escaped like a name, a trailing "_" is added unless present  *)
NsToks(o) == IF o.ns = <<>> THEN <<>>
             ELSE LET e == EscName(o, o.ns) IN
                  IF e[Len(e)] = US THEN e ELSE Append(e, US)

PromType(data) == CASE data = "counter" -> "counter" [] data = "gauge" -> "gauge"
                    [] data \in {"hist", "exphist"} -> "histogram"
DataOf(kind) == CASE kind \in {"counter", "fcounter", "ocounter", "ofcounter"} -> "counter"
                  [] kind \in {"updown", "fupdown", "oupdown", "ofupdown", "gauge", "fgauge", "ogauge", "ofgauge"} -> "gauge"
                  [] kind \in {"hist", "fhist"} -> "hist"
                  [] kind \in {"exphist", "fexphist"} -> "exphist"

(* ---------------------------------------------------------------- names      *)
(* Where the rules leave a choice the model admits every answer; ch selects    *)
(* one.  All-FALSE is the canonical answer (the exporter's documented choice). *)
(*   emptyStem : a counter whose whole name is "total" may keep it as the stem *)
(*               (total_total) or use it as the suffix (total)                 *)
(*   flip      : "unless the name already contains the unit": a name that      *)
(*               contains the unit word NOT as a delimited suffix may or may   *)
(*               not get the suffix                                            *)
(*   collapse  : runs of "_" SHOULD/MAY be collapsed                           *)
Choices == [emptyStem : BOOLEAN, flip : BOOLEAN, collapse : BOOLEAN]
Canon == [emptyStem |-> FALSE, flip |-> FALSE, collapse |-> FALSE]

RECURSIVE Collapse(_)
Collapse(toks) == IF Len(toks) < 2 THEN toks
                  ELSE IF toks[1] = US /\ toks[2] = US THEN Collapse(Tail(toks))
                  ELSE <<Head(toks)>> \o Collapse(Tail(toks))

NameToks(o, in, ch) ==
  LET E == EscName(o, in.toks)
      n == Len(E)
      addTotal == DataOf(in.kind) = "counter" /\ ~o.noSuffix
      carriesTotal == n >= 2 /\ E[n].c = "total" /\ IsSep(E[n - 1])
      onlyTotal == n = 1 /\ E[1].c = "total"
      stem == IF addTotal /\ carriesTotal THEN SubSeq(E, 1, n - 2)
              ELSE IF addTotal /\ onlyTotal /\ ch.emptyStem THEN <<>>
              ELSE E
      m == Len(stem)
      uw == IF ~o.noUnits /\ in.unit \in DOMAIN UnitWord THEN UnitWord[in.unit] ELSE ""
      carriesUnit == uw # "" /\ m >= 1 /\ stem[m] = UnitTok(uw) /\ (m = 1 \/ IsSep(stem[m - 1]))
      textEnds == uw # "" /\ m >= 1 /\ TokEndsWith(stem[m], uw)
      contains == uw # "" /\ \E i \in 1..m : TokEndsWith(stem[i], uw)
      addUnit == /\ uw # "" /\ ~carriesUnit
                 /\ (contains => (IF ch.flip THEN textEnds ELSE ~textEnds))
      sufs == (IF addUnit THEN <<US, UnitTok(uw)>> ELSE <<>>) \o (IF addTotal THEN <<US, TOTAL>> ELSE <<>>)
      tail == IF stem = <<>> /\ sufs # <<>> THEN Tail(sufs) ELSE sufs
      full == NsToks(o) \o stem \o tail
  IN IF ch.collapse THEN Collapse(full) ELSE full

CanonName(o, in) == Render(NameToks(o, in, Canon))
Names(o, in) == {Render(NameToks(o, in, ch)) : ch \in Choices}

(* the statement's clauses about names, as predicates over a token sequence     *)
LegalName(o, toks) ==
  /\ toks # <<>>
  /\ Legacy(o) => /\ toks[1].c \in {"w", "W", "total", "u", "sep"}
                  /\ \A i \in 1..Len(toks) : IsSep(toks[i]) => toks[i] = US
EndsWithTotal(toks) == LET n == Len(toks) IN n >= 1 /\ toks[n] = TOTAL /\ (n = 1 \/ toks[n - 1] = US)
(* position just before the _total suffix *)
BeforeTotal(toks, addTotal) == IF addTotal /\ Len(toks) >= 2 THEN SubSeq(toks, 1, Len(toks) - 2) ELSE toks
EndsWithUnit(toks, uw) == LET n == Len(toks) IN n >= 1 /\ TokEndsWith(toks[n], uw)
Duplicated(toks, t) == LET n == Len(toks) IN n >= 4 /\ toks[n] = t /\ toks[n - 1] = US /\ toks[n - 2] = t /\ IsSep(toks[n - 3])

NameClauses(o, in, ch) ==
  LET t == NameToks(o, in, ch)
      addTotal == DataOf(in.kind) = "counter" /\ ~o.noSuffix
      uw == IF ~o.noUnits /\ in.unit \in DOMAIN UnitWord THEN UnitWord[in.unit] ELSE ""
      E == EscName(o, in.toks)
      hadTwice(x) == \E i \in 1..Len(E) : i + 2 <= Len(E) /\ E[i] = x /\ IsSep(E[i + 1]) /\ E[i + 2] = x
      inName == uw # "" /\ \E i \in 1..Len(E) : TokEndsWith(E[i], uw)
  IN /\ LegalName(o, t)
     /\ addTotal => EndsWithTotal(t)
     /\ (uw # "" /\ ~inName) => EndsWithUnit(BeforeTotal(t, addTotal), uw)   \* unit, then _total last
     /\ (addTotal /\ ~hadTwice(TOTAL) /\ Len(E) > 1) => ~Duplicated(t, TOTAL)
     /\ (uw # "" /\ ~hadTwice(UnitTok(uw))) => ~Duplicated(BeforeTotal(t, addTotal), UnitTok(uw))

(* ---------------------------------------------------------------- labels     *)
(* legacy label names: [a-zA-Z_][a-zA-Z0-9_]* ; anything else -> "_"           *)
LabelName(o, k) ==
  IF ~Legacy(o) THEN Render(k)
  ELSE Render([i \in 1..Len(k) |-> IF k[i].c \in {"sep", "bad"} \/ (k[i].c = "d" /\ i = 1)
                                   THEN US ELSE k[i]])

RECURSIVE JoinV(_)
JoinV(as) == IF as = <<>> THEN "" ELSE IF Len(as) = 1 THEN as[1].v ELSE as[1].v \o ";" \o JoinV(Tail(as))

(* as: attributes ordered by original key.  Keys that collide after            *)
(* sanitisation are merged, values ";"-joined in a deterministic order: by     *)
(* original key (OTel rule) or sorted (documented exporter choice); r = rank   *)
(* of the value text within the set.                                           *)
Labels(o, as) ==
  {LET grp == SelectSeq(as, LAMBDA a : LabelName(o, a.k) = n)
   IN [n |-> n, vs |-> {JoinV(grp), JoinV(SortSeq(grp, LAMBDA a, b : a.r < b.r))}]
   : n \in {LabelName(o, a.k) : a \in Range(as)}}

Lab(n, v) == [n |-> n, vs |-> {v}]
LabelNames(ls) == {l.n : l \in ls}

ScopeLabels(o, scope) == IF o.noScope THEN {} ELSE {Lab("otel_scope_name", scope), Lab("otel_scope_version", "v" \o scope)}
ConstLabels(o, res) == IF o.resConst THEN Labels(o, SelectSeq(res, LAMBDA a : \E i \in Range(o.resKeys) : res[i] = a)) ELSE {}

(* ---------------------------------------------------------------- values     *)
RECURSIVE SumTo(_, _)
SumTo(s, n) == IF n = 0 THEN 0 ELSE s[n] + SumTo(s, n - 1)

(* explicit-bucket histogram: Prometheus buckets are CUMULATIVE *)
CumBuckets(bounds, counts) == [i \in 1..Len(bounds) |-> [le |-> bounds[i], c |-> SumTo(counts, i)]]

(* exponential -> native histogram: OTel bucket i covers (b^i, b^(i+1)], the    *)
(* native bucket j covers (b^(j-1), b^j]: j = i + 1.  Scales above 8 do not    *)
(* exist in Prometheus: the point is merged down to schema 8 (i >> (scale-8)). *)
RECURSIVE Pow2(_)
Pow2(n) == IF n = 0 THEN 1 ELSE 2 * Pow2(n - 1)
Schema(scale) == IF scale > 8 THEN 8 ELSE scale
NativeIdx(scale, i) == (IF scale > 8 THEN i \div Pow2(scale - 8) ELSE i) + 1
RECURSIVE SumOver(_, _)
SumOver(cnt, K) == IF K = {} THEN 0 ELSE LET k == CHOOSE k \in K : TRUE IN cnt[k] + SumOver(cnt, K \ {k})
NativeBuckets(scale, off, cnt) ==
  LET js == {NativeIdx(scale, off + k - 1) : k \in {k \in 1..Len(cnt) : cnt[k] > 0}}
      tot(j) == SumOver(cnt, {k \in 1..Len(cnt) : NativeIdx(scale, off + k - 1) = j})
  IN {[i |-> j, c |-> tot(j)] : j \in js}

(* ---------------------------------------------------------------- one scrape *)
(* stream = [inst, scope, data, points]; point = [as, val, count, sum, counts, *)
(*           scale, zero, poff, pcnt, noff, ncnt]  (the SDK's cumulative view) *)
(* env = [o, res, insts, ases, bounds]                                          *)
InstOf(env, id) == CHOOSE in \in Range(env.insts) : in.id = id

Marker(id) == Lab("vinst", "i" \o ToString(id))

XSeries(env, st, p) ==
  LET o == env.o
      al == Labels(o, env.ases[p.as])
      fixed == ScopeLabels(o, st.scope) \cup ConstLabels(o, env.res)
      base == [labels |-> al \cup {Marker(st.inst)} \cup fixed,
               (* an attribute whose sanitised key equals a scope / constant label: the *)
               (* rules do not say which wins; only presence and values are checked     *)
               loose |-> LabelNames(al) \cap LabelNames(fixed) # {},
               val |-> "", count |-> 0, sum |-> "", buckets |-> <<>>, native |-> FALSE,
               schema |-> 0, zero |-> 0, pos |-> {}, neg |-> {}, anyBuckets |-> FALSE]
  IN CASE st.data \in {"counter", "gauge"} -> [base EXCEPT !.val = p.val]
       [] st.data = "hist" -> [base EXCEPT !.count = p.count, !.sum = p.sum,
                                           !.buckets = CumBuckets(env.bounds, p.counts)]
       [] st.data = "exphist" -> [base EXCEPT !.count = p.count, !.sum = p.sum, !.native = TRUE,
                                              !.schema = Schema(p.scale), !.zero = p.zero,
                                              !.anyBuckets = p.scale = 99,   \* 99 = "not modelled" (MC only)
                                              !.pos = IF p.scale = 99 THEN {} ELSE NativeBuckets(p.scale, p.poff, p.pcnt),
                                              !.neg = IF p.scale = 99 THEN {} ELSE NativeBuckets(p.scale, p.noff, p.ncnt)]

(* family cache: name -> (type, help), kept across scrapes.  First definition  *)
(* of a name wins: a later instrument of another type is dropped, a later      *)
(* description is replaced by the first.  strict = only canonical names (used  *)
(* whenever more than one instrument is in play).                               *)
RECURSIVE Walk(_, _, _, _)
Walk(env, streams, cache, shown) ==
  IF streams = <<>> THEN [cache |-> cache, shown |-> shown]
  ELSE LET st == Head(streams)
           in == InstOf(env, st.inst)
           nm == CanonName(env.o, in)
           ty == PromType(st.data)
           hit == {c \in cache : c.name = nm}
       IN IF hit = {} THEN Walk(env, Tail(streams), cache \cup {[name |-> nm, typ |-> ty, help |-> in.desc]},
                                Append(shown, [name |-> nm, typ |-> ty, help |-> in.desc, st |-> st]))
          ELSE LET c == CHOOSE c \in hit : TRUE IN
               IF c.typ # ty THEN Walk(env, Tail(streams), cache, shown)
               ELSE Walk(env, Tail(streams), cache, Append(shown, [name |-> nm, typ |-> ty, help |-> c.help, st |-> st]))

InfoSeries(ls) == [labels |-> ls, loose |-> FALSE, val |-> "1", count |-> 0, sum |-> "", buckets |-> <<>>,
                   native |-> FALSE, schema |-> 0, zero |-> 0, pos |-> {}, neg |-> {}, anyBuckets |-> FALSE]

(* result: [cache, fams]; a family = [names, typ, help, series, optional]      *)
Scrape(env, streams, cache) ==
  LET w == Walk(env, streams, cache, <<>>)
      sh == w.shown
      single == Len(env.insts) = 1
      fam(nm) == LET es == SelectSeq(sh, LAMBDA e : e.name = nm)
                 IN [names |-> IF single THEN Names(env.o, InstOf(env, es[1].st.inst)) ELSE {nm},
                     typ |-> es[1].typ, help |-> es[1].help, optional |-> FALSE,
                     series |-> UNION {{XSeries(env, es[i].st, es[i].st.points[k]) : k \in 1..Len(es[i].st.points)}
                                       : i \in 1..Len(es)}]
      target == IF env.o.noTarget THEN {}
                ELSE {[names |-> {"target_info"}, typ |-> "gauge", help |-> "Target metadata", optional |-> FALSE,
                       series |-> {InfoSeries(Labels(env.o, env.res))}]}
      shownScopes == {sh[i].st.scope : i \in 1..Len(sh)}
      allScopes == {streams[i].scope : i \in 1..Len(streams)}
      (* scope info for every scope with an exposed series; a scope whose instruments  *)
      (* were all dropped may or may not have one                                       *)
      scopeInfo == IF env.o.noScope \/ allScopes = {} THEN {}
                   ELSE {[names |-> {"otel_scope_info"}, typ |-> "gauge", help |-> "Instrumentation Scope metadata",
                          optional |-> shownScopes = {},
                          series |-> {InfoSeries(ScopeLabels(env.o, s)) : s \in shownScopes},
                          optSeries |-> {InfoSeries(ScopeLabels(env.o, s)) : s \in allScopes \ shownScopes}]}
  IN [cache |-> w.cache,
      fams |-> {fam(nm) : nm \in {sh[i].name : i \in 1..Len(sh)}} \cup target,
      scopeInfo |-> scopeInfo]

(* ---------------------------------------------------------------- matching   *)
(* obs = what a real scrape exposed (projection written by the harness):       *)
(* [panic, gerr, invalid, fams: seq of [name, typ, help, series: seq of        *)
(*   [labels: seq of <<n, v>>, val, count, sum, buckets, native, schema, zero, pos, neg]]] *)
SeriesLabelsOK(x, s) ==
  LET ol == Range(s.labels) IN
  /\ Cardinality({l[1] : l \in ol}) = Len(s.labels)
  /\ \A l \in x.labels : (~x.loose \/ l.n = "vinst") => \E q \in ol : q[1] = l.n /\ q[2] \in l.vs
  /\ ~x.loose => {l[1] : l \in ol} = LabelNames(x.labels)
SeriesValueOK(x, s) ==
  /\ s.val = x.val /\ s.count = x.count /\ s.sum = x.sum /\ s.buckets = x.buckets /\ s.native = x.native
  /\ x.native => /\ s.schema = x.schema /\ s.zero = x.zero
                 /\ x.anyBuckets \/ (Range(s.pos) = x.pos /\ Range(s.neg) = x.neg)
SeriesOK(x, s) == SeriesLabelsOK(x, s) /\ SeriesValueOK(x, s)

(* first clause that fails for an expected family against the observed list    *)
FamilyVerdict(x, obsFams) ==
  LET cands == {f \in Range(obsFams) : f.name \in x.names} IN
  IF cands = {} THEN "missing-family"
  ELSE LET f == CHOOSE f \in cands : TRUE
           opt == IF "optSeries" \in DOMAIN x THEN x.optSeries ELSE {} IN
       IF Cardinality(cands) > 1 THEN "split-family"
       ELSE IF f.typ # x.typ THEN "type"
       ELSE IF f.help # x.help THEN "help"
       ELSE IF \E xs \in x.series : ~\E s \in Range(f.series) : SeriesLabelsOK(xs, s) THEN "missing-series"
       ELSE IF \E s \in Range(f.series) : ~\E xs \in x.series \cup opt : SeriesLabelsOK(xs, s) THEN "extra-series"
       ELSE IF Len(f.series) > Cardinality(x.series) + Cardinality(opt) THEN "extra-series"
       ELSE IF \E xs \in x.series : ~\E s \in Range(f.series) : SeriesOK(xs, s) THEN "value"
       ELSE "ok"

(* verdict for a whole scrape: [why |-> "ok" or the first broken clause, fam |-> names]  *)
Verdict(exp, obs) ==
  LET xf == exp.fams \cup {x \in exp.scopeInfo : ~x.optional}
      allx == exp.fams \cup exp.scopeInfo
      bad == {x \in xf : FamilyVerdict(x, obs.fams) # "ok"}
      optbad == {x \in exp.scopeInfo : x.optional /\ FamilyVerdict(x, obs.fams) \notin {"ok", "missing-family"}}
      extra == {f \in Range(obs.fams) : ~\E x \in allx : f.name \in x.names}
  IN IF obs.panic # "" THEN [why |-> "panic", fam |-> {}]
     ELSE IF obs.gerr # "" THEN [why |-> "registry-rejects", fam |-> {}]
     ELSE IF obs.invalid # <<>> THEN [why |-> "invalid-name", fam |-> Range(obs.invalid)]
     ELSE IF bad # {} THEN LET x == CHOOSE x \in bad : TRUE IN [why |-> FamilyVerdict(x, obs.fams), fam |-> x.names]
     ELSE IF optbad # {} THEN [why |-> "scope-info", fam |-> {"otel_scope_info"}]
     ELSE IF extra # {} THEN [why |-> "extra-family", fam |-> {f.name : f \in extra}]
     ELSE [why |-> "ok", fam |-> {}]
=============================================================================
