----------------------------- MODULE PromModel -----------------------------
(* Reference model of the OpenTelemetry -> Prometheus exposition (C18).          *)
(* Transcribed from the property statement, the OTel "Prometheus and             *)
(* OpenMetrics compatibility" rules and the documented exporter options -- not   *)
(* from exporter.go.  Pure operators only; PromExport.tla explores them with     *)
(* TLC, Trace_PromExport.tla validates real scrapes against them.                *)
(*                                                                               *)
(* Names, namespaces and attribute keys are TOKEN sequences.  A token is         *)
(*   [c |-> class, s |-> concrete text]   with classes                           *)
(*   "w"     lower-case word that contains neither "total" nor a unit word       *)
(*   "W"     word with upper-case letters (case matters: never a suffix word)    *)
(*   "d"     ONE digit                                                           *)
(*   "total" the word total            "u"  a unit word (s = seconds, bytes ...) *)
(*   "sep"   one of _ . - /            "colon" the character :                   *)
(*   "bad"   any other single character (keys and namespaces only)               *)
(* The rules work on classes, the expected strings are rendered from s, so the   *)
(* model yields concrete Prometheus names.                                       *)
EXTENDS Naturals, Integers, Sequences, FiniteSets, TLC

TOTAL == [c |-> "total", s |-> "total"]
US == [c |-> "sep", s |-> "_"]
UnitTok(u) == [c |-> "u", s |-> u]
IsSep(t) == t.c = "sep"
Range(f) == {f[i] : i \in DOMAIN f}

RECURSIVE Render(_)
Render(toks) == IF toks = <<>> THEN "" ELSE Head(toks).s \o Render(Tail(toks))

(* ---------------------------------------------------------------- units      *)
(* OTel unit (UCUM) -> Prometheus unit word.  "1" -> ratio and "%" -> percent   *)
(* are the special cases named by the compatibility spec.                       *)
UnitWord ==
  [d |-> "days", h |-> "hours", min |-> "minutes", s |-> "seconds", ms |-> "milliseconds",
   us |-> "microseconds", ns |-> "nanoseconds",
   By |-> "bytes", KiBy |-> "kibibytes", MiBy |-> "mebibytes", GiBy |-> "gibibytes", TiBy |-> "tibibytes",
   KBy |-> "kilobytes", MBy |-> "megabytes", GBy |-> "gigabytes", TBy |-> "terabytes",
   m |-> "meters", V |-> "volts", A |-> "amperes", J |-> "joules", W |-> "watts", g |-> "grams",
   Cel |-> "celsius", Hz |-> "hertz"] @@ ("1" :> "ratio") @@ ("%" :> "percent")

(* unit words that textually end with another unit word *)
Longer == {<<a \o "seconds", "seconds">> : a \in {"milli", "micro", "nano"}}
          \cup {<<a \o "bytes", "bytes">> : a \in {"kibi", "mebi", "gibi", "tibi", "kilo", "mega", "giga", "tera"}}
TokEndsWith(t, uw) == t.c = "u" /\ (t.s = uw \/ <<t.s, uw>> \in Longer)

(* ---------------------------------------------------------------- options    *)
(* o = [scheme, noUnits, noSuffix, ns, noTarget, noScope, resConst, resKeys]    *)
Legacy(o) == o.scheme = "legacy"

(* legacy metric-name escaping: every character outside [a-zA-Z0-9_:] -> "_",  *)
(* a leading digit -> "_".  (Valid instrument names only contain letters,      *)
(* digits and the 4 separators; a namespace is an arbitrary string.)            *)
EscName(o, toks) == IF Legacy(o)
                    THEN [i \in 1..Len(toks) |-> IF toks[i].c \in {"sep", "bad"} \/ (toks[i].c = "d" /\ i = 1)
                                                 THEN US ELSE toks[i]]
                    ELSE toks

(* WithNamespace: escaped like a name, a trailing "_" is added unless present  *)
NsToks(o) == IF o.ns = <<>> THEN <<>>
             ELSE LET e == EscName(o, o.ns) IN
                  IF e[Len(e)] = US THEN e ELSE Append(e, US)

PromType(data) == CASE data = "counter" -> "counter" [] data = "gauge" -> "gauge"
                    [] data \in {"hist", "exphist"} -> "histogram"
DataOf(kind) == CASE kind \in {"counter", "fcounter", "ocounter", "ofcounter"} -> "counter"
                  [] kind \in {"updown", "fupdown", "oupdown", "ofupdown", "gauge", "fgauge", "ogauge", "ofgauge"} -> "gauge"
                  [] kind \in {"hist", "fhist"} -> "hist"
                  [] kind \in {"exphist", "fexphist"} -> "exphist"

(* ---------------------------------------------------------------- names      *)
(* Where the rules leave a choice the model admits every answer; ch selects    *)
(* one.  Canon is the literal reading of the statement.                         *)
(*   emptyStem : a counter whose whole name is "total" may keep it as the stem *)
(*               (total_total) or use it as the suffix (total)                 *)
(*   glued     : a counter name that ends in "total" WITHOUT a delimiter       *)
(*               (subtotal) may or may not count as carrying the suffix        *)
(*   flip      : "unless the name already contains the unit": a name that      *)
(*               contains the unit word NOT as a delimited suffix may or may   *)
(*               not get the suffix                                            *)
(*   trim      : delimiters left at the end of the stem before a suffix is     *)
(*               appended: kept ("none"), one removed when _total is appended  *)
(*               ("one"), all removed ("all")                                   *)
(*   collapse  : runs of "_" SHOULD/MAY be collapsed                           *)
Choices == [emptyStem : BOOLEAN, glued : BOOLEAN, flip : BOOLEAN, collapse : BOOLEAN, trim : {"none", "one", "all"}]
Canon == [emptyStem |-> FALSE, glued |-> FALSE, flip |-> FALSE, collapse |-> FALSE, trim |-> "none"]

RECURSIVE Collapse(_)
Collapse(toks) == IF Len(toks) < 2 THEN toks
                  ELSE IF toks[1] = US /\ toks[2] = US THEN Collapse(Tail(toks))
                  ELSE <<Head(toks)>> \o Collapse(Tail(toks))

RECURSIVE TrailSeps(_)
TrailSeps(s) == IF s = <<>> THEN 0 ELSE IF ~IsSep(s[Len(s)]) THEN 0 ELSE 1 + TrailSeps(SubSeq(s, 1, Len(s) - 1))

AddTotal(o, in) == DataOf(in.kind) = "counter" /\ ~o.noSuffix
UnitOf(o, in) == IF ~o.noUnits /\ in.unit \in DOMAIN UnitWord THEN UnitWord[in.unit] ELSE ""

NameToks(o, in, ch) ==
  LET E == EscName(o, in.toks)
      n == Len(E)
      addTotal == AddTotal(o, in)
      uw == UnitOf(o, in)
      endsTotal == n >= 1 /\ E[n].c = "total"
      delimited == endsTotal /\ n >= 2 /\ IsSep(E[n - 1])
      (* the name with a carried "total" removed *)
      base == IF addTotal /\ endsTotal /\ n >= 2 /\ (delimited \/ ch.glued) THEN SubSeq(E, 1, n - 1)
              ELSE IF addTotal /\ endsTotal /\ n = 1 /\ ch.emptyStem THEN <<>>
              ELSE E
      k == TrailSeps(base)
      d0 == IF addTotal /\ delimited THEN 1 ELSE 0             \* the delimiter that belonged to "_total"
      extra == CASE ch.trim = "none" -> 0
                 [] ch.trim = "one" -> (IF addTotal /\ d0 = 0 /\ k >= 1 THEN 1 ELSE 0)
                 [] ch.trim = "all" -> (IF addTotal \/ uw # "" THEN k - d0 ELSE 0)
      stem == SubSeq(base, 1, Len(base) - d0 - extra)
      m == Len(stem)
      carriesUnit == uw # "" /\ m >= 1 /\ stem[m] = UnitTok(uw) /\ (m = 1 \/ IsSep(stem[m - 1]))
      textEnds == uw # "" /\ m >= 1 /\ TokEndsWith(stem[m], uw)
      contains == uw # "" /\ \E i \in 1..m : TokEndsWith(stem[i], uw)
      addUnit == /\ uw # "" /\ ~carriesUnit
                 /\ (contains => (IF ch.flip THEN textEnds ELSE ~textEnds))
      sufs == (IF addUnit THEN <<US, UnitTok(uw)>> ELSE <<>>) \o (IF addTotal THEN <<US, TOTAL>> ELSE <<>>)
      tail == IF stem = <<>> /\ sufs # <<>> THEN Tail(sufs) ELSE sufs
      full == NsToks(o) \o stem \o tail
  IN IF ch.collapse THEN Collapse(full) ELSE full

Name(o, in, ch) == Render(NameToks(o, in, ch))

(* the statement's clauses about names, as predicates over a token sequence     *)
LegalName(o, toks) ==
  /\ toks # <<>>
  /\ Legacy(o) => /\ toks[1].c \in {"w", "W", "total", "u", "sep", "colon"}
                  /\ \A i \in 1..Len(toks) : toks[i].c # "bad" /\ (IsSep(toks[i]) => toks[i] = US)
EndsWithTotal(toks) == LET n == Len(toks) IN n >= 1 /\ toks[n] = TOTAL /\ (n = 1 \/ toks[n - 1] = US)
(* position just before the _total suffix *)
BeforeTotal(toks, addTotal) == IF addTotal /\ Len(toks) >= 2 THEN SubSeq(toks, 1, Len(toks) - 2) ELSE toks
EndsWithUnit(toks, uw) == LET n == Len(toks) IN n >= 1 /\ TokEndsWith(toks[n], uw)
Duplicated(toks, t) == LET n == Len(toks) IN n >= 4 /\ toks[n] = t /\ toks[n - 1] = US /\ toks[n - 2] = t /\ IsSep(toks[n - 3])

NameClauses(o, in, ch) ==
  LET t == NameToks(o, in, ch)
      addTotal == AddTotal(o, in)
      uw == UnitOf(o, in)
      E == EscName(o, in.toks)
      hadTwice(x) == \E i \in 1..Len(E) : \/ (i + 2 <= Len(E) /\ E[i] = x /\ IsSep(E[i + 1]) /\ E[i + 2] = x)
                                            \/ (i + 1 <= Len(E) /\ E[i] = x /\ E[i + 1] = x)   \* glued: totaltotal
      inName == uw # "" /\ \E i \in 1..Len(E) : TokEndsWith(E[i], uw)
      (* a suffix word followed by stray delimiters (seconds. / foo_total_): whether the name "already  *)
      (* carries" the suffix is not decided by the statement                                             *)
      stray == TrailSeps(E) > 0
  IN /\ LegalName(o, t)
     /\ addTotal => EndsWithTotal(t)
     /\ (uw # "" /\ ~inName) => EndsWithUnit(BeforeTotal(t, addTotal), uw)   \* unit, then _total last
     /\ (addTotal /\ ~hadTwice(TOTAL) /\ Len(E) > 1 /\ ~stray) => ~Duplicated(t, TOTAL)
     /\ (uw # "" /\ ~hadTwice(UnitTok(uw)) /\ ~stray) => ~Duplicated(BeforeTotal(t, addTotal), UnitTok(uw))

(* ---------------------------------------------------------------- labels     *)
(* legacy label names: [a-zA-Z_][a-zA-Z0-9_]* ; anything else -> "_"           *)
SanLabel(k) == Render([i \in 1..Len(k) |-> IF k[i].c \in {"sep", "bad", "colon"} \/ (k[i].c = "d" /\ i = 1)
                                           THEN US ELSE k[i]])
LabelName(o, k) == IF ~Legacy(o) THEN Render(k) ELSE SanLabel(k)
(* an attribute is [k, t, v, r, f, n]: f = removed from the stream by the view's attribute filter (it is then  *)
(* only visible as a "filtered attribute" of exemplars), n = number of runes of key + value text               *)
Kept(as) == SelectSeq(as, LAMBDA a : ~a.f)
Filt(as) == SelectSeq(as, LAMBDA a : a.f)
HasColonKey(o, as) == Legacy(o) /\ \E i \in 1..Len(as) : \E j \in 1..Len(as[i].k) : as[i].k[j].c = "colon"

RECURSIVE JoinV(_)
JoinV(as) == IF as = <<>> THEN "" ELSE IF Len(as) = 1 THEN as[1].v ELSE as[1].v \o ";" \o JoinV(Tail(as))

(* as: attributes ordered by original key.  Keys that collide after            *)
(* sanitisation are merged, values ";"-joined in a deterministic order: by     *)
(* original key (OTel rule) or sorted (documented exporter choice); r = rank   *)
(* of the value text within the set.                                           *)
Labels(o, as) ==
  {LET grp == SelectSeq(as, LAMBDA a : LabelName(o, a.k) = n)
   IN [n |-> n, vs |-> {JoinV(grp), JoinV(SortSeq(grp, LAMBDA a, b : a.r < b.r))}]
   : n \in {LabelName(o, a.k) : a \in Range(as)}}

Lab(n, v) == [n |-> n, vs |-> {v}]
LabelNames(ls) == {l.n : l \in ls}

(* an instrumentation scope is identified by (name, version, schema URL, attributes); env.scopes lists the    *)
(* scopes whose identity is not the default (name = id, version = "v" \o id, no schema URL, no attributes).   *)
(* The scope labels carry name and version only, so two scopes may have the same labels.                      *)
ScopeRec(env, sid) == IF \E i \in 1..Len(env.scopes) : env.scopes[i].id = sid
                      THEN env.scopes[CHOOSE i \in 1..Len(env.scopes) : env.scopes[i].id = sid]
                      ELSE [id |-> sid, name |-> sid, version |-> "v" \o sid, url |-> "", attrs |-> <<>>, ill |-> ""]
ScopeLabels(env, sid) == IF env.o.noScope THEN {}
                         ELSE LET r == ScopeRec(env, sid) IN {Lab("otel_scope_name", r.name), Lab("otel_scope_version", r.version)}
(* otel_scope_info additionally carries the scope's attributes *)
ScopeInfoLabels(env, sid) == ScopeLabels(env, sid) \cup Labels(env.o, ScopeRec(env, sid).attrs)
(* labels a series MAY carry in addition (the later revision of the compatibility rules puts the whole scope   *)
(* identity on every series): otel_scope_schema_url, otel_scope_<attribute>                                      *)
OptScopeLabels(env, sid) ==
  IF env.o.noScope THEN {}
  ELSE LET r == ScopeRec(env, sid) IN
       (IF r.url = "" THEN {} ELSE {Lab("otel_scope_schema_url", r.url)})
       \cup {Lab("otel_scope_" \o LabelName(env.o, r.attrs[i].k), r.attrs[i].v) : i \in 1..Len(r.attrs)}
ConstLabels(o, res) == IF o.resConst THEN Labels(o, SelectSeq(res, LAMBDA a : \E i \in Range(o.resKeys) : res[i] = a)) ELSE {}

(* ---------------------------------------------------------------- values     *)
RECURSIVE SumTo(_, _)
SumTo(s, n) == IF n = 0 THEN 0 ELSE s[n] + SumTo(s, n - 1)

(* explicit-bucket histogram: Prometheus buckets are CUMULATIVE *)
CumBuckets(bounds, counts) == [i \in 1..Len(bounds) |-> [le |-> bounds[i], c |-> SumTo(counts, i)]]

(* exponential -> native histogram: OTel bucket i covers (b^i, b^(i+1)], the    *)
(* native bucket j covers (b^(j-1), b^j]: j = i + 1.  Prometheus schemas are    *)
(* -4..8: a point with a larger scale is merged down to schema 8                *)
(* (i -> floor(i / 2^(scale-8))); one with a smaller scale cannot be exposed.   *)
RECURSIVE Pow2(_)
Pow2(n) == IF n = 0 THEN 1 ELSE 2 * Pow2(n - 1)
Schema(scale) == IF scale > 8 THEN 8 ELSE scale
NativeIdx(scale, i) == (IF scale > 8 THEN i \div Pow2(scale - 8) ELSE i) + 1
RECURSIVE SumOver(_, _)
SumOver(cnt, K) == IF K = {} THEN 0 ELSE LET k == CHOOSE k \in K : TRUE IN cnt[k] + SumOver(cnt, K \ {k})
NativeBuckets(scale, off, cnt) ==
  LET js == {NativeIdx(scale, off + k - 1) : k \in {k \in 1..Len(cnt) : cnt[k] > 0}}
      tot(j) == SumOver(cnt, {k \in 1..Len(cnt) : NativeIdx(scale, off + k - 1) = j})
  IN {[i |-> j, c |-> tot(j)] : j \in js}

(* ---------------------------------------------------------------- deviations *)
(* Behaviours of the unchanged exporter that contradict the rules above, each  *)
(* described exactly so that a real scrape is attributed to a deviation only   *)
(* when the deviation explains it completely (see known_findings/C18.json).    *)
(*   EmptyStemPanic : a counter named exactly "total" (suffixes on) panics     *)
(*   HelpEmptyFirst : a family first defined with an EMPTY description does     *)
(*                    not impose it: later instruments keep their own help and *)
(*                    the registry rejects the scrape                          *)
(*   ColonKey       : legacy scheme: ":" in an attribute key is not replaced;  *)
(*                    the series is not exposed                                *)
(*   ExpScaleDrop   : an exponential histogram point with scale > 8 is not     *)
(*                    exposed                                                  *)
(*   DupScopeInfo   : two scopes that differ only in schema URL get two         *)
(*                    identical otel_scope_info series: the registry rejects   *)
(*                    the scrape                                               *)
(*   DupScopeSeries : two scopes with equal name and version (different schema  *)
(*                    URL or attributes) that hold instruments of the same     *)
(*                    family: their series have identical labels, the registry *)
(*                    rejects the scrape                                       *)
Deviations == {"EmptyStemPanic", "HelpEmptyFirst", "ColonKey", "ExpScaleDrop", "DupScopeInfo", "DupScopeSeries"}

(* ---------------------------------------------------------------- one scrape *)
(* stream = [inst, scope, data, points]; point = [as, val, count, sum, counts, *)
(*           scale, zero, poff, pcnt, noff, ncnt, exs]  (the SDK's cumulative  *)
(*           view; exs = its exemplars [val, q, qok, trace, span])             *)
(* env = [o, res, insts, ases, bounds, qbounds, scopes, mark]; as = index into env.ases *)
InstOf(env, id) == CHOOSE in \in Range(env.insts) : in.id = id
InstIds(env) == {in.id : in \in Range(env.insts)}
NameMap(env, ch) == [id \in InstIds(env) |-> Name(env.o, InstOf(env, id), ch)]
NameMaps(env) == {NameMap(env, ch) : ch \in Choices}

(* every measurement of the harness carries vas = attribute set and, unless env.mark is off, vinst = instrument *)
Markers(env, id, a) == {Lab("vas", "a" \o ToString(a))} \cup (IF env.mark THEN {Lab("vinst", "i" \o ToString(id))} ELSE {})

(* ---------------------------------------------------------------- exemplars  *)
(* Rules (OTel compatibility + exporter): exemplars of monotonic sums and of explicit-bucket histograms are      *)
(* exposed (a counter holds ONE exemplar, a histogram one per bucket, in the bucket its value falls into) with    *)
(* the labels trace_id, span_id and the (sanitised) filtered attributes.  Prometheus limits the exemplar labels   *)
(* to 128 runes; trace_id/span_id take 63.  An exemplar that cannot be represented is left out (or exposed with   *)
(* fewer labels) -- the series itself is exposed and the scrape neither fails nor panics.  Gauges carry none;     *)
(* native histograms may.                                                                                         *)
RECURSIVE RuneSum(_)
RuneSum(as) == IF as = <<>> THEN 0 ELSE Head(as).n + RuneSum(Tail(as))
ExRunes(as) == 63 + RuneSum(Filt(as))
ExLabels(o, as) == {[ns |-> {SanLabel(a.k)} \cup (IF Legacy(o) THEN {} ELSE {Render(a.k)}), v |-> a.v] : a \in Range(Filt(as))}
ExSpec(env, data, as, exs) == [mode |-> CASE data = "counter" -> "one" [] data = "hist" -> "buckets" [] OTHER -> "any",
                               sdk |-> Range(exs), rep |-> ExRunes(as) <= 128, labels |-> ExLabels(env.o, as), qb |-> env.qbounds]
NoEx == [mode |-> "any", sdk |-> {}, rep |-> TRUE, labels |-> {}, qb |-> <<>>]

XSeries(env, st, p, dv) ==
  LET o == env.o
      as == env.ases[p.as]
      al == Labels(o, Kept(as))
      fixed == ScopeLabels(env, st.scope) \cup ConstLabels(o, env.res)
      (* an attribute whose sanitised key equals a scope / constant label: the rules do *)
      (* not say what happens; the series may be missing, only its values are checked   *)
      (* ILL-FORMED inputs the SDK accepts (attribute value / description / meter name, version or scope        *)
      (* attribute value that is not valid UTF-8: flags ill).  The statement quantifies over valid inputs: for   *)
      (* these only the unconditional clauses hold -- no panic, no race, the well-formed rest of the scrape is    *)
      (* exposed faithfully.  Their own series may be missing and are recognised by their markers only.           *)
      ill == InstOf(env, st.inst).ill \/ ScopeRec(env, st.scope).ill # "" \/ \E i \in 1..Len(as) : as[i].ill
      loose == ill \/ LabelNames(al) \cap LabelNames(fixed) # {}
      exp == st.data = "exphist"
      presence == IF ("ColonKey" \in dv /\ HasColonKey(o, as)) \/ ("ExpScaleDrop" \in dv /\ exp /\ p.scale > 8) THEN "absent"
                  ELSE IF loose \/ (exp /\ p.scale < -4) THEN "may" ELSE "must"
      base == [labels |-> al \cup Markers(env, st.inst, p.as) \cup fixed, opt |-> OptScopeLabels(env, st.scope),
               ex |-> ExSpec(env, st.data, as, p.exs), loose |-> loose, presence |-> presence,
               val |-> "", count |-> 0, sum |-> "", buckets |-> <<>>, native |-> FALSE,
               schema |-> 0, zero |-> 0, pos |-> {}, neg |-> {}]
  IN CASE st.data \in {"counter", "gauge"} -> [base EXCEPT !.val = p.val]
       [] st.data = "hist" -> [base EXCEPT !.count = p.count, !.sum = p.sum,
                                           !.buckets = CumBuckets(env.bounds, p.counts)]
       [] st.data = "exphist" -> [base EXCEPT !.count = p.count, !.sum = p.sum, !.native = TRUE,
                                              !.schema = Schema(p.scale), !.zero = p.zero,
                                              !.pos = NativeBuckets(p.scale, p.poff, p.pcnt),
                                              !.neg = NativeBuckets(p.scale, p.noff, p.ncnt)]

(* family cache: name -> (type, help), kept across scrapes.  First definition  *)
(* of a name wins: a later instrument of another type is dropped, a later      *)
(* description is replaced by the first.  eh = the help text the instrument's  *)
(* series are emitted with.                                                     *)
RECURSIVE Walk(_, _, _, _, _, _)
Walk(env, streams, cache, nm, dv, shown) ==
  IF streams = <<>> THEN [cache |-> cache, shown |-> shown]
  ELSE LET st == Head(streams)
           in == InstOf(env, st.inst)
           n == nm[st.inst]
           ty == PromType(st.data)
           hit == {c \in cache : c.name = n}
       IN IF hit = {} THEN Walk(env, Tail(streams), cache \cup {[name |-> n, typ |-> ty, help |-> in.desc]}, nm, dv,
                                Append(shown, [name |-> n, typ |-> ty, eh |-> in.desc, st |-> st]))
          ELSE LET c == CHOOSE c \in hit : TRUE
                   eh == IF "HelpEmptyFirst" \in dv /\ c.help = "" THEN in.desc ELSE c.help IN
               IF c.typ # ty THEN Walk(env, Tail(streams), cache, nm, dv, shown)
               ELSE Walk(env, Tail(streams), cache, nm, dv, Append(shown, [name |-> n, typ |-> ty, eh |-> eh, st |-> st]))

InfoSeries(ls, pres) == [labels |-> ls, opt |-> {}, ex |-> NoEx, loose |-> FALSE, presence |-> pres, val |-> "1", count |-> 0, sum |-> "",
                         buckets |-> <<>>, native |-> FALSE, schema |-> 0, zero |-> 0, pos |-> {}, neg |-> {}]

(* result: [cache, fams, panic, reject]; family = [name, typ, help, anyHelp, series];  *)
(* a series carries presence = "must" | "may"; absent ones are left out                  *)
Scrape(env, streams, cache, nm, dv) ==
  LET o == env.o
      w == Walk(env, streams, cache, nm, dv, <<>>)
      sh == w.shown
      fam(n) == LET es == SelectSeq(sh, LAMBDA e : e.name = n)
                    good == SelectSeq(es, LAMBDA e : e.eh = es[1].eh)   \* the registry keeps the first help of a scrape
                    all == UNION {{XSeries(env, good[i].st, good[i].st.points[k], dv) : k \in 1..Len(good[i].st.points)}
                                  : i \in 1..Len(good)}
                IN [name |-> n, typ |-> es[1].typ, help |-> es[1].eh, lax |-> FALSE,
                    anyHelp |-> \E i \in 1..Len(es) : InstOf(env, es[i].st.inst).ill,
                    series |-> {x \in all : x.presence # "absent"}]
      target == IF o.noTarget THEN {}
                ELSE {[name |-> "target_info", typ |-> "gauge", help |-> "", anyHelp |-> TRUE, lax |-> FALSE,
                       series |-> {InfoSeries(Labels(o, env.res), "must")}]}
      shownScopes == {sh[i].st.scope : i \in 1..Len(sh)}
      allScopes == {streams[i].scope : i \in 1..Len(streams)}
      (* scope info for every scope with an exposed instrument; a scope whose instruments  *)
      (* were all dropped may or may not have one                                           *)
      scopeInfo == IF o.noScope \/ allScopes = {} THEN {}
                   ELSE {[name |-> "otel_scope_info", typ |-> "gauge", help |-> "", anyHelp |-> TRUE,
                          (* an ill-formed scope may or may not get an info series, whatever it looks like *)
                          lax |-> \E s \in allScopes : ScopeRec(env, s).ill # "",
                          series |-> {InfoSeries(ScopeInfoLabels(env, s), "must") : s \in {z \in shownScopes : ScopeRec(env, z).ill = ""}}
                                     \cup {InfoSeries(ScopeInfoLabels(env, s), "may") : s \in
                                              {q \in allScopes \ shownScopes : \A z \in shownScopes : ScopeInfoLabels(env, z) # ScopeInfoLabels(env, q)}}]}
      (* two scopes with equal info labels: ONE scope info series (a set); the deviation emits it twice *)
      dupScope == ~o.noScope /\ \E s1, s2 \in allScopes : s1 # s2 /\ ScopeInfoLabels(env, s1) = ScopeInfoLabels(env, s2)
      (* series of different streams with identical labels.  If the optional scope labels tell them apart an    *)
      (* implementation can (must) keep them apart; otherwise the rules have no answer for this input and the   *)
      (* registry may reject the scrape (rejectMay)                                                             *)
      pts == UNION {{<<i, k>> : k \in 1..Len(sh[i].st.points)} : i \in 1..Len(sh)}
      ser(q) == XSeries(env, sh[q[1]].st, sh[q[1]].st.points[q[2]], dv)
      clash(q1, q2) == /\ q1[1] # q2[1] /\ sh[q1[1]].name = sh[q2[1]].name
                       /\ ser(q1).presence # "absent" /\ ser(q2).presence # "absent"
                       /\ ser(q1).labels = ser(q2).labels
      dupOptFams == {"dup:" \o sh[q1[1]].name : q1 \in {q1 \in pts : \E q2 \in pts : clash(q1, q2) /\ ser(q1).opt # ser(q2).opt}}
      dupHardFams == {"dup:" \o sh[q1[1]].name : q1 \in {q1 \in pts : \E q2 \in pts : clash(q1, q2) /\ ser(q1).opt = ser(q2).opt}}
      helpFams == {"help:" \o sh[i].name : i \in {i \in 1..Len(sh) : \E j \in 1..Len(sh) : sh[i].name = sh[j].name /\ sh[i].eh # sh[j].eh}}
      panic == "EmptyStemPanic" \in dv /\ \E i \in 1..Len(streams) :
                  LET in == InstOf(env, streams[i].inst) IN AddTotal(o, in) /\ EscName(o, in.toks) = <<TOTAL>>
  IN [cache |-> w.cache, fams |-> {fam(n) : n \in {sh[i].name : i \in 1..Len(sh)}} \cup target \cup scopeInfo,
      panic |-> panic,
      (* what the registry is expected to reject / may reject: "<dup|help>:<family>" as projected in obs.gfams *)
      rejectMay |-> IF env.mark THEN {} ELSE dupHardFams,
      reject |-> helpFams \cup (IF "DupScopeInfo" \in dv /\ dupScope THEN {"dup:otel_scope_info"} ELSE {})
                          \cup (IF "DupScopeSeries" \in dv /\ ~env.mark THEN dupOptFams ELSE {})]

(* ---------------------------------------------------------------- matching   *)
(* obs = what a real scrape exposed (projection written by the harness):       *)
(* [panic, gerr, gfams, invalid, fams: seq of [name, typ, help, series: seq of        *)
(*   [labels: seq of <<n, v>>, val, count, sum, buckets, native, schema, zero, pos, neg]]] *)
SeriesLabelsOK(x, s) ==
  LET ol == Range(s.labels) IN
  /\ Cardinality({l[1] : l \in ol}) = Len(s.labels)                         \* consistent: no label twice
  /\ \A l \in x.labels : (~x.loose \/ l.n \in {"vinst", "vas"}) => \E q \in ol : q[1] = l.n /\ q[2] \in l.vs
  /\ ~x.loose => /\ LabelNames(x.labels) \subseteq {l[1] : l \in ol}
                 /\ {l[1] : l \in ol} \subseteq LabelNames(x.labels) \cup LabelNames(x.opt)
                 /\ \A q \in ol : q[1] \notin LabelNames(x.labels) => \E l \in x.opt : l.n = q[1] /\ q[2] \in l.vs
SeriesValueOK(x, s) ==
  /\ s.val = x.val /\ s.count = x.count /\ s.sum = x.sum /\ s.buckets = x.buckets /\ s.native = x.native
  /\ x.native => (s.schema = x.schema /\ s.zero = x.zero /\ Range(s.pos) = x.pos /\ Range(s.neg) = x.neg)
(* exemplars: s.exs = seq of [b (bucket ordinal, 0 = not in a bucket), val, q, qok, labels]; q = 8 * value when that is an integer *)
ExBucket(qb, q) == IF \E k \in 1..Len(qb) : q <= qb[k]
                   THEN CHOOSE k \in 1..Len(qb) : q <= qb[k] /\ \A j \in 1..(k - 1) : q > qb[j]
                   ELSE Len(qb) + 1
ExMatch(x, e) ==
  LET ol == Range(e.labels)
      rest == {q \in ol : q[1] \notin {"trace_id", "span_id"}} IN
  /\ Cardinality({q[1] : q \in ol}) = Len(e.labels)
  /\ \E sx \in x.ex.sdk : e.val = sx.val /\ <<"trace_id", sx.trace>> \in ol /\ <<"span_id", sx.span>> \in ol
  /\ IF x.ex.rep
     THEN /\ \A l \in x.ex.labels : \E q \in rest : q[1] \in l.ns /\ q[2] = l.v
          /\ Cardinality(rest) = Cardinality(x.ex.labels)
     ELSE \A q \in rest : \E l \in x.ex.labels : q[1] \in l.ns          \* fewer / truncated labels
SeriesExOK(x, s) ==
  LET n == Len(s.exs) IN
  /\ \A i \in 1..n : ExMatch(x, s.exs[i])
  /\ CASE x.ex.mode = "one" -> (IF x.ex.rep /\ x.ex.sdk # {} THEN n = 1 ELSE n <= 1)
       [] x.ex.mode = "buckets" ->
            /\ \A i, j \in 1..n : s.exs[i].b = s.exs[j].b => i = j
            /\ \A i \in 1..n : s.exs[i].b >= 1 /\ (s.exs[i].qok => ExBucket(x.ex.qb, s.exs[i].q) = s.exs[i].b)
            /\ x.ex.rep => \A sx \in x.ex.sdk : sx.qok => \E i \in 1..n : s.exs[i].b = ExBucket(x.ex.qb, sx.q)
       [] OTHER -> TRUE
SeriesOK(x, s) == SeriesLabelsOK(x, s) /\ SeriesValueOK(x, s)

Must(x) == {xs \in x.series : xs.presence = "must"}

(* first clause that fails for an expected family against the observed list    *)
FamilyVerdict(x, obsFams) ==
  LET cands == {f \in Range(obsFams) : f.name = x.name} IN
  IF cands = {} THEN (IF Must(x) = {} THEN "ok" ELSE "missing-family")
  ELSE LET f == CHOOSE f \in cands : TRUE IN
       IF Cardinality(cands) > 1 THEN "split-family"
       ELSE IF f.typ # x.typ THEN "type"
       ELSE IF ~x.anyHelp /\ f.help # x.help THEN "help"
       ELSE IF \E xs \in Must(x) : ~\E s \in Range(f.series) : SeriesLabelsOK(xs, s) THEN "missing-series"
       ELSE IF x.lax THEN "ok"
       ELSE IF \E s \in Range(f.series) : ~\E xs \in x.series : SeriesLabelsOK(xs, s) THEN "extra-series"
       ELSE IF Len(f.series) > Cardinality(x.series) THEN "extra-series"
       ELSE IF \E s \in Range(f.series) : ~\E xs \in x.series : SeriesOK(xs, s) THEN "value"
       ELSE IF \E s \in Range(f.series) : ~\E xs \in x.series : SeriesOK(xs, s) /\ SeriesExOK(xs, s) THEN "exemplar"
       ELSE "ok"

(* verdict for a whole scrape: [why |-> "ok" or the first broken clause, fam |-> names]  *)
Verdict(exp, obs) ==
  LET bad == {x \in exp.fams : FamilyVerdict(x, obs.fams) # "ok"}
      extra == {f \in Range(obs.fams) : ~\E x \in exp.fams : f.name = x.name}
  IN IF obs.panic # "" THEN [why |-> IF exp.panic THEN "ok" ELSE "panic", fam |-> {}]
     ELSE IF exp.panic THEN [why |-> "no-panic", fam |-> {}]
     ELSE IF obs.gerr # "" /\ ~(Range(obs.gfams) \subseteq exp.reject \cup exp.rejectMay)
          THEN [why |-> "registry-rejects", fam |-> Range(obs.gfams) \ (exp.reject \cup exp.rejectMay)]
     ELSE IF ~(exp.reject \subseteq Range(obs.gfams)) THEN [why |-> "no-reject", fam |-> exp.reject \ Range(obs.gfams)]
     ELSE IF obs.invalid # <<>> THEN [why |-> "invalid-name", fam |-> Range(obs.invalid)]
     ELSE IF bad # {} THEN LET x == CHOOSE x \in bad : TRUE IN [why |-> FamilyVerdict(x, obs.fams), fam |-> {x.name}]
     ELSE IF extra # {} THEN [why |-> "extra-family", fam |-> {f.name : f \in extra}]
     ELSE [why |-> "ok", fam |-> {}]

(* ---------------------------------------------------------------- exporter lifecycle *)
(* A scrape BEFORE the exporter is registered with a MeterProvider (WithReader): there is no resource and no   *)
(* instrument yet -- nothing may be exposed (and nothing may be remembered: later scrapes are judged as usual). *)
(* A scrape AFTER MeterProvider.Shutdown: undocumented -- nothing, or the exposition of the last state.         *)
(* Always: no panic, accepted by the registry, legal names.                                                     *)
Unconditional(obs) ==
  IF obs.panic # "" THEN [why |-> "panic", fam |-> {}]
  ELSE IF obs.gerr # "" THEN [why |-> "registry-rejects", fam |-> Range(obs.gfams)]
  ELSE IF obs.invalid # <<>> THEN [why |-> "invalid-name", fam |-> Range(obs.invalid)]
  ELSE [why |-> "ok", fam |-> {}]
EmptyVerdict(obs) ==
  IF Unconditional(obs).why # "ok" THEN Unconditional(obs)
  ELSE IF obs.fams # <<>> THEN [why |-> "extra-family", fam |-> {obs.fams[i].name : i \in 1..Len(obs.fams)}]
  ELSE [why |-> "ok", fam |-> {}]

(* a scrape taken WHILE measurements are being recorded (exp = the exposition  *)
(* of the final state): no crash, accepted by the registry, legal names, and   *)
(* every family / series is one of the expected ones with the expected type,   *)
(* help and labels.  Values are in flux and not compared.                      *)
PartialVerdict(exp, obs) ==
  LET known(f) == {x \in exp.fams : x.name = f.name}
      badf == {f \in Range(obs.fams) :
                 \/ known(f) = {}
                 \/ \E x \in known(f) : \/ f.typ # x.typ \/ (~x.anyHelp /\ f.help # x.help)
                                        \/ ~x.lax /\ \E s \in Range(f.series) : ~\E xs \in x.series : SeriesLabelsOK(xs, s)
                                        \/ ~x.lax /\ Len(f.series) > Cardinality(x.series)}
  IN IF obs.panic # "" THEN [why |-> "panic", fam |-> {}]
     ELSE IF obs.gerr # "" THEN [why |-> "registry-rejects", fam |-> {}]
     ELSE IF obs.invalid # <<>> THEN [why |-> "invalid-name", fam |-> Range(obs.invalid)]
     ELSE IF badf # {} THEN [why |-> "unexpected-series", fam |-> {f.name : f \in badf}]
     ELSE [why |-> "ok", fam |-> {}]

(* ---------------------------------------------------------------- the collection behind a scrape *)
(* A scrape asks the exporter's reader for ONE collection; its outcome is (data, kind):                             *)
(*   ok           every callback and every producer succeeded                                                      *)
(*   partial      a NON-FATAL fault during the collection while the reader still produced data (the resource, the   *)
(*                scopes and the aggregated values of every instrument that holds any):                             *)
(*                  cb     an observable callback returned an error                                                 *)
(*                  cbctx  an observable callback returned a context error of a backend call of its own             *)
(*                         (deadline exceeded -- the collection itself was not cancelled)                           *)
(*                  prod   an external metric.Producer (WithProducer) returned an error                             *)
(*   unregistered the exporter has not been handed to a MeterProvider: no data                                      *)
(*   shutdown     the MeterProvider was shut down: no data                                                          *)
(* The statement promises, for any valid instruments, exposed values EQUAL to the SDK's aggregated values and the   *)
(* target / scope info series as configured.  A fault of one callback or producer does not take anything away from   *)
(* what the SDK aggregated: the duty of a scrape is the same for ok and partial -- everything the reader produced.    *)
(* Only a collection WITHOUT data exposes nothing (shutdown: nothing, or the exposition of the last state).          *)
(* (A scrape cannot cancel its collection: prometheus.Collector.Collect has no context.)                             *)
Faults == {"cb", "cbctx", "prod"}
CollectKind(phase, faults) == CASE phase = "unreg" -> "unregistered"
                                [] phase \in {"down", "done"} -> "shutdown"
                                [] faults = {} -> "ok"
                                [] OTHER -> "partial"
Duty(kind) == CASE kind \in {"ok", "partial"} -> "data"
                [] kind = "unregistered" -> "nothing"
                [] kind = "shutdown" -> "nothing-or-last"
=============================================================================
