--------------------------- MODULE MC_PromExport ---------------------------
(* constants are substituted by checks/c18.py (see configs there) *)
EXTENDS PromExport
MCOpts == @OPTS@
MCTemplates == @TEMPLATES@
MCASes == @ASES@
MCRecAS == @RECAS@
MCVals == @VALS@
MCRes == @RES@
MCBounds == <<5, 10>>
MCScopes == @SCOPES@
MCSpanFlags == @SPANFLAGS@
MCFaultSet == @FAULTS@
=============================================================================
