--------------------------- MODULE Trace_AttrSet ---------------------------
(* code -> spec: validates observations recorded from the real attribute      *)
(* package against AttrModel.  One line per step:                              *)
(*  New    {sc, kesc, vals, nregs} new scenario: kesc[k] = escaped text of key *)
(*                                rank k; vals = value pool [t, x, e, r]: e =  *)
(*                                the text of the value in the default         *)
(*                                encoding, r = its text in MarshalLog         *)
(*                                nregs = number of Set registers              *)
(*  Build  {dst, how, list, pred, obs{slice, after, dropped, len, selfEq}}     *)
(*  Filter {src, dst, pred, obs{slice, dropped, orig, selfEq}}                 *)
(*  Merge  {a, b, obs{seq}}                                                    *)
(*  Record {src, obs{idx, size}}  real map keyed by Equivalent(): 1-based      *)
(*                                insertion index of the entry hit (size+1=new)*)
(*  Cmp    {a, b, obs{eq, eqr, key}}                                           *)
(*  Obs    {src, obs{slice, len, iter, look, get, ghost, enc, mlog, mjson,     *)
(*                           selfEq}}                                          *)
(*  Enc    {src, obs{enc}}        Set.Encoded(DefaultEncoder()) alone          *)
(*  ItOpen {it, kind, a, b}       iterator variable it := regs[a].Iter()  or   *)
(*                                NewMergeIterator(regs[a], regs[b])           *)
(*  ItOp   {it, op, obs{b, i, a, n, s}}  one call on that iterator and what it *)
(*                                returned: Next -> b; Attribute / Label -> a  *)
(*                                (i = -1); Indexed* -> i, a; Len -> n;        *)
(*                                ToSlice -> s                                 *)
(* Lines recorded in the concurrent phase (several goroutines using the same   *)
(* immutable Sets at once, each distinct observation recorded once) are the    *)
(* same events and are judged by the same clauses: a concurrent observation    *)
(* must equal the sequential result.                                           *)
(* Registers hold the MODEL's sets (the oracle), never the observed ones.      *)
EXTENDS AttrModel, TraceKit

VARIABLES l, kesc, vals, regs, table, its
vars == <<l, kesc, vals, regs, table, its>>

NI == 6                              \* iterator variables per scenario
NoIt == [s |-> <<>>, P |-> {0}, m |-> FALSE]
EmptyIts == [i \in 1..NI |-> NoIt]
E == Trace[l]

(* report a broken clause; always TRUE so the trace is consumed to the end *)
Chk(c, kind, nan) == (~c) => Viol([line |-> l, sc |-> E.sc, ev |-> E.ev, kind |-> kind, nanslice |-> nan])

VText(a) == vals[CHOOSE i \in DOMAIN vals : vals[i].t = a.t /\ vals[i].x = a.x].e
VTexts(s) == [i \in DOMAIN s |-> VText(s[i])]
(* Set.MarshalLog: key -> Value.Emit() text, here as [key rank, text] in key order; vals[i].r is that text *)
RText(a) == vals[CHOOSE i \in DOMAIN vals : vals[i].t = a.t /\ vals[i].x = a.x].r
MLog(s) == [i \in DOMAIN s |-> [k |-> s[i].k, v |-> RText(s[i])]]
(* Set.MarshalJSON, decoded again by the harness: the contents.  JSON has no NaN / infinities and   *)
(* nothing documents what happens to them: Sets holding one are not judged on this clause           *)
NonFinite == {"nan", "nan2", "inf", "-inf"}
HasNonFinite(s) == \E i \in DOMAIN s : s[i].t \in {"f64", "f64s"} /\ \E j \in DOMAIN s[i].x : s[i].x[j] \in NonFinite

Init == l = 1 /\ kesc = <<>> /\ vals = <<>> /\ regs = <<>> /\ table = <<>> /\ its = EmptyIts

Is(ev) == l <= Len(Trace) /\ E.ev = ev
Adv == l' = l + 1

TNew == /\ Is("New")
        /\ kesc' = E.kesc /\ vals' = E.vals /\ regs' = [i \in 1..E.nregs |-> <<>>] /\ table' = <<>>
        /\ its' = EmptyIts /\ Adv

TBuild == /\ Is("Build")
          /\ LET c == Canon(E.list)
                 want == Keep(c, E.pred)
                 nan == HasNanSlice(want)
             IN /\ Chk(E.obs.slice = want, "slice", nan)
                /\ Chk(SameBag(E.obs.after, E.list), "lost", nan)
                /\ Chk(SameBag(E.obs.dropped, Drop(c, E.pred)), "dropped", nan)
                /\ Chk(E.obs.len = Len(want), "len", nan)
                /\ Chk(E.obs.selfEq, "selfeq", nan)
                /\ regs' = [regs EXCEPT ![E.dst] = want]
          /\ Adv /\ UNCHANGED <<kesc, vals, table, its>>

TFilter == /\ Is("Filter")
           /\ LET s == regs[E.src]
                  want == Keep(s, E.pred)
                  nan == HasNanSlice(want)
              IN /\ Chk(E.obs.slice = want, "slice", nan)
                 /\ Chk(SameBag(E.obs.dropped, Drop(s, E.pred)), "dropped", nan)
                 /\ Chk(E.obs.orig = s, "orig", nan)
                 /\ Chk(E.obs.selfEq, "selfeq", nan)
                 /\ regs' = [regs EXCEPT ![E.dst] = want]
           /\ Adv /\ UNCHANGED <<kesc, vals, table, its>>

TMerge == /\ Is("Merge")
          /\ Chk(E.obs.seq = Merge(regs[E.a], regs[E.b]), "merged", FALSE)
          /\ Adv /\ UNCHANGED <<kesc, vals, regs, table, its>>

(* the entry hit must hold the same Set; a new entry only if no entry holds it;  *)
(* +0/-0 inside float slices may go either way.  The table follows the real map. *)
TRecord == /\ Is("Record")
           /\ LET s == regs[E.src]
                  n == Len(table)
                  strict == {i \in 1..n : table[i] = s}
                  tol == {i \in 1..n : NormSet(table[i]) = NormSet(s)}
                  hit == E.obs.idx
              IN /\ Chk(hit = n + 1 => strict = {}, "table-split", HasNanSlice(s))
                 /\ Chk(hit # n + 1 => hit \in tol, "table-merge", HasNanSlice(s))
                 /\ table' = IF hit = n + 1 THEN Append(table, s) ELSE table
                 /\ Chk(E.obs.size = Len(table'), "table-size", HasNanSlice(s))
           /\ Adv /\ UNCHANGED <<kesc, vals, regs, its>>

TCmp == /\ Is("Cmp")
        /\ LET a == regs[E.a]
               b == regs[E.b]
               nan == HasNanSlice(a) \/ HasNanSlice(b)
           IN /\ Chk(MustEq(a, b) => E.obs.eq, "eq-missed", nan) /\ Chk(MustNe(a, b) => ~E.obs.eq, "eq-spurious", nan)
              /\ Chk(MustEq(a, b) => E.obs.eqr, "eq-missed", nan) /\ Chk(MustNe(a, b) => ~E.obs.eqr, "eq-spurious", nan)
              /\ Chk(MustEq(a, b) => E.obs.key, "eq-missed", nan) /\ Chk(MustNe(a, b) => ~E.obs.key, "eq-spurious", nan)
        /\ Adv /\ UNCHANGED <<kesc, vals, regs, table, its>>

TObs == /\ Is("Obs")
        /\ LET s == regs[E.src]
               nan == HasNanSlice(s)
           IN /\ Chk(E.obs.slice = s, "slice", nan)
              /\ Chk(E.obs.len = Len(s), "len", nan)
              /\ Chk(E.obs.iter = Indexed(s), "iter", nan)
              /\ Chk(E.obs.look = LookAll(s, Len(kesc)), "look", nan)
              /\ Chk(E.obs.get = GetAll(s), "get", nan)
              /\ Chk(~E.obs.ghost, "look", nan)
              /\ Chk(E.obs.enc = Enc(s, kesc, VTexts(s)), "enc", nan)
              /\ Chk(E.obs.mlog = MLog(s), "marshal-log", nan)
              /\ Chk(~HasNonFinite(s) => (~E.obs.mjson.err /\ E.obs.mjson.attrs = s), "marshal-json", nan)
              /\ Chk(E.obs.selfEq, "selfeq", nan)
        /\ Adv /\ UNCHANGED <<kesc, vals, regs, table, its>>

TEnc == /\ Is("Enc")
        /\ LET s == regs[E.src]
           IN Chk(E.obs.enc = Enc(s, kesc, VTexts(s)), "enc", HasNanSlice(s))
        /\ Adv /\ UNCHANGED <<kesc, vals, regs, table, its>>

(* ---- iterator histories: the positions are AttrModel's (ItStep, ItNextAdm, ...) ---- *)
TItOpen == /\ Is("ItOpen")
           /\ its' = [its EXCEPT ![E.it] = [s |-> IF E.kind = "merge" THEN Merge(regs[E.a], regs[E.b]) ELSE regs[E.a],
                                             P |-> ItFresh, m |-> E.kind = "merge"]]
           /\ Adv /\ UNCHANGED <<kesc, vals, regs, table>>

ItKind(it, k) == IF it.m THEN "merge-" \o k ELSE "iter-" \o k

TItOp == /\ Is("ItOp")
         /\ LET it == its[E.it]
                s == it.s
                P == it.P
                nan == HasNanSlice(s)
                o == E.obs
            IN CASE E.op = "Next" ->
                      /\ Chk(o.b \in ItNextAdm(s, P), ItKind(it, "next"), nan)
                      /\ its' = [its EXCEPT ![E.it].P = IF o.b \in ItNextAdm(s, P) THEN ItNextTo(s, P, o.b) ELSE ItResync(s, o.b)]
                 [] E.op \in {"Attribute", "IndexedAttribute", "Label", "IndexedLabel"} ->
                      (* defined only after Next returned true; elsewhere the documentation is silent *)
                      IF ItAtElem(s, P)
                      THEN /\ Chk(ItAttrTo(s, P, o) # {}, ItKind(it, "attr"), nan)
                           /\ Chk((E.op \in {"IndexedAttribute", "IndexedLabel"}) = (o.i # -1), ItKind(it, "attr"), nan)
                           /\ its' = [its EXCEPT ![E.it].P = IF ItAttrTo(s, P, o) # {} THEN ItAttrTo(s, P, o) ELSE P]
                      ELSE UNCHANGED its
                 [] E.op = "Len" ->
                      /\ Chk(o.n = Len(s), ItKind(it, "len"), nan)
                      /\ UNCHANGED its
                 [] E.op = "ToSlice" ->
                      /\ Chk(o.s = s, ItKind(it, "toslice"), nan)
                      /\ its' = [its EXCEPT ![E.it].P = ItAfterSlice(s)]
         /\ Adv /\ UNCHANGED <<kesc, vals, regs, table>>

TDone == l = Len(Trace) + 1 /\ Accepted(l) /\ UNCHANGED vars

Next == TNew \/ TBuild \/ TFilter \/ TMerge \/ TRecord \/ TCmp \/ TObs \/ TEnc \/ TItOpen \/ TItOp \/ TDone
Spec == Init /\ [][Next]_vars

(* the model-side statement holds at every step of every real trace *)
Inv == /\ \A i \in DOMAIN regs : IsSet(regs[i])
       /\ \A i \in DOMAIN table : IsSet(table[i])
       /\ \A i \in 1..NI : IsSet(its[i].s) /\ its[i].P \subseteq 0..(Len(its[i].s) + 1)
=============================================================================
