---------------------------- MODULE MC_AttrSet ----------------------------
EXTENDS AttrSet
MCVals == @VALS@
MCPreds == @PREDS@
MCOps == @OPS@
MCBulks == @BULKS@
MCNRoutes == @NROUTES@
=============================================================================
