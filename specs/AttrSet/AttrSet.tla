------------------------------ MODULE AttrSet ------------------------------
(* State machine over AttrModel for exhaustive exploration by TLC (C05).       *)
(* A caller accumulates key-values in a slice (pend), builds Sets from it in   *)
(* every documented way, filters and merges the current Set, compares it with  *)
(* a freshly built one and records it in a StreamTable keyed by Equivalent().  *)
(* Every explored edge is printed (EDGE json) and replayed on the real package.*)
EXTENDS AttrModel, TLC, Json

CONSTANTS NKeys,      \* key ranks are 1..NKeys (rank 1 is the empty key)
          Vals,       \* values: records [t, x]
          Preds,      \* filter predicates
          Ops,        \* enabled action kinds
          Bulks,      \* prepared slices appended in one step (boundary sizes 0..13); {} when unused
          NRoutes,    \* [type |-> number of public constructor routes that write a value of that type]
          MaxList,    \* bound on the caller's slice
          MinList,    \* builds need at least this many items (0 when exhaustive; steers -simulate)
          MaxOps      \* bound on the number of non-Push actions

VARIABLES pend,       \* the caller's slice being accumulated
          cur,        \* the current Set (canonical sequence)
          table,      \* StreamTable
          nops,
          act,        \* history: the action taken (hidden by VIEW)
          out         \* history: what the action must have returned / left behind
vars == <<pend, cur, table, nops, act, out>>

Attrs == {[k |-> k, t |-> v.t, x |-> v.x] : k \in 1..NKeys, v \in Vals}

(* observable outputs of an action; c is the Set the action produced *)
Out(c) == [len |-> Len(c), look |-> LookAll(c, NKeys), iter |-> Indexed(c), get |-> GetAll(c), selfEq |-> TRUE,
           encEq |-> TRUE, jsonEq |-> TRUE,
           bag |-> <<>>, dropped |-> <<>>, orig |-> <<>>, merged |-> <<>>, eq |-> TRUE]

Init == /\ pend = <<>> /\ cur = <<>> /\ table = <<>> /\ nops = 0
        /\ act = [op |-> "Init"] /\ out = Out(<<>>)

Push(a) == /\ "Push" \in Ops /\ nops < MaxOps /\ Len(pend) < MaxList
           /\ pend' = Append(pend, a)
           /\ act' = [op |-> "Push", a |-> a]
           /\ out' = Out(cur)
           /\ UNCHANGED <<cur, table, nops>>

(* the caller starts from a whole prepared slice (n distinct keys in scrambled order plus        *)
(* superseded duplicates): drives every distinct-count 0..13 through each constructor and Filter *)
Bulk(l) == /\ "Bulk" \in Ops /\ nops = 0 /\ pend = <<>> /\ l # <<>>
           /\ pend' = l
           /\ act' = [op |-> "Bulk", items |-> l]
           /\ out' = Out(cur)
           /\ UNCHANGED <<cur, table, nops>>

Op == nops < MaxOps /\ nops' = nops + 1

(* Constructor routes.  The same typed value can be written through several public constructors  *)
(* (attribute.X(k, v), Key(k).X(v), KeyValue{k, XValue(v)}; Int / Int64, IntSlice / Int64Slice,   *)
(* Stringer / String; nil, empty, zero-length-resliced and spare-capacity slices).  In the model  *)
(* they are ONE value: the route is a dimension of the concretization only.  Twin builds the     *)
(* one-attribute Set twice, through routes r1 and r2: the two Sets are Equal (both ways), share  *)
(* one StreamTable entry and have the same encoding and JSON.                                     *)
Twin(a, r1, r2) == /\ "Twin" \in Ops /\ nops = 0 /\ pend = <<>> /\ Op
                   /\ cur' = Canon(<<a>>)
                   /\ table' = Bump(Bump(table, cur'), cur')
                   /\ act' = [op |-> "Twin", a |-> a, r1 |-> r1, r2 |-> r2]
                   /\ out' = [Out(cur') EXCEPT !.eq = EqOK(cur', cur', TRUE)]
                   /\ UNCHANGED pend

(* NewSet / NewSetWithSortable: the Set is Canon(pend); the caller's slice still holds every input *)
New(how) == /\ "New" \in Ops /\ Op /\ Len(pend) >= MinList
            /\ cur' = Canon(pend) /\ pend' = <<>>
            /\ act' = [op |-> "New", how |-> how]
            /\ out' = [Out(cur') EXCEPT !.bag = pend]
            /\ UNCHANGED table

(* NewSetWithFiltered / NewSetWithSortableFiltered *)
NewF(how, p) == /\ "NewF" \in Ops /\ Op /\ Len(pend) >= MinList
                /\ cur' = Keep(Canon(pend), p) /\ pend' = <<>>
                /\ act' = [op |-> "NewF", how |-> how, p |-> p]
                /\ out' = [Out(cur') EXCEPT !.bag = pend, !.dropped = Drop(Canon(pend), p)]
                /\ UNCHANGED table

(* Set.Filter: kept part, dropped part, original untouched *)
Filter(p) == /\ "Filter" \in Ops /\ Op
             /\ cur' = Keep(cur, p)
             /\ act' = [op |-> "Filter", p |-> p]
             /\ out' = [Out(cur') EXCEPT !.dropped = Drop(cur, p), !.orig = cur]
             /\ UNCHANGED <<pend, table>>

(* NewMergeIterator(cur, NewSet(pend)); the merged sequence becomes the current Set *)
MergeNew == /\ "Merge" \in Ops /\ Op /\ Len(pend) >= MinList
            /\ cur' = Merge(cur, Canon(pend)) /\ pend' = <<>>
            /\ act' = [op |-> "Merge"]
            /\ out' = [Out(cur') EXCEPT !.merged = cur', !.orig = cur]
            /\ UNCHANGED table

(* cur.Equals(NewSet(pend)), both directions, and Equivalent() == Equivalent() *)
Cmp == /\ "Cmp" \in Ops /\ Op /\ Len(pend) >= MinList
       /\ pend' = <<>>
       /\ act' = [op |-> "Cmp"]
       /\ out' = [Out(cur) EXCEPT !.eq = (cur = Canon(pend))]
       /\ UNCHANGED <<cur, table>>

(* table[cur.Equivalent()]++ *)
Record == /\ "Record" \in Ops /\ Op
          /\ table' = Bump(table, cur)
          /\ act' = [op |-> "Record"]
          /\ out' = Out(cur)
          /\ UNCHANGED <<pend, cur>>

BulkAny == \E l \in Bulks : Bulk(l)
TwinAny == \E a \in Attrs : \E r1, r2 \in 1..NRoutes[a.t] : r1 < r2 /\ Twin(a, r1, r2)

Next == \/ \E a \in Attrs : Push(a)
        \/ BulkAny \/ TwinAny
        \/ \E h \in {"NewSet", "Sortable"} : New(h)
        \/ \E h \in {"Filtered", "SortableFiltered"}, p \in Preds : NewF(h, p)
        \/ \E p \in Preds : Filter(p)
        \/ MergeNew \/ Cmp \/ Record
Spec == Init /\ [][Next]_vars

View == <<pend, cur, table, nops>>
St == [pend |-> pend, cur |-> cur, table |-> table, n |-> nops]
EmitEdge == PrintT("EDGE " \o ToJson([from |-> St, act |-> act', to |-> St', out |-> out']))

-----------------------------------------------------------------------------
(* the statement on the model *)
Inv == /\ IsSet(cur)                                   \* sorted, each key once
       /\ TableOK(table)                               \* one entry per distinct Set
       /\ \A i \in DOMAIN table : IsSet(table[i].s)
       /\ EqOK(cur, cur, TRUE)                         \* every Set equals itself

(* a built Set holds, for every key supplied, the value supplied last; nothing is lost:        *)
(* input = Set \cup superseded; filtering partitions without loss                              *)
BuildOK == [][act'.op \in {"New", "NewF"} =>
                LET c == Canon(pend) IN
                /\ IsSet(c) /\ KeysOf(c) = KeysOf(pend)
                /\ \A k \in KeysOf(pend) : At(c, k) = pend[LastIdx(pend, k)]
                /\ SameBag(c \o Superseded(pend), pend)
                /\ SameBag(cur' \o out'.dropped, c)
                /\ IsSet(cur')]_vars
FilterOK == [][act'.op = "Filter" => SameBag(cur' \o out'.dropped, cur) /\ IsSet(cur') /\ out'.orig = cur]_vars
MergeOK == [][act'.op = "Merge" =>
                /\ IsSet(cur') /\ KeysOf(cur') = KeysOf(cur) \cup KeysOf(pend)
                /\ \A k \in KeysOf(cur) : At(cur', k) = At(cur, k)]_vars
=============================================================================
