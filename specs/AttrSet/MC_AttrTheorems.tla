-------------------------- MODULE MC_AttrTheorems --------------------------
(* Model-level theorems about AttrModel (checked by TLC for all lists of at    *)
(* most MAXLEN items): the statement's "independent of input order and         *)
(* duplication", "no input value is lost", and the partition / merge laws.     *)
EXTENDS AttrModel, TLC

VARIABLE x
MaxLen == @MAXLEN@
V1 == [t |-> "i64", x |-> <<"1">>]
V2 == [t |-> "f64s", x |-> <<"nan">>]
V3 == [t |-> "f64s", x |-> <<"n0">>]
V4 == [t |-> "f64s", x |-> <<"p0">>]
Attrs3 == {[k |-> k, t |-> v.t, x |-> v.x] : k \in 1..3, v \in {V1, V2}}
Attrs2 == {[k |-> k, t |-> v.t, x |-> v.x] : k \in 1..2, v \in {V1, V3, V4}}
Lists(A, n) == UNION {[1..m -> A] : m \in 0..n}
Preds == {[kind |-> "allow", ks |-> <<1, 3>>, ts |-> <<>>], [kind |-> "deny", ks |-> <<2>>, ts |-> <<>>],
          [kind |-> "type", ks |-> <<>>, ts |-> <<"i64">>], [kind |-> "none", ks |-> <<>>, ts |-> <<>>],
          [kind |-> "nil", ks |-> <<>>, ts |-> <<>>]}

KeyMapOf(l) == [k \in KeysOf(l) |-> l[LastIdx(l, k)]]

(* sorted, each key once, value supplied last, nothing lost, idempotent, duplication-invariant *)
CanonLaws == \A l \in Lists(Attrs3, MaxLen) :
  LET c == Canon(l) IN
  /\ IsSet(c) /\ KeysOf(c) = KeysOf(l)
  /\ \A k \in KeysOf(l) : At(c, k) = l[LastIdx(l, k)]
  /\ SameBag(c \o Superseded(l), l)
  /\ Canon(c) = c /\ Canon(l \o l) = c /\ Canon(l \o c) = c
  /\ EqOK(c, c, TRUE) /\ ~MustNe(c, c)

(* identity is exactly "same key -> typed value mapping", whatever the order and duplication *)
OrderInsensitive == \A l, m \in Lists(Attrs2, MaxLen - 1) :
  /\ (KeyMapOf(l) = KeyMapOf(m)) <=> (Canon(l) = Canon(m))
  /\ MustNe(Canon(l), Canon(m)) => Canon(l) # Canon(m)
  /\ (Canon(l) # Canon(m) /\ ~MustNe(Canon(l), Canon(m))) =>
        \E i \in DOMAIN Canon(l) : Canon(l)[i].t = "f64s"      \* the tolerance is confined to float slices

(* filtering partitions, merging is a first-wins sorted union *)
FilterMergeLaws == \A l, m \in Lists(Attrs3, 2) : \A p \in Preds :
  LET a == Canon(l)
      b == Canon(m) IN
  /\ SameBag(Keep(a, p) \o Drop(a, p), a) /\ IsSet(Keep(a, p)) /\ IsSet(Drop(a, p))
  /\ \A i \in DOMAIN Keep(a, p) : Keeps(p, Keep(a, p)[i])
  /\ \A i \in DOMAIN Drop(a, p) : ~Keeps(p, Drop(a, p)[i])
  /\ IsSet(Merge(a, b)) /\ Merge(a, b) = Canon(b \o a)
  /\ Merge(a, a) = a /\ Merge(a, <<>>) = a /\ Merge(<<>>, b) = b
  /\ \A k \in 1..3 : Lookup(Merge(a, b), k) = (IF HasKey(a, k) THEN Lookup(a, k) ELSE Lookup(b, k))

(* iteration agrees with the contents: a fresh iterator driven to the end yields exactly the Set, *)
(* from position p the unvisited suffix; the end is absorbing; Get agrees with the positions      *)
IterLaws == \A l \in Lists(Attrs3, MaxLen - 1) :
  LET c == Canon(l)
      n == Len(c) IN
  /\ ItDrain(c, 0) = c
  /\ \A p \in 0..(n + 1) :
        /\ ItDrain(c, p) = SubSeq(c, p + 1, n)
        /\ ItMore(c, p) <=> p < n
        /\ ItStep(c, p) \in 0..(n + 1) /\ (p = n + 1 => ItStep(c, p) = p)
        /\ ItNextAdm(c, {p}) = {p < n} /\ ItNextTo(c, {p}, p < n) = {ItStep(c, p)} /\ ItNextTo(c, {p}, ~(p < n)) = {}
  /\ \A p \in 1..n : Get(c, p - 1) = [ok |-> TRUE, a |-> <<c[p]>>] /\ ItMatches(c, p, [i |-> p - 1, a |-> <<c[p]>>])
                      /\ ItAttrTo(c, 1..n, [i |-> -1, a |-> <<c[p]>>]) = {p}     \* keys are unique: the attribute names the position
  /\ ~Get(c, -1).ok /\ ~Get(c, n).ok /\ Len(GetAll(c)) = n + 2
  /\ ItNextAdm(c, ItAfterSlice(c)) = (IF n = 0 THEN {FALSE} ELSE {TRUE, FALSE})

Init == x = 0
Next == UNCHANGED x
Spec == Init /\ [][Next]_x
Thm == CanonLaws /\ OrderInsensitive /\ FilterMergeLaws /\ IterLaws
=============================================================================
