SPECIFICATION Spec
CONSTANTS
  NKeys = @NKEYS@
  Vals <- MCVals
  Preds <- MCPreds
  Ops <- MCOps
  Bulks <- MCBulks
  NRoutes <- MCNRoutes
  MaxList = @MAXLIST@
  MinList = @MINLIST@
  MaxOps = @MAXOPS@
VIEW View
ACTION_CONSTRAINT EmitEdge
INVARIANT Inv
PROPERTIES BuildOK FilterOK MergeOK
CHECK_DEADLOCK FALSE
