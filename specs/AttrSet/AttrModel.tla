----------------------------- MODULE AttrModel -----------------------------
(* Reference model of attribute.Set (C05), transcribed from the property       *)
(* statement and the package documentation, not from set.go.                   *)
(*                                                                             *)
(* attribute  : [k |-> rank of the key in byte order (1..K, rank 1 is ""),     *)
(*               t |-> "bool"|"i64"|"f64"|"str"|"bools"|"i64s"|"f64s"|"strs",  *)
(*               x |-> sequence of atoms (strings)]                            *)
(*   atoms    : bool "T"/"F"; int decimal; string = itself; float "nan" (the   *)
(*              NaN bit pattern of math.NaN), "nan2", "p0" (+0), "n0" (-0),    *)
(*              "inf",                                                         *)
(*              "-inf", else shortest decimal; scalars have exactly one atom.  *)
(*   Two values are THE SAME typed value iff their records are equal, i.e.     *)
(*   bit-identical (NaN = NaN, +0 # -0).                                       *)
(* set        : sequence of attributes, strictly increasing in k               *)
(* The operators are pure; AttrSet.tla (exhaustive machine) and                *)
(* Trace_AttrSet.tla (validation of real executions) both use them.            *)
EXTENDS Naturals, Integers, Sequences, FiniteSets

Range(s) == {s[i] : i \in DOMAIN s}
KeysOf(l) == {l[i].k : i \in DOMAIN l}

(* position of the value supplied last for key k *)
LastIdx(l, k) == CHOOSE i \in DOMAIN l : l[i].k = k /\ \A j \in DOMAIN l : l[j].k = k => j <= i

MinOf(S) == CHOOSE m \in S : \A n \in S : m <= n
RECURSIVE SortedSeq(_)
SortedSeq(S) == IF S = {} THEN <<>> ELSE LET m == MinOf(S) IN <<m>> \o SortedSeq(S \ {m})

(* "sorted by key and contains each key once with the value supplied last" *)
Canon(l) == IF l = <<>> THEN <<>>
            ELSE LET ks == SortedSeq(KeysOf(l)) IN [i \in 1..Len(ks) |-> l[LastIdx(l, ks[i])]]

IsSet(s) == \A i \in 1..(Len(s) - 1) : s[i].k < s[i + 1].k      \* strictly increasing keys

(* multisets of attributes, represented by any sequence *)
Count(s, a) == Cardinality({i \in DOMAIN s : s[i] = a})
SameBag(s, t) == Len(s) = Len(t) /\ \A a \in Range(s) : Count(s, a) = Count(t, a)

(* items of the input that are not in Canon(l): the superseded duplicates *)
RECURSIVE SupersededFrom(_, _)
SupersededFrom(l, i) ==
  IF i > Len(l) THEN <<>>
  ELSE (IF i = LastIdx(l, l[i].k) THEN <<>> ELSE <<l[i]>>) \o SupersededFrom(l, i + 1)
Superseded(l) == SupersededFrom(l, 1)

(* filter predicates: [kind, ks (sequence of key ranks), ts (sequence of types)] *)
(* A filter is a VALUE fixed when it is constructed: the keys it names are those *)
(* passed to NewAllowKeysFilter / NewDenyKeysFilter, whatever the caller does to *)
(* the slice it passed them in afterwards (the harness overwrites that slice).   *)
(*   "nil"  no filter given          "all"/"none" constant predicates          *)
(*   "allow"/"deny" NewAllowKeysFilter / NewDenyKeysFilter over ks              *)
(*   "type" keeps the attributes whose value type is in ts                      *)
Keeps(p, a) == CASE p.kind = "nil" -> TRUE
                 [] p.kind = "all" -> TRUE
                 [] p.kind = "none" -> FALSE
                 [] p.kind = "allow" -> a.k \in Range(p.ks)
                 [] p.kind = "deny" -> a.k \notin Range(p.ks)
                 [] p.kind = "type" -> a.t \in Range(p.ts)

RECURSIVE Sel(_, _, _)
Sel(s, p, keep) == IF s = <<>> THEN <<>>
                   ELSE (IF Keeps(p, Head(s)) = keep THEN <<Head(s)>> ELSE <<>>) \o Sel(Tail(s), p, keep)
Keep(s, p) == Sel(s, p, TRUE)
Drop(s, p) == Sel(s, p, FALSE)

(* merge of two sets, the first one wins on equal keys *)
HasKey(s, k) == \E i \in DOMAIN s : s[i].k = k
At(s, k) == s[CHOOSE i \in DOMAIN s : s[i].k = k]
Merge(a, b) == LET ks == SortedSeq(KeysOf(a) \cup KeysOf(b))
               IN IF ks = <<>> THEN <<>>
                  ELSE [i \in 1..Len(ks) |-> IF HasKey(a, ks[i]) THEN At(a, ks[i]) ELSE At(b, ks[i])]

NoValue == [has |-> FALSE, t |-> "INVALID", x |-> <<>>]
Lookup(s, k) == IF HasKey(s, k) THEN [has |-> TRUE, t |-> At(s, k).t, x |-> At(s, k).x] ELSE NoValue
LookAll(s, K) == [k \in 1..K |-> Lookup(s, k)]

Indexed(s) == [i \in DOMAIN s |-> [i |-> i - 1, a |-> s[i]]]

(* Set.Get(idx): "the KeyValue at ordered position idx" (0-based), ok = FALSE outside 0..Len-1; *)
(* GetAll probes every position from -1 to Len                                               *)
Get(s, idx) == IF idx \in 0..(Len(s) - 1) THEN [ok |-> TRUE, a |-> <<s[idx + 1]>>] ELSE [ok |-> FALSE, a |-> <<>>]
GetAll(s) == [j \in 1..(Len(s) + 2) |-> Get(s, j - 2)]

-----------------------------------------------------------------------------
(* Iterators (attribute.Iterator, attribute.MergeIterator), from the doc comments of          *)
(* iterator.go: "iterating over the set of attributes in order, sorted by key"; Next "moves    *)
(* the iterator to the next position, returns false if there are no more attributes";          *)
(* Attribute / IndexedAttribute (and the deprecated Label / IndexedLabel) "must be called only *)
(* after Next returns true"; Len "a number of attributes in the iterated set" (the whole set,  *)
(* wherever the iterator stands); ToSlice "the iterator is set up to start from the beginning  *)
(* before creating the slice" (= always the whole contents, whatever was visited before).      *)
(* A MergeIterator iterates Merge(a, b) (union in key order, first set wins); it has only Next *)
(* and Attribute / Label.                                                                      *)
(*                                                                                             *)
(* A position over a sequence s of n attributes: 0 = before the first one (fresh), p in 1..n = *)
(* at s[p], n+1 = exhausted (and stays there).  The model tracks the SET of positions the      *)
(* documentation admits: a singleton, except after ToSlice, where the documentation says where *)
(* the copy starts but not where the iterator is left; every later return value must be        *)
(* explained by one of the admitted positions and narrows the set.                              *)
ItFresh == {0}
ItStep(s, p) == IF p <= Len(s) THEN p + 1 ELSE p
ItMore(s, p) == ItStep(s, p) <= Len(s)                       \* what Next returns when called at p
ItNextAdm(s, P) == {ItMore(s, p) : p \in P}                  \* admissible results of Next
ItNextTo(s, P, b) == {ItStep(s, p) : p \in {q \in P : ItMore(s, q) = b}}
ItResync(s, b) == {ItStep(s, p) : p \in {q \in 0..(Len(s) + 1) : ItMore(s, q) = b}}
ItAtElem(s, P) == P # {} /\ P \subseteq 1..Len(s)            \* Attribute is defined here only
(* an observed current attribute o = [i, a]: i = 0-based index, or -1 when the accessor reports none; a = <<attribute>> *)
ItMatches(s, p, o) == o.a = <<s[p]>> /\ (o.i = -1 \/ o.i = p - 1)
ItAttrTo(s, P, o) == {p \in P : ItMatches(s, p, o)}
ItAfterSlice(s) == 0..(Len(s) + 1)

(* what a loop `for it.Next() { append(it.Attribute()) }` collects from position p *)
RECURSIVE ItDrain(_, _)
ItDrain(s, p) == IF ItMore(s, p) THEN <<s[ItStep(s, p)]>> \o ItDrain(s, ItStep(s, p)) ELSE <<>>

-----------------------------------------------------------------------------
(* Identity.  Sets holding the same key -> typed value mapping MUST be equal   *)
(* (and share one map entry); sets that differ MUST NOT.  The statement is     *)
(* silent on whether +0 and -0 INSIDE a float slice are the same value, so the *)
(* oracle accepts either answer there (and only there).                        *)
NormAtom(x) == IF x = "n0" THEN "p0" ELSE x
NormAttr(a) == IF a.t = "f64s" /\ a.x # <<>> THEN [a EXCEPT !.x = [i \in 1..Len(a.x) |-> NormAtom(a.x[i])]] ELSE a
NormSet(s) == IF s = <<>> THEN <<>> ELSE [i \in 1..Len(s) |-> NormAttr(s[i])]
MustEq(a, b) == a = b
MustNe(a, b) == NormSet(a) # NormSet(b)
EqOK(a, b, observed) == (MustEq(a, b) => observed) /\ (MustNe(a, b) => ~observed)

(* classification used in reports: does the set hold a float slice with a NaN  *)
NanAtoms == {"nan", "nan2"}     \* "nan2": a second NaN bit pattern (payload 2)
HasNanSlice(s) == \E i \in DOMAIN s : s[i].t = "f64s" /\ \E j \in DOMAIN s[i].x : s[i].x[j] \in NanAtoms

(* StreamTable: how metrics / resources / scopes use Equivalent() as a map key *)
(* table = sequence (insertion order) of [s |-> set, n |-> hits]               *)
Bump(table, s) ==
  IF \E i \in DOMAIN table : table[i].s = s
  THEN LET i == CHOOSE i \in DOMAIN table : table[i].s = s IN [table EXCEPT ![i].n = @ + 1]
  ELSE Append(table, [s |-> s, n |-> 1])
TableOK(table) == \A i, j \in DOMAIN table : table[i].s = table[j].s => i = j

-----------------------------------------------------------------------------
(* Default encoding: escaped key, "=", value text, joined by ",".  kesc[k] is  *)
(* the escaped text of key k, vt[i] the text of s[i]'s value (escaped if STRING)*)
RECURSIVE EncFrom(_, _, _, _)
EncFrom(s, i, kesc, vt) ==
  IF i > Len(s) THEN ""
  ELSE (IF i > 1 THEN "," ELSE "") \o kesc[s[i].k] \o "=" \o vt[i] \o EncFrom(s, i + 1, kesc, vt)
Enc(s, kesc, vt) == EncFrom(s, 1, kesc, vt)
=============================================================================
