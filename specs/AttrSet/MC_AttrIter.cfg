SPECIFICATION Spec
CONSTANTS
  Sets <- MCSets
  Pairs <- MCPairs
  NIt = @NIT@
  MaxOps = @MAXOPS@
VIEW View
ACTION_CONSTRAINT EmitEdge
INVARIANT Inv
PROPERTIES IterOK
CHECK_DEADLOCK FALSE
