------------------------------ MODULE AttrIter ------------------------------
(* Iterator histories over immutable Sets (C05: "lookups, iteration, merging    *)
(* and encoding agree with the contents").  NIt iterator variables; each is     *)
(* opened over one of the Sets (Set.Iter) or over a pair (NewMergeIterator) and *)
(* then driven through every sequence of Next / Attribute / IndexedAttribute /  *)
(* Label / IndexedLabel / Len / ToSlice the documentation allows, up to MaxOps  *)
(* calls, several iterators interleaved.  The positions come from AttrModel     *)
(* (ItStep, ItNextAdm, ...).  Every edge carries the set of admissible return   *)
(* values (out) and the one this branch assumes (act.ret); harness/c05 replays  *)
(* the calls on real iterators and compares every return value.                 *)
EXTENDS AttrModel, TLC, Json

CONSTANTS Sets,       \* canonical sequences (Sets) to iterate over
          Pairs,      \* <<a, b>> operands of NewMergeIterator
          NIt,        \* number of iterator variables
          MaxOps      \* bound on the number of calls

VARIABLES its,        \* [1..NIt -> [kind: "none"|"set"|"merge", a, b, P]]; P = admitted positions
          nops,
          act,        \* history: the call (hidden by VIEW); act.ret = the return value this branch assumes
          out         \* history: the set of return values the documentation admits for the call
vars == <<its, nops, act, out>>

None == [kind |-> "none", a |-> <<>>, b |-> <<>>, P |-> {}]
Over(it) == IF it.kind = "merge" THEN Merge(it.a, it.b) ELSE it.a      \* the sequence iterated

(* one shape for every return value: b (Next), i/a (current attribute), n (Len), s (ToSlice) *)
Ret0 == [b |-> FALSE, i |-> -1, a |-> <<>>, n |-> -1, s |-> <<>>]
Indexed2(how) == how \in {"IndexedAttribute", "IndexedLabel"}
Hows(kind) == IF kind = "set" THEN {"Attribute", "IndexedAttribute", "Label", "IndexedLabel"}
              ELSE {"Attribute", "Label"}
Cur(s, p, how) == [Ret0 EXCEPT !.i = IF Indexed2(how) THEN p - 1 ELSE -1, !.a = <<s[p]>>]

Init == /\ its = [i \in 1..NIt |-> None] /\ nops = 0
        /\ act = [op |-> "Init"] /\ out = {}

Op == nops < MaxOps /\ nops' = nops + 1
Free(i) == its[i].kind = "none" /\ (IF i = 1 THEN TRUE ELSE its[i - 1].kind # "none")

Open(i, s) == /\ Op /\ Free(i)
              /\ its' = [its EXCEPT ![i] = [kind |-> "set", a |-> s, b |-> <<>>, P |-> ItFresh]]
              /\ act' = [op |-> "Open", it |-> i] /\ out' = {}

OpenMerge(i, ab) == /\ Op /\ Free(i)
                    /\ its' = [its EXCEPT ![i] = [kind |-> "merge", a |-> ab[1], b |-> ab[2], P |-> ItFresh]]
                    /\ act' = [op |-> "OpenMerge", it |-> i] /\ out' = {}

NextOp(i) == /\ Op /\ its[i].kind # "none"
             /\ LET s == Over(its[i])
                    P == its[i].P
                IN \E b \in ItNextAdm(s, P) :
                     /\ its' = [its EXCEPT ![i].P = ItNextTo(s, P, b)]
                     /\ act' = [op |-> "Next", it |-> i, ret |-> [Ret0 EXCEPT !.b = b]]
                     /\ out' = {[Ret0 EXCEPT !.b = x] : x \in ItNextAdm(s, P)}

(* only where the documentation defines it: after Next returned true *)
AttrOp(i, how) == /\ Op /\ its[i].kind # "none" /\ how \in Hows(its[i].kind)
                  /\ LET s == Over(its[i])
                         P == its[i].P
                     IN /\ ItAtElem(s, P)
                        /\ \E p \in P :
                             /\ its' = [its EXCEPT ![i].P = {p}]
                             /\ act' = [op |-> "Attr", it |-> i, how |-> how, ret |-> Cur(s, p, how)]
                             /\ out' = {Cur(s, q, how) : q \in P}

LenOp(i) == /\ Op /\ its[i].kind = "set"
            /\ act' = [op |-> "Len", it |-> i, ret |-> [Ret0 EXCEPT !.n = Len(its[i].a)]]
            /\ out' = {act'.ret}
            /\ UNCHANGED its

ToSliceOp(i) == /\ Op /\ its[i].kind = "set"
                /\ its' = [its EXCEPT ![i].P = ItAfterSlice(its[i].a)]
                /\ act' = [op |-> "ToSlice", it |-> i, ret |-> [Ret0 EXCEPT !.s = its[i].a]]
                /\ out' = {act'.ret}

Next == \E i \in 1..NIt :
          \/ \E s \in Sets : Open(i, s)
          \/ \E ab \in Pairs : OpenMerge(i, ab)
          \/ NextOp(i) \/ LenOp(i) \/ ToSliceOp(i)
          \/ \E how \in {"Attribute", "IndexedAttribute", "Label", "IndexedLabel"} : AttrOp(i, how)
Spec == Init /\ [][Next]_vars

View == <<its, nops>>
St == [its |-> its, n |-> nops]
EmitEdge == PrintT("EDGE " \o ToJson([from |-> St, act |-> act', to |-> St', out |-> out']))

-----------------------------------------------------------------------------
Inv == \A i \in 1..NIt : its[i].kind # "none" =>
          /\ IsSet(Over(its[i]))
          /\ its[i].P # {} /\ its[i].P \subseteq 0..(Len(Over(its[i])) + 1)

(* iteration agrees with the contents: ToSlice is always the whole Set; Next is true exactly    *)
(* while attributes remain and never true again after it was false; the current attribute is    *)
(* the one at the position                                                                      *)
IterOK == [][/\ act'.op = "ToSlice" => act'.ret.s = its[act'.it].a
             /\ (act'.op = "Next" /\ ~act'.ret.b) => its'[act'.it].P = {Len(Over(its[act'.it])) + 1}
             /\ (act'.op = "Next" /\ act'.ret.b) => ItAtElem(Over(its[act'.it]), its'[act'.it].P)
             /\ act'.op = "Attr" => \E p \in its[act'.it].P : act'.ret.a = <<Over(its[act'.it])[p]>>]_vars
=============================================================================
