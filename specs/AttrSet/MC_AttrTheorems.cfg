SPECIFICATION Spec
INVARIANT Thm
CHECK_DEADLOCK FALSE
