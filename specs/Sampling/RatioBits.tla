------------------------------ MODULE RatioBits ------------------------------
(* C09 -- the ratio sampler over the real 128-bit trace IDs and IEEE-754 doubles,      *)
(* without 64-bit arithmetic: every 64-bit quantity is a sequence of four 16-bit limbs  *)
(* (most significant first), so all intermediate values stay below 2^31.               *)
(*                                                                                      *)
(* Oracle.  u(id) = x / 2^63 with x = the upper 63 bits of the trace ID's low half      *)
(* (anchor: "ratio mapped onto the upper 63 bits of the trace ID's low half") is the    *)
(* position of the trace in [0,1).  For a ratio 0 < r < 1:                              *)
(*      u + 2^-63 <= r   =>  sampled           (the trace lies wholly below r)          *)
(*      u >= r           =>  not sampled       (otherwise the share would exceed r)     *)
(*      else (r falls strictly inside the trace's 2^-63 cell): either -- the statement  *)
(*      does not say how r*2^63 is rounded.                                             *)
(* r <= 0 (incl. -0, -Inf): never; r >= 1 (incl. +Inf): always; NaN: unconstrained.     *)
(* Both monotonicities and determinism are stated relationally on top (they hold for    *)
(* every threshold sampler, whatever the rounding).                                     *)
EXTENDS Integers, Sequences

P2 == <<1, 2, 4, 8, 16, 32, 64, 128, 256, 512, 1024, 2048, 4096, 8192, 16384, 32768>>
Pow2(b) == P2[b + 1]                       \* 0 <= b <= 15
B16 == 65536

(* ---- limb helpers ------------------------------------------------------------------ *)
\* -1 / 0 / 1 for a < b / a = b / a > b (4 limbs)
Cmp(a, b) ==
  CASE a[1] # b[1] -> IF a[1] < b[1] THEN -1 ELSE 1
    [] a[2] # b[2] -> IF a[2] < b[2] THEN -1 ELSE 1
    [] a[3] # b[3] -> IF a[3] < b[3] THEN -1 ELSE 1
    [] a[4] # b[4] -> IF a[4] < b[4] THEN -1 ELSE 1
    [] OTHER -> 0

\* logical right shift by b bits (0..15); Sticky: a one was shifted out
Shr(t, b) == LET p == Pow2(b)  q == B16 \div p IN
  <<t[1] \div p,
    (t[2] \div p) + (t[1] % p) * q,
    (t[3] \div p) + (t[2] % p) * q,
    (t[4] \div p) + (t[3] % p) * q>>
ShrSticky(t, b) == t[4] % Pow2(b) # 0
\* right shift by a whole limbs (0..3)
ShrL(t, a) == [i \in 1..4 |-> IF i - a >= 1 THEN t[i - a] ELSE 0]
ShrLSticky(t, a) == \E i \in (5 - a)..4 : t[i] # 0
\* left shift by b bits (0..15); the caller guarantees no overflow out of limb 1
Shl(t, b) == LET p == Pow2(b) IN
  <<((t[1] * p) % B16) + (t[2] * p) \div B16,
    ((t[2] * p) % B16) + (t[3] * p) \div B16,
    ((t[3] * p) % B16) + (t[4] * p) \div B16,
    (t[4] * p) % B16>>

(* ---- IEEE-754 binary64 from its bit pattern (4 limbs) ------------------------------- *)
Neg(r)  == r[1] >= 32768
Expo(r) == (r[1] % 32768) \div 16                      \* biased exponent, 11 bits
MantZero(r) == (r[1] % 16 = 0) /\ r[2] = 0 /\ r[3] = 0 /\ r[4] = 0
IsNaN(r) == Expo(r) = 2047 /\ ~MantZero(r)
IsZero(r) == Expo(r) = 0 /\ MantZero(r)
\* "le0" | "ge1" | "mid" (0 < r < 1) | "nan"
Class(r) ==
  CASE IsNaN(r) -> "nan"
    [] Neg(r) \/ IsZero(r) -> "le0"
    [] Expo(r) >= 1023 -> "ge1"
    [] OTHER -> "mid"
\* rank for the order of ratios as far as the statement uses it (all r<=0 alike, all r>=1 alike)
RatioLeq(r1, r2) ==
  LET c1 == Class(r1)  c2 == Class(r2) IN
  /\ c1 # "nan" /\ c2 # "nan"
  /\ \/ c1 = "le0" \/ c2 = "ge1"
     \/ (c1 = "mid" /\ c2 = "mid" /\ Cmp(r1, r2) <= 0)   \* non-negative doubles order like their bits

(* ---- floor(r * 2^63) and whether r * 2^63 has a fractional part, for 0 < r < 1 ------- *)
\* significand S (53 bits; implicit one for normal numbers) as 4 limbs
Signif(r) == <<(r[1] % 16) + (IF Expo(r) = 0 THEN 0 ELSE 16), r[2], r[3], r[4]>>
\* r * 2^63 = S * 2^sh
Shift(r) == (IF Expo(r) = 0 THEN 1 ELSE Expo(r)) - 1012
Floor63(r) ==
  LET S == Signif(r)  sh == Shift(r) IN
  IF sh >= 0 THEN Shl(S, sh)                                  \* sh <= 10 because r < 1
  ELSE IF -sh >= 64 THEN <<0, 0, 0, 0>>
  ELSE Shr(ShrL(S, (-sh) \div 16), (-sh) % 16)
Frac63(r) ==
  LET S == Signif(r)  sh == Shift(r) IN
  IF sh >= 0 THEN FALSE
  ELSE IF -sh >= 64 THEN TRUE                                  \* S # 0 since r > 0
  ELSE ShrLSticky(S, (-sh) \div 16) \/ ShrSticky(ShrL(S, (-sh) \div 16), (-sh) % 16)

(* ---- the trace ID ------------------------------------------------------------------- *)
\* tid: 8 limbs; low half = limbs 5..8; x = low half >> 1
X63(tid) == Shr(<<tid[5], tid[6], tid[7], tid[8]>>, 1)
XLeq(t1, t2) == Cmp(X63(t1), X63(t2)) <= 0

(* "must" | "mustnot" | "either" *)
Verdict(tid, r) ==
  LET c == Class(r) IN
  CASE c = "nan" -> "either"
    [] c = "le0" -> "mustnot"
    [] c = "ge1" -> "must"
    [] OTHER ->
        LET k == Cmp(X63(tid), Floor63(r)) IN
        IF k < 0 THEN "must"
        ELSE IF k > 0 THEN "mustnot"
        ELSE IF Frac63(r) THEN "either" ELSE "mustnot"
=============================================================================
