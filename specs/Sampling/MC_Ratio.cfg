SPECIFICATION Spec
