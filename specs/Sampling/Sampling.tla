----------------------------- MODULE Sampling -----------------------------
(* C09 -- span forest under a configured sampler; explored exhaustively by TLC,        *)
(* every edge is printed (EDGE json) and replayed on a real TracerProvider.            *)
(*                                                                                      *)
(* Configure(s)            fix the sampler term s (one per behaviour) and build the     *)
(*                         first TracerProvider of the process with it                  *)
(* NewProv                 build one more TracerProvider (same configuration, its own   *)
(*                         ID generator) -- at any time: before / after / between the   *)
(*                         spans the other providers start                              *)
(* Start(p,kind,i,newRoot,hi) provider p's tracer starts a span under: no parent |      *)
(*                         local span i (started by ANY provider) | span context        *)
(*                         Remotes[i] put into the context; newRoot = WithNewRoot();    *)
(*                         hi = class of the trace ID the ID generator will hand out    *)
(*                         (only meaningful when a fresh trace begins)                  *)
(* End(i)                  end span i (ending twice is a no-op)                          *)
EXTENDS SamplingModel, TLC, Json, FiniteSets

CONSTANTS Samplers,     \* set of sampler terms
          Remotes,      \* sequence of span contexts [valid, remote, sampled, ts, hi]
          His,          \* classes the scripted ID generator may choose for fresh traces
          MaxSpans,
          NewRootFor,   \* subset of {"none","local","remote"}: parents also tried WithNewRoot
          EndMode,      \* "any": every span may be ended at any time | "none"
          CtxUntil,     \* parents "none"/"remote" are tried only while Len(spans) < CtxUntil
          NProv,        \* at most this many TracerProviders in the process
          GenMode       \* "own" (each provider's generator has its own stream) | "shared" (see SamplingModel)

VARIABLES cfg, np, spans, act
vars == <<cfg, np, spans, act>>

Unset == [k |-> "unset"]
DummyR == [valid |-> FALSE, remote |-> FALSE, fl |-> 0, ts |-> "", hi |-> 0]

RawV(kind, i) == RawView(spans, Remotes, kind, i)
Inh(kind, i, nr) == Inherits(spans, Remotes, kind, i, nr)

Targets == {<<"local", i>> : i \in DOMAIN spans}
           \cup (IF Len(spans) < CtxUntil
                 THEN {<<"none", 0>>} \cup {<<"remote", j>> : j \in DOMAIN Remotes} ELSE {})

StartChoices ==
  UNION {
    LET kind == t[1]  i == t[2] IN
    UNION {
      {[op |-> "Start", p |-> x[1], kind |-> kind, i |-> i, newRoot |-> nr,
        hi |-> x[2], r |-> IF kind = "remote" THEN Remotes[i] ELSE DummyR]
         : x \in (1..np) \X (IF Inh(kind, i, nr) THEN {0} ELSE His)}
      : nr \in (IF kind \in NewRootFor THEN BOOLEAN ELSE {FALSE}) }
    : t \in Targets }

Init == cfg = Unset /\ np = 0 /\ spans = <<>> /\ act = [op |-> "Init"]

Configure(s) == /\ cfg = Unset
                /\ cfg' = s /\ np' = 1 /\ UNCHANGED spans
                /\ act' = [op |-> "Configure", sampler |-> s]

NewProv == /\ cfg # Unset /\ np < NProv /\ Len(spans) < MaxSpans
           /\ np' = np + 1 /\ UNCHANGED <<cfg, spans>>
           /\ act' = [op |-> "NewProv"]

Start(a) == /\ cfg # Unset /\ Len(spans) < MaxSpans
            /\ spans' = StartSpanG(GenMode, cfg, spans, Remotes, a) /\ UNCHANGED <<cfg, np>>
            /\ act' = a

End(i) == /\ cfg # Unset /\ EndMode = "any"
          /\ spans' = EndAt(spans, i) /\ UNCHANGED <<cfg, np>>
          /\ act' = [op |-> "End", i |-> i]

Next == \/ \E s \in Samplers : Configure(s)
        \/ NewProv
        \/ \E a \in StartChoices : Start(a)
        \/ \E i \in DOMAIN spans : End(i)
Spec == Init /\ [][Next]_vars

View == <<cfg, np, spans>>
EmitEdge == PrintT("EDGE " \o ToJson([from |-> [cfg |-> cfg, np |-> np, spans |-> spans], act |-> act',
                                      to |-> [cfg |-> cfg', np |-> np', spans |-> spans']]))

(* ---------------------------------------------------------------- the property *)
Resolved == CASE cfg.k = "env" -> EnvSampler(cfg.name, cfg.arg)
              [] cfg.k = "default" -> DefaultSampler
              [] OTHER -> cfg
IsDefaultPB(s) == s.k = "pb" /\ s.rs = On /\ s.rns = Off /\ s.ls = On /\ s.lns = Off
RECURSIVE KeepsTs(_)
KeepsTs(s) == CASE s.k = "custom" -> s.ts = "inherit"
                [] s.k = "pb" -> KeepsTs(s.root) /\ KeepsTs(s.rs) /\ KeepsTs(s.rns) /\ KeepsTs(s.ls) /\ KeepsTs(s.lns)
                [] OTHER -> TRUE

HasParent(sp) == Inh(sp.par.kind, sp.par.i, sp.par.newRoot)
ParentView(sp) == RawV(sp.par.kind, sp.par.i)

Clauses == FlagIffRAS(spans) /\ RecIffNotDrop(spans) /\ ExportIffSampled(spans) /\ IdsOK(spans)
           /\ UniqueInProcess(spans, Remotes)

(* child: parent's trace; root: a fresh trace (label never used before, not a remote one) *)
Connected ==
  \A i \in DOMAIN spans :
    LET sp == spans[i] IN
    IF HasParent(sp)
    THEN /\ ~sp.par.fresh
         /\ sp.tr = (IF sp.par.kind = "local" THEN spans[sp.par.i].tr ELSE 100 + sp.par.i)
         /\ sp.hi = (IF sp.par.kind = "local" THEN spans[sp.par.i].hi ELSE Remotes[sp.par.i].hi)
         /\ sp.tid = (IF sp.par.kind = "local" THEN spans[sp.par.i].tid ELSE RemoteTid(sp.par.i))
    ELSE /\ sp.par.fresh /\ sp.tr < 100
         /\ \A j \in 1..(i - 1) : spans[j].tr # sp.tr

(* the default parent-based sampler gives a child the decision of its local or remote parent: *)
(* the parent's SAMPLED BIT, whatever else its flags byte holds                              *)
DefaultPBFollowsParent ==
  IsDefaultPB(Resolved) =>
    \A i \in DOMAIN spans : HasParent(spans[i]) => (spans[i].sampled = ParentView(spans[i]).sampled)
(* ... hence a trace is sampled as a whole or not at all *)
TraceWhole ==
  IsDefaultPB(Resolved) =>
    \A i, j \in DOMAIN spans : spans[i].tr = spans[j].tr => spans[i].sampled = spans[j].sampled
(* the parent's tracestate is kept unless the sampler supplies another *)
TsKept ==
  (cfg # Unset /\ KeepsTs(Resolved)) =>
    \A i \in DOMAIN spans :
      IF HasParent(spans[i]) THEN spans[i].ts = ParentView(spans[i]).ts
      ELSE spans[i].tsAlt = ""
(* ratio: a pure function of the trace ID class, whatever the parent *)
RatioPure ==
  (cfg # Unset /\ Resolved.k = "ratio") =>
    \A i \in DOMAIN spans : spans[i].sampled <=> (spans[i].hi < Resolved.n)

(* flags: only the sampled bit is decided by the sampler; the other bits come from the context *)
(* (a remote context: the other bits of its flags byte; a local span: what it carried itself)  *)
FlagsFromContext ==
  \A i \in DOMAIN spans :
    LET sp == spans[i] IN
    sp.flx = (CASE sp.par.kind = "none" -> 0
                [] sp.par.kind = "local" -> spans[sp.par.i].flx
                [] sp.par.kind = "remote" -> OtherBits(Remotes[sp.par.i].fl))
ASSUME \A j \in DOMAIN Remotes : Remotes[j].fl \in 0..255

Inv == Clauses /\ Connected /\ DefaultPBFollowsParent /\ TraceWhole /\ TsKept /\ RatioPure
       /\ FlagsFromContext

(* action properties: identity and decision of a started span never change; exports only grow *)
Stable == [][\A i \in DOMAIN spans :
               /\ spans'[i].tr = spans[i].tr /\ spans'[i].sampled = spans[i].sampled
               /\ spans'[i].sid = spans[i].sid /\ spans'[i].tid = spans[i].tid /\ spans'[i].flx = spans[i].flx
               /\ spans'[i].ts = spans[i].ts /\ spans'[i].expS >= spans[i].expS
               /\ spans'[i].expB >= spans[i].expB /\ (spans[i].ended => spans'[i] = spans[i])]_vars
=============================================================================
