SPECIFICATION Spec
CONSTANTS
  Samplers <- MCSamplers
  Remotes <- MCRemotes
  His <- MCHis
  NewRootFor <- MCNewRootFor
  MaxSpans = @MAXSPANS@
  EndMode = "@ENDMODE@"
  CtxUntil = @CTXUNTIL@
  NProv = @NPROV@
  GenMode = "@GENMODE@"
VIEW View
ACTION_CONSTRAINT EmitEdge
INVARIANT Inv
PROPERTIES Stable
CHECK_DEADLOCK FALSE
