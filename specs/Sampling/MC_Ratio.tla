------------------------------ MODULE MC_Ratio ------------------------------
(* Model-level checks of RatioBits (no real code involved):                             *)
(*  - Floor63/Frac63 agree with exact rational arithmetic on test vectors (computed     *)
(*    with Python fractions: floor(r * 2^63), r * 2^63 integral?)                       *)
(*  - the 3-bit abstraction of SamplingModel (Ratio(n): sampled iff hi < n) is the      *)
(*    bit-level oracle restricted to the ratios n/8, whatever the remaining bits        *)
(*  - the oracle itself is monotone in the ratio and in the trace ID                    *)
EXTENDS SamplingModel, RatioBits, TLC

Vectors == <<
  [r |-> <<16352, 0, 0, 0>>, f |-> <<16384, 0, 0, 0>>, frac |-> FALSE],
  [r |-> <<16313, 39321, 39321, 39322>>, f |-> <<3276, 52428, 52428, 52480>>, frac |-> FALSE],
  [r |-> <<16341, 21845, 21845, 21845>>, f |-> <<10922, 43690, 43690, 43520>>, frac |-> FALSE],
  [r |-> <<16336, 0, 0, 0>>, f |-> <<8192, 0, 0, 0>>, frac |-> FALSE],
  [r |-> <<16360, 0, 0, 0>>, f |-> <<24576, 0, 0, 0>>, frac |-> FALSE],
  [r |-> <<16367, 63438, 55574, 34603>>, f |-> <<32735, 15204, 23068, 44032>>, frac |-> FALSE],
  [r |-> <<16367, 65535, 65535, 65535>>, f |-> <<32767, 65535, 65535, 64512>>, frac |-> FALSE],
  [r |-> <<15360, 0, 0, 0>>, f |-> <<0, 0, 0, 1>>, frac |-> FALSE],
  [r |-> <<15344, 0, 0, 0>>, f |-> <<0, 0, 0, 0>>, frac |-> TRUE],
  [r |-> <<15376, 0, 0, 0>>, f |-> <<0, 0, 0, 2>>, frac |-> FALSE],
  [r |-> <<15368, 0, 0, 0>>, f |-> <<0, 0, 0, 1>>, frac |-> TRUE],
  [r |-> <<16192, 0, 0, 0>>, f |-> <<16, 0, 0, 0>>, frac |-> FALSE],
  [r |-> <<16191, 65535, 65535, 65535>>, f |-> <<15, 65535, 65535, 65535>>, frac |-> TRUE],
  [r |-> <<16208, 0, 0, 1>>, f |-> <<32, 0, 0, 2>>, frac |-> FALSE],
  [r |-> <<0, 0, 0, 1>>, f |-> <<0, 0, 0, 0>>, frac |-> TRUE],
  [r |-> <<16, 0, 0, 0>>, f |-> <<0, 0, 0, 0>>, frac |-> TRUE],
  [r |-> <<15357, 33737, 20406, 53932>>, f |-> <<0, 0, 0, 0>>, frac |-> TRUE],
  [r |-> <<15360, 0, 0, 0>>, f |-> <<0, 0, 0, 1>>, frac |-> FALSE],
  [r |-> <<15360, 0, 0, 1>>, f |-> <<0, 0, 0, 1>>, frac |-> TRUE],
  [r |-> <<421, 28191, 49912, 62297>>, f |-> <<0, 0, 0, 0>>, frac |-> TRUE],
  [r |-> <<16208, 0, 0, 0>>, f |-> <<32, 0, 0, 0>>, frac |-> FALSE],
  [r |-> <<16319, 39645, 14137, 25439>>, f |-> <<4045, 28315, 40113, 44928>>, frac |-> FALSE],
  [r |-> <<16367, 39645, 15374, 22200>>, f |-> <<32363, 29936, 14682, 57344>>, frac |-> FALSE],
  [r |-> <<15597, 41449, 40167, 56674>>, f |-> <<0, 0, 0, 30343>>, frac |-> TRUE],
  [r |-> <<15969, 6330, 63771, 47756>>, f |-> <<0, 68, 25323, 58478>>, frac |-> TRUE],
  [r |-> <<16363, 47839, 60084, 57869>>, f |-> <<28395, 32682, 54152, 13312>>, frac |-> FALSE],
  [r |-> <<15397, 42784, 3077, 45724>>, f |-> <<0, 0, 0, 5>>, frac |-> TRUE],
  [r |-> <<16204, 48859, 25195, 13867>>, f |-> <<28, 48859, 25195, 13867>>, frac |-> FALSE],
  [r |-> <<16261, 24742, 15471, 9562>>, f |-> <<342, 2659, 50930, 21920>>, frac |-> FALSE],
  [r |-> <<16023, 19801, 52612, 7607>>, f |-> <<0, 745, 43833, 45187>>, frac |-> TRUE],
  [r |-> <<15446, 33513, 20424, 60595>>, f |-> <<0, 0, 0, 45>>, frac |-> TRUE],
  [r |-> <<15502, 28880, 19174, 30601>>, f |-> <<0, 0, 0, 487>>, frac |-> TRUE],
  [r |-> <<15844, 7609, 53937, 57736>>, f |-> <<0, 0, 20598, 59210>>, frac |-> TRUE],
  [r |-> <<16042, 18548, 1817, 50080>>, f |-> <<0, 1682, 7425, 50800>>, frac |-> TRUE],
  [r |-> <<16224, 13147, 10108, 42390>>, f |-> <<64, 52588, 40434, 38488>>, frac |-> FALSE],
  [r |-> <<15576, 50770, 61120, 63132>>, f |-> <<0, 0, 0, 12684>>, frac |-> TRUE],
  [r |-> <<16153, 17500, 39676, 98>>, f |-> <<3, 10379, 37727, 32780>>, frac |-> TRUE],
  [r |-> <<15949, 26645, 13610, 10902>>, f |-> <<0, 29, 26645, 13610>>, frac |-> TRUE],
  [r |-> <<15509, 37719, 24805, 44846>>, f |-> <<0, 0, 0, 690>>, frac |-> TRUE],
  [r |-> <<15820, 30568, 13401, 53574>>, f |-> <<0, 0, 7287, 26676>>, frac |-> TRUE],
  [r |-> <<15565, 10756, 57558, 60784>>, f |-> <<0, 0, 0, 7466>>, frac |-> TRUE],
  [r |-> <<16257, 65260, 60091, 47132>>, f |-> <<287, 61134, 43963, 33216>>, frac |-> FALSE],
  [r |-> <<16329, 34986, 35671, 16236>>, f |-> <<6536, 43659, 22335, 27648>>, frac |-> FALSE],
  [r |-> <<16252, 9171, 15781, 3683>>, f |-> <<225, 7833, 60712, 29464>>, frac |-> FALSE],
  [r |-> <<15372, 43647, 27011, 59506>>, f |-> <<0, 0, 0, 1>>, frac |-> TRUE],
  [r |-> <<15841, 53102, 36960, 12256>>, f |-> <<0, 0, 18237, 47681>>, frac |-> TRUE],
  [r |-> <<16123, 11955, 15843, 52848>>, f |-> <<0, 55669, 39407, 7795>>, frac |-> TRUE],
  [r |-> <<16366, 55600, 56931, 11137>>, f |-> <<31588, 50041, 36014, 1024>>, frac |-> FALSE]
>>

VectorsOK == \A i \in DOMAIN Vectors :
   /\ Cmp(Floor63(Vectors[i].r), Vectors[i].f) = 0
   /\ Frac63(Vectors[i].r) = Vectors[i].frac
   /\ Class(Vectors[i].r) = "mid"

\* n/8 as IEEE bit patterns, n = 1..7
Eighth == <<<<16320, 0, 0, 0>>, <<16336, 0, 0, 0>>, <<16344, 0, 0, 0>>, <<16352, 0, 0, 0>>,
            <<16356, 0, 0, 0>>, <<16360, 0, 0, 0>>, <<16364, 0, 0, 0>>>>
Tid(hi, ones) == IF ones THEN <<1, 0, 0, 0, hi * 8192 + 8191, 65535, 65535, 65535>>
                         ELSE <<1, 0, 0, 0, hi * 8192, 0, 0, 0>>
AbstractionOK ==
  \A n \in 1..7, hi \in 0..7, ones \in BOOLEAN :
     LET a == Decide(Ratio(n), NoParent, hi).d  v == Verdict(Tid(hi, ones), Eighth[n]) IN
     /\ v # "either"
     /\ (a = RAS) <=> (v = "must")
\* abstract sampler: extremes and monotonicity in n
AbstractOK ==
  \A hi \in 0..7 :
     /\ \A n \in -2..0 : Decide(Ratio(n), NoParent, hi).d = DROP
     /\ \A n \in 8..10 : Decide(Ratio(n), NoParent, hi).d = RAS
     /\ \A n1, n2 \in -2..10 : (n1 <= n2 /\ Decide(Ratio(n1), NoParent, hi).d = RAS) => Decide(Ratio(n2), NoParent, hi).d = RAS
\* special bit patterns
Specials ==
  /\ Class(<<0, 0, 0, 0>>) = "le0" /\ Class(<<32768, 0, 0, 0>>) = "le0"        \* +0, -0
  /\ Class(<<65520, 0, 0, 0>>) = "le0" /\ Class(<<49136, 0, 0, 0>>) = "le0"    \* -Inf, -1
  /\ Class(<<16368, 0, 0, 0>>) = "ge1" /\ Class(<<32752, 0, 0, 0>>) = "ge1"    \* 1, +Inf
  /\ Class(<<32760, 0, 0, 0>>) = "nan" /\ Class(<<65528, 0, 0, 1>>) = "nan"
  /\ Class(<<16367, 65535, 65535, 65535>>) = "mid" /\ Class(<<0, 0, 0, 1>>) = "mid"
\* oracle monotone: grid of trace IDs x vectors
Grid == {Tid(hi, o) : hi \in 0..7, o \in BOOLEAN} \cup
        {<<1, 0, 0, 0, 0, 0, 0, a>> : a \in 0..5} \cup {<<1, 0, 0, 0, 0, a, 0, 0>> : a \in {1, 2, 1024, 65535}}
Rs == {Vectors[i].r : i \in DOMAIN Vectors} \cup {Eighth[n] : n \in 1..7}
OracleMonotone ==
  /\ \A t \in Grid, r1, r2 \in Rs : (RatioLeq(r1, r2) /\ Verdict(t, r1) = "must") => Verdict(t, r2) # "mustnot"
  /\ \A t1, t2 \in Grid, r \in Rs : (XLeq(t1, t2) /\ Verdict(t2, r) = "must") => Verdict(t1, r) = "must"
  /\ \A t1, t2 \in Grid, r \in Rs : (XLeq(t1, t2) /\ Verdict(t1, r) = "mustnot") => Verdict(t2, r) = "mustnot"

ASSUME VectorsOK
ASSUME AbstractionOK
ASSUME AbstractOK
ASSUME Specials
ASSUME OracleMonotone

VARIABLE z
Init == z = 0
Next == z' = z
Spec == Init /\ [][Next]_z
=============================================================================
