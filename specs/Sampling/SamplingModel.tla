--------------------------- MODULE SamplingModel ---------------------------
(* C09 -- pure operators of the sampling model.  Shared by Sampling.tla (exhaustive    *)
(* exploration, edge replay) and Trace_Sampling.tla (validation of real executions).   *)
(*                                                                                      *)
(* Sources: property C09 (properties.jsonl); OTel trace SDK spec, sections "Sampling",  *)
(* "ShouldSample", "Built-in samplers" (AlwaysOn, AlwaysOff, TraceIdRatioBased,         *)
(* ParentBased table), "SDK Span creation" (1. valid parent trace ID -> use it, else    *)
(* generate; 2. query sampler; 3. always generate a new span ID; 4. recording /         *)
(* non-recording span by decision), "Span processor" (OnEnd for recording spans, the    *)
(* built-in processors export sampled spans only); OTel env-var spec                    *)
(* (OTEL_TRACES_SAMPLER / OTEL_TRACES_SAMPLER_ARG).                                     *)
(*                                                                                      *)
(* Sampler terms (records, field k discriminates):                                      *)
(*   [k|->"on"] [k|->"off"] [k|->"ratio", n|->i]        ratio i/8, i may be <0 or >8    *)
(*   [k|->"custom", d|->Decision, ts|->"inherit"|"replace"|"empty"]                     *)
(*   [k|->"pb", root|->T, rs|->T, rns|->T, ls|->T, lns|->T]   ParentBased               *)
(*   [k|->"env", name|->STRING, arg|->STRING]          sampler configured by env vars   *)
(*   [k|->"default"]                                   no sampler configured at all     *)
(* Trace-ID randomness: hi \in 0..7 = the three most significant bits of the 63-bit     *)
(* quantity the ratio sampler maps the ratio onto (anchor "traceIDUpperBound: ratio     *)
(* mapped onto the upper 63 bits of the trace ID's low half").  u = x / 2^63 lies in    *)
(* [hi/8, (hi+1)/8), hence for the dyadic ratio n/8:  u < n/8  <=>  hi < n  (exact).    *)
EXTENDS Integers, Sequences, FiniteSets

RAS  == "RecordAndSample"
RO   == "RecordOnly"
DROP == "Drop"
Decisions == {DROP, RO, RAS}

On  == [k |-> "on"]
Off == [k |-> "off"]
Ratio(n) == [k |-> "ratio", n |-> n]
Custom(d, t) == [k |-> "custom", d |-> d, ts |-> t]
PB(root, rs, rns, ls, lns) == [k |-> "pb", root |-> root, rs |-> rs, rns |-> rns, ls |-> ls, lns |-> lns]
PBDefault(root) == PB(root, On, Off, On, Off)
Env(name, arg) == [k |-> "env", name |-> name, arg |-> arg]

(* ---- trace flags ------------------------------------------------------------------ *)
(* W3C trace-context: trace-flags is an 8-bit field; bit 0 (0x01) is `sampled`, bit 1    *)
(* (0x02, level 2) is `random-trace-id`, the rest is reserved.  The bundled propagator   *)
(* masks the byte, but span contexts built by other propagators / by hand               *)
(* (trace.NewSpanContext) carry any byte.  A parent IS SAMPLED iff the low bit is set,   *)
(* whatever the other bits are.  The statement constrains only the sampled bit of the    *)
(* started span; its other bits (flx) are open: the model carries the other bits of the  *)
(* context the span was started under and admits every sub-mask of them (copied, partly  *)
(* or wholly cleared); it never admits invented bits.                                    *)
FlagDomain == {0, 1, 2, 3, 128, 129, 255}
SampledBit(fl) == fl % 2 = 1
OtherBits(fl) == fl - (fl % 2)

(* ---- parent views --------------------------------------------------------------- *)
(* What a sampler and the span constructor may look at in the parent context.          *)
(* ts = the tracestate found in the context; tsAlt = the alternative admissible value   *)
(* for everything derived from it: an INVALID span context is "no parent" (root), and   *)
(* the statement is silent on whether a tracestate carried by an invalid context is     *)
(* "the parent's tracestate" (kept) or belongs to no parent (dropped): both admitted.   *)
NoParent == [valid |-> FALSE, remote |-> FALSE, sampled |-> FALSE, flx |-> 0, ts |-> "", tsAlt |-> ""]

(* ---- environment-configured sampler (OTel env-var spec) ------------------------------ *)
(* arg classes: "unset" | "k<i>" (the decimal string of i/8, 0<=i<=8) | "neg" | "gt1" |   *)
(* "junk" | "empty".  Invalid / out-of-range / unparsable ARG must be ignored, i.e.     *)
(* behave as if unset => ratio 1.0.  Unknown sampler name: ignored => default sampler.  *)
ArgRatio(arg) ==
  CASE arg = "k0" -> 0 [] arg = "k1" -> 1 [] arg = "k2" -> 2 [] arg = "k3" -> 3 [] arg = "k4" -> 4
    [] arg = "k5" -> 5 [] arg = "k6" -> 6 [] arg = "k7" -> 7 [] arg = "k8" -> 8
    [] OTHER -> 8
DefaultSampler == PBDefault(On)
EnvSampler(name, arg) ==
  CASE name = "always_on" -> On
    [] name = "always_off" -> Off
    [] name = "traceidratio" -> Ratio(ArgRatio(arg))
    [] name = "parentbased_always_on" -> PBDefault(On)
    [] name = "parentbased_always_off" -> PBDefault(Off)
    [] name = "parentbased_traceidratio" -> PBDefault(Ratio(ArgRatio(arg)))
    [] OTHER -> DefaultSampler          \* "unset", "unknown", "empty"

(* ---- the sampling decision --------------------------------------------------------- *)
(* Decide(s, p, hi) = [d, ts, tsAlt] for sampler term s, parent view p, trace-ID class hi. *)
RECURSIVE Decide(_, _, _)
Decide(s, p, hi) ==
  CASE s.k = "on"    -> [d |-> RAS,  ts |-> p.ts, tsAlt |-> p.tsAlt]
    [] s.k = "off"   -> [d |-> DROP, ts |-> p.ts, tsAlt |-> p.tsAlt]
    [] s.k = "ratio" -> [d |-> IF hi < s.n THEN RAS ELSE DROP, ts |-> p.ts, tsAlt |-> p.tsAlt]
    [] s.k = "custom" ->
         [d |-> s.d,
          ts |-> (CASE s.ts = "inherit" -> p.ts [] s.ts = "replace" -> "q" [] OTHER -> ""),
          tsAlt |-> (CASE s.ts = "inherit" -> p.tsAlt [] s.ts = "replace" -> "q" [] OTHER -> "")]
    [] s.k = "pb" ->
         IF p.valid
         THEN (IF p.remote
               THEN (IF p.sampled THEN Decide(s.rs, p, hi) ELSE Decide(s.rns, p, hi))
               ELSE (IF p.sampled THEN Decide(s.ls, p, hi) ELSE Decide(s.lns, p, hi)))
         ELSE Decide(s.root, p, hi)
    [] s.k = "env" -> Decide(EnvSampler(s.name, s.arg), p, hi)
    [] s.k = "default" -> Decide(DefaultSampler, p, hi)

(* ---- ID generators ------------------------------------------------------------------ *)
(* A process holds several TracerProviders; each owns an ID generator (its own state).    *)
(* Abstract generator of provider p: the k-th draw returns the ID <<p, k>>; k = number of  *)
(* IDs p's generator handed out before (one span ID per started span, one more trace ID   *)
(* when a fresh trace begins).  "own": what the statement demands -- the streams of       *)
(* different providers are disjoint, hence every ID is FRESH IN THE PROCESS.  "shared":   *)
(* every generator replays one stream (<<0, k>>) -- not admitted; only used by the        *)
(* MC_Providers_shared configuration to show that TLC refutes uniqueness for it.          *)
GenId(mode, p, k) == IF mode = "own" THEN <<p, k>> ELSE <<0, k>>
Draws(spans, p) ==
  Cardinality({i \in DOMAIN spans : spans[i].p = p})
  + Cardinality({i \in DOMAIN spans : spans[i].p = p /\ spans[i].par.fresh})
RemoteTid(j) == <<100 + j, 0>>
RemoteSid(j) == <<100 + j, 1>>

(* ---- spans ------------------------------------------------------------------------ *)
(* p: the provider whose tracer started the span; tid/sid: abstract IDs;                 *)
(* tr: trace label (fresh traces 1,2,.. in order of creation; remote trace j = 100+j);  *)
(* hi: class of the trace ID; tidOK/sidOK: ID valid (and span ID unique in the process); *)
(* parOK: the span's recorded parent is the context it was started under;              *)
(* flx: bits other than `sampled` of the context the span was started under (see above); *)
(* rec: IsRecording now; onStart/onEnd: calls seen by a plain span processor;           *)
(* expS/expB: times the span reached the exporter of the simple / batch processor.      *)
MkSpan(s, p, flx, tr, hi, par, prov, tid, sid, sidFresh) ==
  LET r == Decide(s, p, hi) IN
  [p |-> prov, tid |-> tid, sid |-> sid,
   tr |-> tr, hi |-> hi, tidOK |-> TRUE, sidOK |-> sidFresh, parOK |-> TRUE, par |-> par,
   d |-> r.d, sampled |-> (r.d = RAS), flx |-> flx, rec |-> (r.d # DROP), ts |-> r.ts, tsAlt |-> r.tsAlt,
   ended |-> FALSE, onStart |-> IF r.d # DROP THEN 1 ELSE 0, onEnd |-> 0, expS |-> 0, expB |-> 0]

EndSpan(sp) ==
  IF sp.ended THEN sp
  ELSE [sp EXCEPT !.ended = TRUE, !.rec = FALSE,
                  !.onEnd = IF sp.d # DROP THEN 1 ELSE 0,
                  !.expS = IF sp.d = RAS THEN 1 ELSE 0,
                  !.expB = IF sp.d = RAS THEN 1 ELSE 0]

ViewOfSpan(sp) == [valid |-> sp.tidOK, remote |-> FALSE, sampled |-> sp.sampled, flx |-> sp.flx,
                   ts |-> sp.ts, tsAlt |-> sp.tsAlt]
(* r: [valid, remote, fl, ts, hi] -- a span context injected into the context           *)
(* (remote = extracted by a propagator; not remote = handed over by another local API,  *)
(* e.g. a wrapper span); fl = its trace-flags byte                                      *)
ViewOfCtx(r) == [valid |-> r.valid, remote |-> r.remote, sampled |-> SampledBit(r.fl), flx |-> OtherBits(r.fl),
                 ts |-> r.ts, tsAlt |-> IF r.valid THEN r.ts ELSE ""]

(* ---- starting and ending spans in a forest ------------------------------------------- *)
(* spans: the spans started so far IN THE PROCESS (creation order, all providers);       *)
(* remotes: the span contexts that can be put into a context; a = [kind, i, newRoot, hi, *)
(* p]: provider p starts a span under no parent | local span i (of any provider) | span  *)
(* context remotes[i]; newRoot = WithNewRoot(); hi = class of the trace ID the ID        *)
(* generator hands out if (and only if) a fresh trace begins.                            *)
FreshTids(spans) == {spans[i].tid : i \in {j \in DOMAIN spans : spans[j].par.fresh}}
NextTr(spans) == 1 + Cardinality(FreshTids(spans))

RawView(spans, remotes, kind, i) ==
  CASE kind = "none"   -> NoParent
    [] kind = "local"  -> ViewOfSpan(spans[i])
    [] kind = "remote" -> ViewOfCtx(remotes[i])

(* SDK span creation step 1: "if there is a valid parent trace ID, use it, otherwise    *)
(* generate a new trace ID"; WithNewRoot ignores whatever the context holds.            *)
Inherits(spans, remotes, kind, i, nr) == ~nr /\ kind # "none" /\ RawView(spans, remotes, kind, i).valid

StartSpanG(mode, s, spans, remotes, a) ==
  LET pv0 == RawView(spans, remotes, a.kind, a.i)
      pv  == IF a.newRoot THEN NoParent ELSE pv0
      inh == Inherits(spans, remotes, a.kind, a.i, a.newRoot)
      k   == Draws(spans, a.p)
      \* a fresh trace draws its trace ID first, then the span ID
      tid == IF inh THEN (IF a.kind = "local" THEN spans[a.i].tid ELSE RemoteTid(a.i)) ELSE GenId(mode, a.p, k + 1)
      sid == GenId(mode, a.p, IF inh THEN k + 1 ELSE k + 2)
      old == {j \in DOMAIN spans : spans[j].par.fresh /\ spans[j].tid = tid}
      tr  == IF inh THEN (IF a.kind = "local" THEN spans[a.i].tr ELSE 100 + a.i)
             ELSE IF old # {} THEN spans[CHOOSE j \in old : TRUE].tr ELSE NextTr(spans)
      h   == IF inh THEN (IF a.kind = "local" THEN spans[a.i].hi ELSE remotes[a.i].hi) ELSE a.hi
      sidFresh == \A j \in DOMAIN spans : spans[j].sid # sid
  IN Append(spans, MkSpan(s, pv, pv0.flx, tr, h, [kind |-> a.kind, i |-> a.i, newRoot |-> a.newRoot, fresh |-> ~inh],
                          a.p, tid, sid, sidFresh))
StartSpan(s, spans, remotes, a) == StartSpanG("own", s, spans, remotes, a)

EndAt(spans, i) == [spans EXCEPT ![i] = EndSpan(@)]

(* ---- the statement, clause by clause, over a sequence of spans ------------------------ *)
FlagIffRAS(spans)   == \A i \in DOMAIN spans : spans[i].sampled <=> (spans[i].d = RAS)
RecIffNotDrop(spans) == \A i \in DOMAIN spans : spans[i].rec <=> (spans[i].d # DROP /\ ~spans[i].ended)
ExportIffSampled(spans) ==
  \A i \in DOMAIN spans :
    /\ spans[i].expS = (IF spans[i].ended /\ spans[i].sampled THEN 1 ELSE 0)
    /\ spans[i].expB = spans[i].expS
    /\ spans[i].onEnd = (IF spans[i].ended /\ spans[i].d # DROP THEN 1 ELSE 0)
    /\ spans[i].onStart = (IF spans[i].d # DROP THEN 1 ELSE 0)
IdsOK(spans) == \A i \in DOMAIN spans : spans[i].tidOK /\ spans[i].sidOK /\ spans[i].parOK
(* "a valid span ID that is unique within the process ... for a root, a fresh valid trace ID": *)
(* over the abstract IDs of ALL providers' spans and the contexts that came in from outside    *)
UniqueInProcess(spans, remotes) ==
  /\ \A i, j \in DOMAIN spans : i # j => spans[i].sid # spans[j].sid
  /\ \A i \in DOMAIN spans : \A j \in DOMAIN remotes : spans[i].sid # RemoteSid(j)
  /\ \A i \in DOMAIN spans : spans[i].par.fresh =>
        /\ \A j \in DOMAIN remotes : spans[i].tid # RemoteTid(j)
        /\ \A j \in 1..(i - 1) : spans[j].tid # spans[i].tid
(* the sampled flag is ONE bit: the other bits of a span's flags never exceed those of the     *)
(* context it was started under (model: equal; the comparison admits every sub-mask)           *)
SubMask(a, b) == \A k \in 0..7 : ((a \div (2 ^ k)) % 2 = 1) => ((b \div (2 ^ k)) % 2 = 1)
=============================================================================
