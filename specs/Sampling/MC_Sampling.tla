--------------------------- MODULE MC_Sampling ---------------------------
EXTENDS Sampling
MCSamplers == @SAMPLERS@
MCRemotes == @REMOTES@
MCHis == @HIS@
MCNewRootFor == @NEWROOTFOR@
=============================================================================
