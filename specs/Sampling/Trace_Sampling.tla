--------------------------- MODULE Trace_Sampling ---------------------------
(* code -> spec: validates recordings of the real SDK against SamplingModel/RatioBits.  *)
(* One line per step:                                                                    *)
(*  Forest{sampler,remotes,acts,obs}  a span forest started/ended on 1..8 real providers *)
(*        of one process (SDK random ID generators; acts[i].p = the provider,            *)
(*        acts[i].hi = class of the trace ID the SDK drew; NewProv = one more provider); *)
(*        the model forest is computed with the operators of SamplingModel and compared  *)
(*        with the projected observation obs (IDs unique over the union of providers).   *)
(*  Ratio{tids,ratios,d,tsKept}       decisions d[t][r] of fresh TraceIDRatioBased(r)    *)
(*        samplers for real trace IDs (8 limbs) and ratio bit patterns (4 limbs).        *)
(*  Ids{src,nprov,...}  counts over 10^4..10^6 spans started from several goroutines on   *)
(*        nprov providers (default ID generators) created up-front / staggered /         *)
(*        concurrently / in a tight loop; uniqueness over the UNION of all providers.    *)
(*  Proc{proc,fls,exp}  spans with the trace-flags bytes fls handed directly to a simple /*)
(*        batch span processor; exp[k] = times span k reached the exporter.              *)
(*  Flush{n,sampled,exported,...}  volume scenario on a batch processor under concurrent *)
(*        ForceFlush: spans 1..n, the sampled ones whose End returned before the final   *)
(*        ForceFlush was called, and every span index the exporter received.             *)
(*  Share{k,n,count}  count of n random root spans sampled at ratio k/64.                *)
EXTENDS SamplingModel, RatioBits, TraceKit

VARIABLES l
vars == <<l>>

(* ---------------------------------------------------------------- forests *)
RECURSIVE RunActs(_, _, _, _)
RunActs(s, remotes, spans, acts) ==
  IF acts = <<>> THEN spans
  ELSE LET a == Head(acts) IN
       RunActs(s, remotes,
               CASE a.op = "Start" -> StartSpan(s, spans, remotes, a)
                 [] a.op = "End" -> EndAt(spans, a.i)
                 [] OTHER -> spans,          \* NewProv: one more provider, no span
               Tail(acts))

DiffField(o, m) ==
  CASE o.tidOK # m.tidOK -> "tidOK"
    [] o.sidOK # m.sidOK -> "sidOK"
    [] o.tr # m.tr -> "tr"
    [] o.hi # m.hi -> "hi"
    [] o.sampled # m.sampled -> "sampled"
    [] ~SubMask(o.flx, m.flx) -> "flx"
    [] o.rec # m.rec -> "rec"
    [] o.ts # m.ts /\ o.ts # m.tsAlt -> "ts"
    [] o.parOK # m.parOK -> "parOK"
    [] o.onStart # m.onStart -> "onStart"
    [] o.onEnd # m.onEnd -> "onEnd"
    [] o.expS # m.expS -> "expS"
    [] o.expB # m.expB -> "expB"
    [] OTHER -> ""

(* which clause of the statement a differing component belongs to *)
ExpClause(o, m) == IF o < m THEN "sampled-not-exported"
                   ELSE IF m = 0 THEN "unsampled-exported" ELSE "exported-more-than-once"
Clause(why, o, m) ==
  CASE why = "expS" -> ExpClause(o.expS, m.expS)
    [] why = "expB" -> ExpClause(o.expB, m.expB)
    [] why \in {"tidOK", "sidOK", "tr", "hi", "parOK"} -> "ids"
    [] why \in {"sampled", "flx"} -> "flag"
    [] why \in {"rec", "onStart", "onEnd"} -> "recording"
    [] why = "ts" -> "tracestate"
    [] OTHER -> why
(* the flags byte of the context span i was started under: -1 none, -2 a local SDK span *)
ParentFlags(e, m, i) ==
  CASE m[i].par.kind = "remote" -> e.remotes[m[i].par.i].fl
    [] m[i].par.kind = "local" -> -2
    [] OTHER -> -1

TForest ==
  /\ l <= Len(Trace) /\ Trace[l].ev = "Forest"
  /\ LET e == Trace[l]
         m == RunActs(e.sampler, e.remotes, <<>>, e.acts)
         bad == IF Len(e.obs) # Len(m) THEN {0}
                ELSE {i \in 1..Len(m) : DiffField(e.obs[i], m[i]) # ""}
     IN bad # {} =>
          LET i == CHOOSE j \in bad : \A k \in bad : j <= k IN
          Viol([line |-> l, kind |-> "forest", sc |-> e.sc, span |-> i,
                why |-> IF i = 0 THEN "nspans" ELSE DiffField(e.obs[i], m[i]),
                clause |-> IF i = 0 THEN "" ELSE Clause(DiffField(e.obs[i], m[i]), e.obs[i], m[i]),
                par |-> IF i = 0 THEN "" ELSE m[i].par.kind,
                pfl |-> IF i = 0 THEN -1 ELSE ParentFlags(e, m, i),
                nprov |-> e.nprov,
                want |-> m, got |-> e.obs])
  /\ l' = l + 1

(* ---------------------------------------------------------------- ratio sampler *)
RatioViols(e) ==
  LET T == 1..Len(e.tids)  R == 1..Len(e.ratios) IN
  \* per decision: only Drop / RecordAndSample, parent's tracestate kept, exact threshold
  {[why |-> "decision", t |-> t, r |-> r] : t \in {t \in T : \E r \in R : e.d[t][r] \notin {0, 1}}, r \in {1}}
  \cup {[why |-> "tracestate", t |-> t, r |-> r] : t \in {t \in T : \E r \in R : e.tsKept[t][r] # 1}, r \in {1}}
  \cup UNION {{[why |-> (IF Class(e.ratios[r]) = "mid" THEN "threshold-" ELSE "extreme-")
                         \o Verdict(e.tids[t], e.ratios[r]), t |-> t, r |-> r]
                 : r \in {r \in R : \/ Verdict(e.tids[t], e.ratios[r]) = "must" /\ e.d[t][r] # 1
                                    \/ Verdict(e.tids[t], e.ratios[r]) = "mustnot" /\ e.d[t][r] # 0}}
              : t \in T}
  \* a trace sampled at r is sampled at every r' >= r
  \cup UNION {{[why |-> "monotone-ratio", t |-> t, r |-> r1]
                 : r1 \in {r1 \in R : \E r2 \in R : RatioLeq(e.ratios[r1], e.ratios[r2])
                                                    /\ e.d[t][r1] = 1 /\ e.d[t][r2] # 1}}
              : t \in T}
  \* deterministic function of the trace ID's weighed bits, monotone in them
  \cup UNION {{[why |-> "monotone-id", t |-> t1, r |-> r]
                 : t1 \in {t1 \in T : \E t2 \in T : XLeq(e.tids[t1], e.tids[t2])
                                                    /\ e.d[t2][r] = 1 /\ e.d[t1][r] # 1}}
              : r \in R}

TRatio ==
  /\ l <= Len(Trace) /\ Trace[l].ev = "Ratio"
  /\ LET e == Trace[l]  vs == RatioViols(e) IN
     \A v \in vs : Viol([line |-> l, kind |-> "ratio", why |-> v.why, t |-> v.t, r |-> v.r,
                         tid |-> e.tids[v.t], ratio |-> e.ratios[v.r], class |-> Class(e.ratios[v.r])])
  /\ l' = l + 1

(* ---------------------------------------------------------------- IDs *)
TIds ==
  /\ l <= Len(Trace) /\ Trace[l].ev = "Ids"
  /\ LET e == Trace[l] IN
     \* n spans of e.nprov providers of ONE process: n distinct valid span IDs; every root a valid
     \* trace ID no other root (of any provider) has; every child its parent's trace ID
     /\ (e.distinctSid # e.n) => Viol([line |-> l, kind |-> "ids", why |-> "span-id-not-unique", src |-> e.src, nprov |-> e.nprov, n |-> e.n, distinct |-> e.distinctSid])
     /\ (e.invalidSid # 0) => Viol([line |-> l, kind |-> "ids", why |-> "span-id-invalid", src |-> e.src, nprov |-> e.nprov, n |-> e.invalidSid])
     /\ (e.invalidTid # 0) => Viol([line |-> l, kind |-> "ids", why |-> "trace-id-invalid", src |-> e.src, nprov |-> e.nprov, n |-> e.invalidTid])
     /\ (e.distinctRootTid # e.roots) => Viol([line |-> l, kind |-> "ids", why |-> "root-trace-id-not-fresh", src |-> e.src, nprov |-> e.nprov, n |-> e.roots, distinct |-> e.distinctRootTid])
     /\ (e.childTidEq # e.children) => Viol([line |-> l, kind |-> "ids", why |-> "child-trace-id", src |-> e.src, nprov |-> e.nprov, n |-> e.children, eq |-> e.childTidEq])
  /\ l' = l + 1

(* ---------------------------------------------------------------- share tracks ratio *)
(* count ~ Binomial(n, k/64): |count - n k/64| <= 6 sigma, sigma^2 = n k (64-k) / 4096.  *)
(* n is a multiple of 4096; the magnitude guard keeps the square below 2^31.            *)
Abs(x) == IF x < 0 THEN -x ELSE x
ShareOK(k, n, count) ==
  LET exp == (n \div 64) * k
      dlt == Abs(count - exp)
      var == (n \div 4096) * k * (64 - k)
  IN n % 4096 = 0 /\ dlt < 40000 /\ dlt * dlt <= 36 * var
TShare ==
  /\ l <= Len(Trace) /\ Trace[l].ev = "Share"
  /\ LET e == Trace[l] IN
     ~ShareOK(e.k, e.n, e.count) =>
        Viol([line |-> l, kind |-> "share", why |-> "share", k |-> e.k, n |-> e.n, count |-> e.count, src |-> e.src])
  /\ l' = l + 1

(* ---------------------------------------------------------------- processors and flags *)
(* "it reaches exporters exactly when sampled": sampled = the low bit of the flags byte.  *)
TProc ==
  /\ l <= Len(Trace) /\ Trace[l].ev = "Proc"
  /\ LET e == Trace[l] IN
     \A k \in 1..Len(e.fls) :
       LET want == IF SampledBit(e.fls[k]) THEN 1 ELSE 0 IN
       (e.exp[k] # want) =>
          Viol([line |-> l, kind |-> "proc", proc |-> e.proc, why |-> ExpClause(e.exp[k], want),
                fl |-> e.fls[k], got |-> e.exp[k], want |-> want])
  /\ l' = l + 1

(* ---------------------------------------------------------------- export under concurrent flushes *)
(* Spans 1..n were started and ended from several goroutines on a provider with a batch  *)
(* processor whose queue cannot overflow, while other goroutines called ForceFlush; then  *)
(* (every End having returned) ForceFlush and Shutdown were called and returned nil.      *)
(* Exactly the sampled spans reached the exporter (exactly-once under interleavings is    *)
(* C01; here only the end-to-end bookkeeping of the clause).                              *)
SeqRange(s) == {s[i] : i \in 1..Len(s)}
Some(S) == IF S = {} THEN 0 ELSE CHOOSE x \in S : TRUE
TFlush ==
  /\ l <= Len(Trace) /\ Trace[l].ev = "Flush"
  /\ LET e == Trace[l]
         want == SeqRange(e.sampled)
         got  == SeqRange(e.exported)
     IN /\ (want \ got # {}) =>
             Viol([line |-> l, kind |-> "flush", why |-> "sampled-not-exported", sc |-> e.sc,
                   count |-> Cardinality(want \ got), first |-> Some(want \ got), n |-> e.n])
        /\ (got \ want # {}) =>
             Viol([line |-> l, kind |-> "flush", why |-> "unsampled-exported", sc |-> e.sc,
                   count |-> Cardinality(got \ want), first |-> Some(got \ want), n |-> e.n])
        /\ (Len(e.exported) # Cardinality(got)) =>
             Viol([line |-> l, kind |-> "flush", why |-> "exported-more-than-once", sc |-> e.sc,
                   count |-> Len(e.exported) - Cardinality(got), first |-> 0, n |-> e.n])
  /\ l' = l + 1

Init == l = 1
TDone == l = Len(Trace) + 1 /\ Accepted(l) /\ UNCHANGED vars
Next == TForest \/ TRatio \/ TIds \/ TShare \/ TProc \/ TFlush \/ TDone
Spec == Init /\ [][Next]_vars
=============================================================================
