--------------------------- MODULE Trace_Sampling ---------------------------
(* code -> spec: validates recordings of the real SDK against SamplingModel/RatioBits.  *)
(* One line per step:                                                                    *)
(*  Forest{sampler,remotes,acts,obs}  a span forest started/ended on a real provider     *)
(*        (SDK random ID generator; acts[i].hi = class of the trace ID the SDK drew);    *)
(*        the model forest is computed with the operators of SamplingModel and compared  *)
(*        with the projected observation obs.                                            *)
(*  Ratio{tids,ratios,d,tsKept}       decisions d[t][r] of fresh TraceIDRatioBased(r)    *)
(*        samplers for real trace IDs (8 limbs) and ratio bit patterns (4 limbs).        *)
(*  Ids{...}    counts over 10^5..10^6 spans started from several goroutines.            *)
(*  Share{k,n,count}  count of n random root spans sampled at ratio k/64.                *)
EXTENDS SamplingModel, RatioBits, TraceKit

VARIABLES l
vars == <<l>>

(* ---------------------------------------------------------------- forests *)
RECURSIVE RunActs(_, _, _, _)
RunActs(s, remotes, spans, acts) ==
  IF acts = <<>> THEN spans
  ELSE LET a == Head(acts) IN
       RunActs(s, remotes,
               IF a.op = "Start" THEN StartSpan(s, spans, remotes, a) ELSE EndAt(spans, a.i),
               Tail(acts))

DiffField(o, m) ==
  CASE o.tidOK # m.tidOK -> "tidOK"
    [] o.sidOK # m.sidOK -> "sidOK"
    [] o.tr # m.tr -> "tr"
    [] o.hi # m.hi -> "hi"
    [] o.sampled # m.sampled -> "sampled"
    [] o.rec # m.rec -> "rec"
    [] o.ts # m.ts /\ o.ts # m.tsAlt -> "ts"
    [] o.parOK # m.parOK -> "parOK"
    [] o.onStart # m.onStart -> "onStart"
    [] o.onEnd # m.onEnd -> "onEnd"
    [] o.expS # m.expS -> "expS"
    [] o.expB # m.expB -> "expB"
    [] OTHER -> ""

TForest ==
  /\ l <= Len(Trace) /\ Trace[l].ev = "Forest"
  /\ LET e == Trace[l]
         m == RunActs(e.sampler, e.remotes, <<>>, e.acts)
         bad == IF Len(e.obs) # Len(m) THEN {0}
                ELSE {i \in 1..Len(m) : DiffField(e.obs[i], m[i]) # ""}
     IN bad # {} =>
          LET i == CHOOSE j \in bad : \A k \in bad : j <= k IN
          Viol([line |-> l, kind |-> "forest", sc |-> e.sc, span |-> i,
                why |-> IF i = 0 THEN "nspans" ELSE DiffField(e.obs[i], m[i]),
                par |-> IF i = 0 THEN "" ELSE m[i].par.kind,
                want |-> m, got |-> e.obs])
  /\ l' = l + 1

(* ---------------------------------------------------------------- ratio sampler *)
RatioViols(e) ==
  LET T == 1..Len(e.tids)  R == 1..Len(e.ratios) IN
  \* per decision: only Drop / RecordAndSample, parent's tracestate kept, exact threshold
  {[why |-> "decision", t |-> t, r |-> r] : t \in {t \in T : \E r \in R : e.d[t][r] \notin {0, 1}}, r \in {1}}
  \cup {[why |-> "tracestate", t |-> t, r |-> r] : t \in {t \in T : \E r \in R : e.tsKept[t][r] # 1}, r \in {1}}
  \cup UNION {{[why |-> (IF Class(e.ratios[r]) = "mid" THEN "threshold-" ELSE "extreme-")
                         \o Verdict(e.tids[t], e.ratios[r]), t |-> t, r |-> r]
                 : r \in {r \in R : \/ Verdict(e.tids[t], e.ratios[r]) = "must" /\ e.d[t][r] # 1
                                    \/ Verdict(e.tids[t], e.ratios[r]) = "mustnot" /\ e.d[t][r] # 0}}
              : t \in T}
  \* a trace sampled at r is sampled at every r' >= r
  \cup UNION {{[why |-> "monotone-ratio", t |-> t, r |-> r1]
                 : r1 \in {r1 \in R : \E r2 \in R : RatioLeq(e.ratios[r1], e.ratios[r2])
                                                    /\ e.d[t][r1] = 1 /\ e.d[t][r2] # 1}}
              : t \in T}
  \* deterministic function of the trace ID's weighed bits, monotone in them
  \cup UNION {{[why |-> "monotone-id", t |-> t1, r |-> r]
                 : t1 \in {t1 \in T : \E t2 \in T : XLeq(e.tids[t1], e.tids[t2])
                                                    /\ e.d[t2][r] = 1 /\ e.d[t1][r] # 1}}
              : r \in R}

TRatio ==
  /\ l <= Len(Trace) /\ Trace[l].ev = "Ratio"
  /\ LET e == Trace[l]  vs == RatioViols(e) IN
     \A v \in vs : Viol([line |-> l, kind |-> "ratio", why |-> v.why, t |-> v.t, r |-> v.r,
                         tid |-> e.tids[v.t], ratio |-> e.ratios[v.r], class |-> Class(e.ratios[v.r])])
  /\ l' = l + 1

(* ---------------------------------------------------------------- IDs *)
TIds ==
  /\ l <= Len(Trace) /\ Trace[l].ev = "Ids"
  /\ LET e == Trace[l] IN
     /\ (e.distinctSid # e.n) => Viol([line |-> l, kind |-> "ids", why |-> "span-id-not-unique", n |-> e.n, distinct |-> e.distinctSid])
     /\ (e.invalidSid # 0) => Viol([line |-> l, kind |-> "ids", why |-> "span-id-invalid", n |-> e.invalidSid])
     /\ (e.invalidTid # 0) => Viol([line |-> l, kind |-> "ids", why |-> "trace-id-invalid", n |-> e.invalidTid])
     /\ (e.distinctRootTid # e.roots) => Viol([line |-> l, kind |-> "ids", why |-> "root-trace-id-not-fresh", n |-> e.roots, distinct |-> e.distinctRootTid])
     /\ (e.childTidEq # e.children) => Viol([line |-> l, kind |-> "ids", why |-> "child-trace-id", n |-> e.children, eq |-> e.childTidEq])
  /\ l' = l + 1

(* ---------------------------------------------------------------- share tracks ratio *)
(* count ~ Binomial(n, k/64): |count - n k/64| <= 6 sigma, sigma^2 = n k (64-k) / 4096.  *)
(* n is a multiple of 4096; the magnitude guard keeps the square below 2^31.            *)
Abs(x) == IF x < 0 THEN -x ELSE x
ShareOK(k, n, count) ==
  LET exp == (n \div 64) * k
      dlt == Abs(count - exp)
      var == (n \div 4096) * k * (64 - k)
  IN n % 4096 = 0 /\ dlt < 40000 /\ dlt * dlt <= 36 * var
TShare ==
  /\ l <= Len(Trace) /\ Trace[l].ev = "Share"
  /\ LET e == Trace[l] IN
     ~ShareOK(e.k, e.n, e.count) =>
        Viol([line |-> l, kind |-> "share", why |-> "share", k |-> e.k, n |-> e.n, count |-> e.count, src |-> e.src])
  /\ l' = l + 1

Init == l = 1
TDone == l = Len(Trace) + 1 /\ Accepted(l) /\ UNCHANGED vars
Next == TForest \/ TRatio \/ TIds \/ TShare \/ TDone
Spec == Init /\ [][Next]_vars
=============================================================================
