----------------------- MODULE MC_ConfigPrecedence -----------------------
(* Enumeration of the full cross product of configuration sources per setting  *)
(* and component (C20).  One step = one configuration case; every edge is      *)
(* printed (EDGE json) with the set of admissible outcomes and replayed on the *)
(* real exporters / SDK components by harness/c20.                             *)
EXTENDS ConfigPrecedence, Json

Families == @FAMILIES@     \* subset of {"endpoint","headers","compression","timeout","sdk","limits","sampler","structs","cross"}
StructMode == @STRUCTMODE@ \* "full": every combination of field classes; "star": uniform structs with one field varied
Exporters == @EXPORTERS@   \* subset of the six OTLP exporters

(* ---- source domains ---- *)
NumEnv(id)  == {Absent, Empty, Valid(id), Bad("vdef"), Bad("nonnum"), Bad("neg"), Bad("zero"), Bad("float"), Bad("overflow"), Src("padded", id)}
NumOpt(id)  == {Absent, Valid(id), Bad("vdef"), Bad("zero"), Bad("neg")}

(* c = component: the default path of its signal is a VALID path value equal to the default *)
URLEnv(c, base) == {Absent, Empty, Src("url", ""), Src("url", "/"), Src("url", base), Src("url", base \o "/"),
                    Src("url", SignalPath(c)), Src("defurl", ""), Src("defurl", SignalPath(c)),
                    Bad("unparsable"), Bad("noscheme"), Src("pathonly", "/p")}
URLOptHTTP(c) == {Absent, Bad("host"), Bad("defhost"), Src("path", "/o"), Src("path", "/o/"), Src("path", SignalPath(c)),
                  Src("hostpath", "/o"), Src("url", ""), Src("url", "/"), Src("url", "/o"), Src("url", "/o/"), Bad("badurl")}
URLEnvGRPC  == {Absent, Empty, Src("url", ""), Src("url", "/"), Src("defurl", ""), Bad("unparsable"), Bad("noscheme"), Src("pathonly", "/p")}
URLOptGRPC  == {Absent, Bad("host"), Bad("defhost"), Src("url", ""), Bad("badurl")}

HdrEnv(id) == {Absent, Empty, Valid(id), Bad("garbage"), Src("partial", id), Bad("badkey")}
HdrOpt     == {Absent, Valid("mO"), Valid("none")}          \* "none" = explicitly empty map

CmpEnv == {Absent, Empty, Valid("gzip"), Valid("none"), Bad("unknown"), Src("case", "gzip")}   \* Valid("none") = the default
CmpOpt(comp) == {Absent, Valid("gzip"), Valid("none")} \cup (IF IsHTTP(comp) THEN {Bad("badenum")} ELSE {Bad("unknown")})

NoCtx == [kind |-> "none", fields |-> <<>>, env |-> Absent]
CaseX(fam, comp, setting, srcs, ctx) == [fam |-> fam, comp |-> comp, setting |-> setting, srcs |-> srcs, ctx |-> ctx]
Case(fam, comp, setting, srcs) == CaseX(fam, comp, setting, srcs, NoCtx)

EndpointCases ==
  UNION {{Case("endpoint", c, "endpoint", <<o, s, g>>) : o \in URLOptHTTP(c), s \in URLEnv(c, "/s"), g \in URLEnv(c, "/g")} :
            c \in {x \in Exporters : IsHTTP(x)}}
  \cup {Case("endpoint", c, "endpoint", <<o, s, g>>) :
      c \in {x \in Exporters : ~IsHTTP(x)}, o \in URLOptGRPC, s \in URLEnvGRPC, g \in URLEnvGRPC}
HeaderCases == {Case("scalar", c, "headers", <<o, s, g>>) : c \in Exporters, o \in HdrOpt, s \in HdrEnv("mS"), g \in HdrEnv("mG")}
CompressionCases == UNION {{Case("scalar", c, "compression", <<o, s, g>>) : o \in CmpOpt(c), s \in CmpEnv, g \in CmpEnv} : c \in Exporters}
TimeoutCases == {Case("scalar", c, "timeout", <<o, s, g>>) : c \in Exporters, o \in NumOpt("O"), s \in NumEnv("S"), g \in NumEnv("G")}

SDKSettings == {"bsp.queue", "bsp.batch", "bsp.timeout", "bsp.delay", "blrp.queue", "blrp.batch", "blrp.timeout", "blrp.delay"}
SDKCases == {Case("scalar", "sdk", st, <<o, e>>) : st \in SDKSettings, o \in NumOpt("O"), e \in NumEnv("S")}

Limits3 == {"span.attr_count", "span.attr_len", "logrecord.attr_count", "logrecord.attr_len"}
Limits2 == {"span.event_count", "span.link_count", "span.event_attr_count", "span.link_attr_count"}
LimitCases ==
  {Case("scalar", "sdk", st, <<o, s, g>>) : st \in Limits3, o \in NumOpt("O"), s \in NumEnv("S"), g \in NumEnv("G")}
  \cup {Case("scalar", "sdk", st, <<o, e>>) : st \in Limits2, o \in NumOpt("O"), e \in NumEnv("S")}

SamplerCases ==
  {Case("sampler", "sdk", "sampler", <<o, n, a>>) :
     o \in {Absent, Valid("traceidratio:R50"), Valid("parentbased_always_on"), Bad("nil")},
     n \in {Valid(x) : x \in SamplerNames} \cup {Absent, Bad("unknown"), Bad("empty"), Src("case", "always_off"),
                                                  Src("case", "traceidratio")},
     a \in {Absent, Valid("R25"), Valid("R0"), Valid("R100"), Bad("nonnum"), Bad("neg"), Bad("gt1"), Bad("empty")}}

(* ---- struct-valued options: every field is provided by the option, also zero-valued fields ----
   One case per (option kind, struct, environment, OBSERVED field): the harness passes the literal
   struct (all fields), sets the field-specific variable of every field as `env` says, and observes
   the field named by `setting`; ctx carries the whole struct.  A field whose carrier is disabled by
   the struct itself (attribute value length without attributes, per-event attributes without events,
   per-link attributes without links) cannot be observed and is not enumerated. *)
FieldClasses == {"zero", "neg", "valid"}
SpanFields == <<"span.attr_count", "span.attr_len", "span.event_count", "span.link_count",
                "span.event_attr_count", "span.link_attr_count">>
LogFields == <<"logrecord.attr_count", "logrecord.attr_len">>
Uniform(n, c) == [i \in 1..n |-> c]
StructsOf(n) ==
  IF StructMode = "full" THEN [1..n -> FieldClasses]
  ELSE {[Uniform(n, base) EXCEPT ![f] = c] : base \in FieldClasses, f \in 1..n, c \in FieldClasses}
OptSrc(kind, cls) ==
  IF cls = "valid" THEN Valid("O") ELSE IF kind = "nonraw" THEN Bad("nr" \o cls)
  ELSE IF cls = "neg" THEN Bad("rawneg") ELSE Bad(cls)
StructEnv == {Absent, Empty, Valid("S"), Bad("nonnum")}
Carrier(fields, f) ==   \* index of the field that must not be disabled for field f to be observable (0: none)
  CASE fields[f] = "span.attr_len" -> 1 [] fields[f] = "span.event_attr_count" -> 3
    [] fields[f] = "span.link_attr_count" -> 4 [] fields[f] = "logrecord.attr_len" -> 1 [] OTHER -> 0
Observable(kind, fields, fs, f) ==
  Carrier(fields, f) = 0 \/ kind = "nonraw" \/ fs[Carrier(fields, f)] # "zero"
StructSrcs(setting, o, e) == IF setting \in Limits3 THEN <<o, e, Absent>> ELSE <<o, e>>
StructCasesOf(kind, fields) ==
  {CaseX("scalar", "sdk", fields[t[3]], StructSrcs(fields[t[3]], OptSrc(kind, t[1][t[3]]), t[2]),
         [kind |-> kind, fields |-> t[1], env |-> t[2]]) :
     t \in {u \in StructsOf(Len(fields)) \X StructEnv \X (1..Len(fields)) : Observable(kind, fields, u[1], u[3])}}
StructCases == StructCasesOf("raw", SpanFields) \cup StructCasesOf("nonraw", SpanFields) \cup StructCasesOf("logopts", LogFields)

(* ---- cross-setting configurations of the batch processors (variables only) ----
   <<queue, batch, export timeout, schedule delay>>; value ids A (small) / B (large).  Enumerated: the
   full queue x batch grid, an ill-formed duration next to valid/absent sizes and the other duration,
   an ill-formed size next to a valid export timeout.  The edge carries the normalized configuration
   the harness has to execute as the reference. *)
SizeIll == {Empty, Bad("nonnum"), Bad("neg"), Bad("zero"), Bad("float"), Bad("overflow")}
DurIll == {Empty, Bad("nonnum"), Bad("neg"), Bad("float"), Bad("overflow")}
SizeEnv == {Absent, Valid("A"), Valid("B")} \cup SizeIll
CrossCfgs ==
  {<<q, b, Absent, Absent>> : q \in SizeEnv, b \in SizeEnv}
  \cup {<<q, b, t, d>> : q \in {Absent, Valid("A")}, b \in {Absent, Valid("A")}, t \in DurIll, d \in {Absent, Valid("A")}}
  \cup {<<q, b, t, d>> : q \in {Absent, Valid("A")}, b \in {Absent, Valid("A")}, t \in {Absent, Valid("A")}, d \in DurIll}
  \cup {<<q, b, Valid("A"), Absent>> : q \in SizeIll, b \in {Absent, Valid("A")}}
  \cup {<<q, b, Valid("A"), Absent>> : q \in {Absent, Valid("A")}, b \in SizeIll}
CrossCases == {Case("cross", p, "cross", c) : p \in {"bsp", "blrp"}, c \in CrossCfgs}

(* ---- value class HUGE (family "huge"): a syntactically valid integer whose unit conversion overflows ----
   durations in milliseconds (v = what a wrapping conversion to nanoseconds would yield: "neg", "zero", "pos" --
   three representatives tables, ONE meaning), an option holding the largest representable duration, a batch size
   near MaxInt.  Star-shaped: the huge source in every position, every other source absent / valid / unparsable.
   Queue sizes are not enumerated: honouring one means allocating it (see docs/notes/C20.md). *)
HugeEnv == {Src("huge", "neg"), Src("huge", "zero"), Src("huge", "pos")}
HugeOpt == {Src("huge", "max")}
Plain(id) == {Absent, Valid(id)}
HugeTimeoutCases ==
  {Case("scalar", c, "timeout", srcs) : c \in Exporters,
     srcs \in {<<o, s, g>> : o \in HugeOpt, s \in Plain("S"), g \in Plain("G")}
           \cup {<<o, s, g>> : o \in Plain("O"), s \in HugeEnv, g \in Plain("G") \cup {Bad("nonnum")}}
           \cup {<<o, s, g>> : o \in Plain("O"), s \in Plain("S") \cup {Bad("nonnum")}, g \in HugeEnv}
           \cup {<<Absent, s, g>> : s \in HugeEnv, g \in HugeEnv}}
HugeSDKSettings == {"bsp.timeout", "bsp.delay", "bsp.batch", "blrp.timeout", "blrp.delay", "blrp.batch"}
HugeSDKCases ==
  {Case("scalar", "sdk", st, srcs) : st \in HugeSDKSettings,
     srcs \in {<<o, e>> : o \in HugeOpt, e \in Plain("S") \cup {Bad("nonnum")}}
           \cup {<<o, e>> : o \in Plain("O") \cup {Bad("neg")}, e \in HugeEnv}}
HugeCases == HugeTimeoutCases \cup HugeSDKCases

(* ---- URL path classes (family "paths"): plain is the base product above; here paths whose characters need
   percent-encoding (raw space), that are already escaped ("%20"), that hold an escaped reserved character
   ("%2F"), sub-delimiters ('+', ';'), an escaped path with a trailing slash, and a URL with a query string --
   through the signal variable, the generic variable, WithEndpointURL and WithURLPath of the three HTTP
   exporters, alone and over / under a plain source of the other kinds. *)
PathVals(base) == {base \o " a", base \o "%20a", base \o "%2Fa", base \o "+a;b", base \o "%20a/", base \o "?q=1"}
PathCases ==
  UNION {
    {Case("endpoint", c, "endpoint", <<Absent, Src("url", v), g>>) : v \in PathVals("/s"), g \in {Absent, Src("url", "/g")}}
    \cup {Case("endpoint", c, "endpoint", <<o, Absent, Src("url", v)>>) : v \in PathVals("/g"), o \in {Absent, Bad("host")}}
    \cup {Case("endpoint", c, "endpoint", <<Src("url", v), s, Absent>>) : v \in PathVals("/o"), s \in {Absent, Src("url", "/s")}}
    \cup {Case("endpoint", c, "endpoint", <<Src(k, v), Absent, g>>) :
            k \in {"path", "hostpath"}, v \in PathVals("/o") \ {"/o?q=1"}, g \in {Absent, Src("url", "/g")}}
    \cup {Case("endpoint", c, "endpoint", <<Absent, Src("url", "/s%20a"), Src("url", "/g%20a")>>),
          Case("endpoint", c, "endpoint", <<Src("path", "/o%20a"), Src("url", "/s%20a"), Absent>>)}
    : c \in {x \in Exporters : IsHTTP(x)}}

Cases ==
  (IF "structs" \in Families THEN StructCases ELSE {})
  \cup (IF "huge" \in Families THEN HugeCases ELSE {})
  \cup (IF "paths" \in Families THEN PathCases ELSE {})
  \cup (IF "cross" \in Families THEN CrossCases ELSE {})
  \cup (IF "endpoint" \in Families THEN EndpointCases ELSE {})
  \cup (IF "headers" \in Families THEN HeaderCases ELSE {})
  \cup (IF "compression" \in Families THEN CompressionCases ELSE {})
  \cup (IF "timeout" \in Families THEN TimeoutCases ELSE {})
  \cup (IF "sdk" \in Families THEN SDKCases ELSE {})
  \cup (IF "limits" \in Families THEN LimitCases ELSE {})
  \cup (IF "sampler" \in Families THEN SamplerCases ELSE {})

(* ---- state machine: unconfigured --Configure(case)--> configured ---- *)
VARIABLES st, act
vars == <<st, act>>
Unconfigured == [phase |-> "unconfigured", allowed |-> {}, ideal |-> {}, norm |-> <<>>]
Init == st = Unconfigured /\ act = [fam |-> "init"]
Configure(c) == /\ st' = (IF c.fam = "cross"
                           THEN [phase |-> "configured", allowed |-> {}, ideal |-> {}, norm |-> NormalizeCross(c.srcs)]
                           ELSE [phase |-> "configured", allowed |-> AllowedFor(c), ideal |-> IdealFor(c), norm |-> <<>>])
                /\ act' = c
Next == st.phase = "unconfigured" /\ \E c \in Cases : Configure(c)
Spec == Init /\ [][Next]_vars
View == <<st, act>>     \* one state per case (act is part of the view on purpose)
EmitEdge == PrintT("EDGE " \o ToJson([from |-> st.phase, act |-> act', to |-> [allowed |-> st'.allowed, ideal |-> st'.ideal, norm |-> st'.norm]]))

(* ---- the statement as invariants over every enumerated case ---- *)
HighestValid(c) ==   \* index of the first non-absent source if it is valid, else 0
  LET idx == {i \in 1..Len(c.srcs) : ~Unset(c.srcs[i])} IN
  IF idx = {} THEN 0
  ELSE LET i == CHOOSE i \in idx : \A j \in idx : i <= j IN
       IF c.fam = "scalar" /\ IsValid(TypeOf(c.setting), DocSrc(c.setting, c.srcs[i])) THEN i ELSE 0

Inv ==
  st.phase = "configured" /\ act.fam # "cross" =>
    /\ st.allowed # {}                           \* some outcome is always admissible
    /\ st.ideal \subseteq st.allowed             \* the ideal resolution is admissible
    /\ st.ideal # {}
    \* a well-formed highest source decides alone, whatever lower sources say (precedence)
    /\ (HighestValid(act) # 0 /\ ~GenericOptional(act.setting)
          => st.allowed = {ValueOf(TypeOf(act.setting), DocSrc(act.setting, act.srcs[HighestValid(act)]))})
    \* nothing configured => exactly the default
    /\ (act.fam = "scalar" /\ (\A i \in 1..Len(act.srcs) : Unset(act.srcs[i]))
          => st.allowed = {DefaultOf(act.setting)})
    \* no ill-formed source anywhere => no choice left (exporters: one host; option paths may be normalised)
    /\ (act.fam = "scalar" /\ (\A i \in 1..Len(act.srcs) : Unset(act.srcs[i]) \/ IsValid(TypeOf(act.setting), DocSrc(act.setting, act.srcs[i])))
          /\ ~GenericOptional(act.setting) => Cardinality(st.allowed) = 1)
    /\ (act.fam = "endpoint" /\ (\A i \in 1..3 : act.srcs[i].k \notin IllFormedURL)
          => Cardinality({r.who : r \in EndpointAllowed(act.comp, act.srcs)}) = 1)

(* struct-valued options: the option decides every field alone, whatever the environment says *)
StructInv ==
  st.phase = "configured" /\ act.ctx.kind # "none" =>
    /\ Cardinality(st.allowed) = 1
    /\ st.allowed = AllowedFor([act EXCEPT !.srcs = [act.srcs EXCEPT ![2] = Absent]])
    /\ (act.ctx.kind = "nonraw" /\ act.srcs[1].k # "valid" => st.allowed = {DefaultOf(act.setting)})
    /\ (act.ctx.kind # "nonraw" /\ act.srcs[1].k = "zero" => st.allowed = {"Z"})
    /\ (act.ctx.kind # "nonraw" /\ act.srcs[1].k = "rawneg" => st.allowed = {"U"})

(* cross-setting clause on the model: for the variables of the batch processors (option absent) an
   ill-formed value without a documented meaning is indistinguishable from an absent one, normalization
   is idempotent and keeps every well-formed source *)
BatchSetting == <<"bsp.queue", "bsp.batch", "bsp.timeout", "bsp.delay">>
CrossInv ==
  st.phase = "configured" /\ act.fam = "cross" =>
    /\ NormalizeCross(st.norm) = st.norm
    /\ \A i \in 1..4 :
         /\ Allowed(CrossTypes[i], <<Absent, act.srcs[i]>>, DefaultOf(BatchSetting[i]))
              = Allowed(CrossTypes[i], <<Absent, st.norm[i]>>, DefaultOf(BatchSetting[i]))
         /\ (st.norm[i] # act.srcs[i] => st.norm[i] = Absent /\ ~IsValid(CrossTypes[i], act.srcs[i]))

(* precedence is monotone: making a lower-precedence source absent never adds outcomes when the
   sources above it contain a well-formed value (checked for every enumerated scalar case) *)
Monotone ==
  st.phase = "configured" /\ act.fam = "scalar" =>
    LET srcs == DocSrcs(act.setting, act.srcs) IN
    \A i \in 1..Len(srcs) :
       (\E j \in 1..(i - 1) : IsValid(TypeOf(act.setting), srcs[j]))
         => Allowed(TypeOf(act.setting), [srcs EXCEPT ![i] = Absent], DefaultOf(act.setting))
              = Allowed(TypeOf(act.setting), srcs, DefaultOf(act.setting))

(* value class HUGE: an overflowing value is either given its meaning (longer / larger than anything observable) or
   ignored -- the admissible outcomes are exactly that meaning plus what the case admits without the source; no
   short duration, no crash: nothing else enters the set *)
HugeInv ==
  st.phase = "configured" /\ act.fam = "scalar" /\ (\E i \in 1..Len(act.srcs) : act.srcs[i].k = "huge") =>
    LET T == TypeOf(act.setting)
        without == [i \in 1..Len(act.srcs) |-> IF act.srcs[i].k = "huge" THEN Absent ELSE act.srcs[i]]
        m == UNION {Meaning(T, act.srcs[i]) : i \in {j \in 1..Len(act.srcs) : act.srcs[j].k = "huge"}}
    IN /\ m # {} /\ m \subseteq {"none", "far", "late", "all"}
       /\ st.allowed \subseteq m \cup AllowedFor([act EXCEPT !.srcs = without]) \cup {DefaultOf(act.setting)}
       /\ st.allowed \cap {"fast", "expired", "PANIC", "HANG"} = {}

(* URL path classes: a request target is never escaped twice and never loses an escape of the written path (the
   only admitted "%25" comes from reading a WithURLPath argument as unescaped); the same written URL gives the same
   target through the signal variable and through WithEndpointURL (uniform across sources) *)
HasSub(p, x) == \E i \in 1..(Len(p) - Len(x) + 1) : SubSeq(p, i, i + Len(x) - 1) = x
PathInv ==
  st.phase = "configured" /\ act.fam = "endpoint" =>
    /\ (\A i \in 1..3 : act.srcs[i].k \notin {"path", "hostpath"}) =>
          \A r \in EndpointAllowed(act.comp, act.srcs) : ~HasSub(r.path, "%25") /\ ~HasSub(r.path, " ")
    /\ (act.srcs[1] = Absent /\ act.srcs[2].k = "url" =>
          LET viaEnv == {r.path : r \in EndpointAllowed(act.comp, act.srcs)}
              viaOpt == {r.path : r \in EndpointAllowed(act.comp, <<act.srcs[2], Absent, Absent>>)}
          IN viaEnv \subseteq viaOpt \/ act.srcs[2].v = "")

(* an empty variable is indistinguishable from an absent one, in every position of every case *)
EmptyIsUnset ==
  st.phase = "configured" /\ act.fam # "cross" =>
    st.allowed = AllowedFor([act EXCEPT !.srcs = [i \in 1..Len(act.srcs) |-> IF act.srcs[i].k = "empty" /\ act.fam # "sampler"
                                                                             THEN Absent ELSE act.srcs[i]]])

(* value class UNPARSABLE: an endpoint source whose text is not a URL is indistinguishable from an absent one, in
   every position (option / signal variable / generic variable) of every exporter: the lower-precedence sources
   decide, the built-in default only when they provide nothing either *)
UnparsableIsUnset ==
  st.phase = "configured" /\ act.fam = "endpoint" =>
    /\ st.allowed = AllowedFor([act EXCEPT !.srcs = [i \in 1..3 |-> IF act.srcs[i].k \in ProvidesNothing THEN Absent ELSE act.srcs[i]]])
    /\ ((\A i \in 1..3 : act.srcs[i].k \in ProvidesNothing \cup {"absent", "empty", "url", "host", "hostpath"})
           /\ (\E i \in 1..3 : act.srcs[i].k \in {"url", "host", "hostpath"})
         => \A r \in EndpointAllowed(act.comp, act.srcs) : r.who # "none")

(* exporters of different signals agree on the rule: the admissible outcomes of a scalar exporter
   setting do not depend on the component; endpoint outcomes differ only by the signal path *)
SignalsAgree ==
  st.phase = "configured" /\ act.fam = "scalar" /\ act.comp \in Exporters =>
    \A c2 \in Exporters : AllowedFor([act EXCEPT !.comp = c2]) = st.allowed
=============================================================================
