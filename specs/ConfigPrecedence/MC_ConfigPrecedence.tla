----------------------- MODULE MC_ConfigPrecedence -----------------------
(* Enumeration of the full cross product of configuration sources per setting  *)
(* and component (C20).  One step = one configuration case; every edge is      *)
(* printed (EDGE json) with the set of admissible outcomes and replayed on the *)
(* real exporters / SDK components by harness/c20.                             *)
EXTENDS ConfigPrecedence, Json

Families == @FAMILIES@     \* subset of {"endpoint","headers","compression","timeout","sdk","limits","sampler"}
Exporters == @EXPORTERS@   \* subset of the six OTLP exporters

(* ---- source domains ---- *)
NumEnv(id)  == {Absent, Valid(id), Bad("nonnum"), Bad("neg"), Bad("zero"), Bad("float"), Bad("overflow"), Src("padded", id)}
NumOpt(id)  == {Absent, Valid(id), Bad("zero"), Bad("neg")}

URLEnv(base) == {Absent, Src("url", ""), Src("url", "/"), Src("url", base), Src("url", base \o "/"),
                 Bad("unparsable"), Bad("noscheme"), Src("pathonly", "/p")}
URLOptHTTP  == {Absent, Bad("host"), Src("path", "/o"), Src("path", "/o/"), Src("hostpath", "/o"),
                Src("url", ""), Src("url", "/"), Src("url", "/o"), Src("url", "/o/"), Bad("badurl")}
URLEnvGRPC  == {Absent, Src("url", ""), Src("url", "/"), Bad("unparsable"), Bad("noscheme"), Src("pathonly", "/p")}
URLOptGRPC  == {Absent, Bad("host"), Src("url", ""), Bad("badurl")}

HdrEnv(id) == {Absent, Valid(id), Bad("garbage"), Src("partial", id), Bad("badkey")}
HdrOpt     == {Absent, Valid("mO"), Valid("none")}          \* "none" = explicitly empty map

CmpEnv == {Absent, Valid("gzip"), Valid("none"), Bad("unknown"), Src("case", "gzip")}
CmpOpt(comp) == {Absent, Valid("gzip"), Valid("none")} \cup (IF IsHTTP(comp) THEN {Bad("badenum")} ELSE {Bad("unknown")})

Case(fam, comp, setting, srcs) == [fam |-> fam, comp |-> comp, setting |-> setting, srcs |-> srcs]

EndpointCases ==
  {Case("endpoint", c, "endpoint", <<o, s, g>>) :
      c \in {x \in Exporters : IsHTTP(x)}, o \in URLOptHTTP, s \in URLEnv("/s"), g \in URLEnv("/g")}
  \cup {Case("endpoint", c, "endpoint", <<o, s, g>>) :
      c \in {x \in Exporters : ~IsHTTP(x)}, o \in URLOptGRPC, s \in URLEnvGRPC, g \in URLEnvGRPC}
HeaderCases == {Case("scalar", c, "headers", <<o, s, g>>) : c \in Exporters, o \in HdrOpt, s \in HdrEnv("mS"), g \in HdrEnv("mG")}
CompressionCases == UNION {{Case("scalar", c, "compression", <<o, s, g>>) : o \in CmpOpt(c), s \in CmpEnv, g \in CmpEnv} : c \in Exporters}
TimeoutCases == {Case("scalar", c, "timeout", <<o, s, g>>) : c \in Exporters, o \in NumOpt("O"), s \in NumEnv("S"), g \in NumEnv("G")}

SDKSettings == {"bsp.queue", "bsp.batch", "bsp.timeout", "bsp.delay", "blrp.queue", "blrp.batch", "blrp.timeout", "blrp.delay"}
SDKCases == {Case("scalar", "sdk", st, <<o, e>>) : st \in SDKSettings, o \in NumOpt("O"), e \in NumEnv("S")}

Limits3 == {"span.attr_count", "span.attr_len", "logrecord.attr_count", "logrecord.attr_len"}
Limits2 == {"span.event_count", "span.link_count", "span.event_attr_count", "span.link_attr_count"}
LimitCases ==
  {Case("scalar", "sdk", st, <<o, s, g>>) : st \in Limits3, o \in NumOpt("O"), s \in NumEnv("S"), g \in NumEnv("G")}
  \cup {Case("scalar", "sdk", st, <<o, e>>) : st \in Limits2, o \in NumOpt("O"), e \in NumEnv("S")}

SamplerCases ==
  {Case("sampler", "sdk", "sampler", <<o, n, a>>) :
     o \in {Absent, Valid("traceidratio:R50"), Bad("nil")},
     n \in {Valid(x) : x \in SamplerNames} \cup {Absent, Bad("unknown"), Bad("empty"), Src("case", "always_off"),
                                                  Src("case", "traceidratio")},
     a \in {Absent, Valid("R25"), Valid("R0"), Bad("nonnum"), Bad("neg"), Bad("gt1"), Bad("empty")}}

Cases ==
  (IF "endpoint" \in Families THEN EndpointCases ELSE {})
  \cup (IF "headers" \in Families THEN HeaderCases ELSE {})
  \cup (IF "compression" \in Families THEN CompressionCases ELSE {})
  \cup (IF "timeout" \in Families THEN TimeoutCases ELSE {})
  \cup (IF "sdk" \in Families THEN SDKCases ELSE {})
  \cup (IF "limits" \in Families THEN LimitCases ELSE {})
  \cup (IF "sampler" \in Families THEN SamplerCases ELSE {})

(* ---- state machine: unconfigured --Configure(case)--> configured ---- *)
VARIABLES st, act
vars == <<st, act>>
Unconfigured == [phase |-> "unconfigured", allowed |-> {}, ideal |-> {}]
Init == st = Unconfigured /\ act = [fam |-> "init"]
Configure(c) == /\ st.phase = "unconfigured"
                /\ st' = [phase |-> "configured", allowed |-> AllowedFor(c), ideal |-> IdealFor(c)]
                /\ act' = c
Next == \E c \in Cases : Configure(c)
Spec == Init /\ [][Next]_vars
View == <<st, act>>     \* one state per case (act is part of the view on purpose)
EmitEdge == PrintT("EDGE " \o ToJson([from |-> st.phase, act |-> act', to |-> [allowed |-> st'.allowed, ideal |-> st'.ideal]]))

(* ---- the statement as invariants over every enumerated case ---- *)
HighestValid(c) ==   \* index of the first non-absent source if it is valid, else 0
  LET idx == {i \in 1..Len(c.srcs) : c.srcs[i].k # "absent"} IN
  IF idx = {} THEN 0
  ELSE LET i == CHOOSE i \in idx : \A j \in idx : i <= j IN
       IF c.fam = "scalar" /\ IsValid(TypeOf(c.setting), c.srcs[i]) THEN i ELSE 0

Inv ==
  st.phase = "configured" =>
    /\ st.allowed # {}                           \* some outcome is always admissible
    /\ st.ideal \subseteq st.allowed             \* the ideal resolution is admissible
    /\ st.ideal # {}
    \* a well-formed highest source decides alone, whatever lower sources say (precedence)
    /\ (HighestValid(act) # 0 /\ ~GenericOptional(act.setting)
          => st.allowed = {ValueOf(TypeOf(act.setting), act.srcs[HighestValid(act)])})
    \* nothing configured => exactly the default
    /\ (act.fam = "scalar" /\ (\A i \in 1..Len(act.srcs) : act.srcs[i].k = "absent")
          => st.allowed = {DefaultOf(act.setting)})
    \* no ill-formed source anywhere => no choice left (exporters: one host; option paths may be normalised)
    /\ (act.fam = "scalar" /\ (\A i \in 1..Len(act.srcs) : act.srcs[i].k = "absent" \/ IsValid(TypeOf(act.setting), act.srcs[i]))
          /\ ~GenericOptional(act.setting) => Cardinality(st.allowed) = 1)
    /\ (act.fam = "endpoint" /\ (\A i \in 1..3 : act.srcs[i].k \notin IllFormedURL)
          => Cardinality({r.who : r \in EndpointAllowed(act.comp, act.srcs)}) = 1)

(* precedence is monotone: making a lower-precedence source absent never adds outcomes when the
   sources above it contain a well-formed value (checked for every enumerated scalar case) *)
Monotone ==
  st.phase = "configured" /\ act.fam = "scalar" =>
    \A i \in 1..Len(act.srcs) :
       (\E j \in 1..(i - 1) : IsValid(TypeOf(act.setting), act.srcs[j]))
         => Allowed(TypeOf(act.setting), [act.srcs EXCEPT ![i] = Absent], DefaultOf(act.setting))
              = Allowed(TypeOf(act.setting), act.srcs, DefaultOf(act.setting))

(* exporters of different signals agree on the rule: the admissible outcomes of a scalar exporter
   setting do not depend on the component; endpoint outcomes differ only by the signal path *)
SignalsAgree ==
  st.phase = "configured" /\ act.fam = "scalar" /\ act.comp \in Exporters =>
    \A c2 \in Exporters : AllowedFor([act EXCEPT !.comp = c2]) = st.allowed
=============================================================================
