------------------------- MODULE ConfigPrecedence -------------------------
(* C20 -- configuration precedence of the OTLP exporters and of the trace / log *)
(* SDK components, transcribed from                                             *)
(*   - the property statement (properties.jsonl C20),                           *)
(*   - OTel spec "OTLP exporter configuration" (endpoint / per-signal URL rules,*)
(*     headers, compression, timeout; option > signal variable > generic        *)
(*     variable > default),                                                     *)
(*   - OTel spec "SDK environment variables" (numeric parsing: unparsable or    *)
(*     out-of-range => warn and treat as not set; Duration non-negative;        *)
(*     Timeout: 0 = no limit; enums case-insensitive; OTEL_TRACES_SAMPLER and _ARG),*)
(*   - the Go option documentation for the meaning of special values            *)
(*     (limits: negative = unlimited, zero = nothing recorded).                 *)
(* NOT transcribed from the Go implementation: it is the oracle both for the    *)
(* replay of every enumerated case and for the validation of recorded runs.     *)
(*                                                                              *)
(* A configuration source is a record [k |-> kind, v |-> payload]:              *)
(*   absent                  the source does not provide the setting            *)
(*   valid  (v = value id)   a well-formed value; value ids are opaque strings  *)
(*   anything else           an ill-formed / out-of-range value of that kind    *)
(* A case lists the sources of ONE setting in precedence order (highest first). *)
(* Resolve = value of the highest-precedence VALID source, else the default.    *)
(* For an ill-formed source the statement leaves a choice ("ignored in favour   *)
(* of defaults or given their documented meaning"): Allowed is the SET of       *)
(* admissible outcomes = documented meaning (if any) + what the lower sources   *)
(* would give + the default; the implementation must land inside the set.       *)
EXTENDS Integers, Sequences, FiniteSets, TLC

Absent == [k |-> "absent", v |-> ""]
(* "empty": the variable is SET to the empty string (${VAR:-} templating).  OTel env-var spec: "the SDK *)
(* MUST interpret an empty value of an environment variable the same way as when the variable is     *)
(* unset": an empty source does not provide the setting, exactly like an absent one.                  *)
Empty == [k |-> "empty", v |-> ""]
Unset(s) == s.k \in {"absent", "empty"}
Valid(v) == [k |-> "valid", v |-> v]
Bad(kind) == [k |-> kind, v |-> ""]
Src(kind, v) == [k |-> kind, v |-> v]

(* ------------------------------------------------------------------------ *)
(* Scalar settings.  type \in                                                *)
(*   "size"     queue / batch sizes: positive integers only                   *)
(*   "limit"    attribute / event / link limits: 0 = record nothing (valid),  *)
(*              negative = unlimited (documented meaning "U")                 *)
(*   "timeout"  OTel Timeout: non-negative ms, 0 = no limit ("none")          *)
(*   "xtimeout" exporter timeout: as "timeout"; the statement's clause about  *)
(*              out-of-range values is scoped to the SDK settings, for the     *)
(*              exporters it only says WHICH source the timeout is taken from: *)
(*              a negative value taken from the deciding source may also be    *)
(*              applied as it is (observed: no deadline at all, "none")        *)
(*   "delay"    OTel Duration: non-negative ms, 0 = immediately ("fast")      *)
(*   "enum"     compression: gzip | none, case-insensitive                    *)
(*   "map"      headers: a whole map, replaced wholesale by a higher source   *)
(* ------------------------------------------------------------------------ *)
Types == {"size", "limit", "timeout", "xtimeout", "delay", "enum", "map"}

IsValid(type, s) == s.k = "valid" \/ (type = "limit" /\ s.k = "zero")
ValueOf(type, s) == IF s.k = "zero" THEN "Z" ELSE s.v

(* documented meaning of an otherwise ill-formed value (empty set: none) *)
Meaning(type, s) ==
  CASE s.k = "padded"                      -> {s.v}     \* valid value surrounded by blanks: may be trimmed
    [] s.k = "zero" /\ type \in {"timeout", "xtimeout"} -> {"none"}  \* OTel Timeout: 0 = no limit
    [] s.k = "neg"  /\ type = "xtimeout"   -> {"none"}  \* exporters: outside the statement, applied as-is admitted
    [] s.k = "zero" /\ type = "delay"      -> {"fast"}  \* OTel Duration: 0 is a legal duration
    [] s.k = "neg"  /\ type = "limit"      -> {"U"}     \* Go docs: negative limit = unlimited
    [] s.k = "case" /\ type = "enum"       -> {s.v}     \* enum values SHOULD be case-insensitive
    [] s.k = "partial" /\ type = "map"     -> {s.v}     \* v = id of the well-formed members
    \* value class HUGE: a syntactically valid integer that no unit conversion can represent (milliseconds that
    \* overflow the nanosecond clock: 9223372036855, MaxInt64, 2^62, 2^64/10^6 + 1; a batch size near MaxInt).
    \* Taken at its word it means "longer / larger than anything that will ever be observed": a timeout that never
    \* limits ("none", or a deadline centuries away: "far"), a schedule delay that never elapses in observable
    \* time ("late"), a batch that holds everything offered ("all").  Like every out-of-range value it may
    \* instead be ignored (lower sources / default: AllowedFrom).  What it may NEVER become: a crash, a hang, or
    \* some other SHORT value (v = what a wrapping multiplication would make of it: neg / zero / pos -- the model
    \* gives all three the same meaning)
    [] s.k = "huge" /\ type \in {"timeout", "xtimeout"} -> {"none", "far"}
    [] s.k = "huge" /\ type = "delay"      -> {"late"}
    [] s.k = "huge" /\ type = "size"       -> {"all"}
    [] OTHER                               -> {}

(* the ideal resolution *)
RECURSIVE ResolveFrom(_, _, _, _)
ResolveFrom(type, srcs, i, dflt) ==
  IF i > Len(srcs) THEN dflt
  ELSE IF IsValid(type, srcs[i]) THEN ValueOf(type, srcs[i])
  ELSE ResolveFrom(type, srcs, i + 1, dflt)
Resolve(type, srcs, dflt) == ResolveFrom(type, srcs, 1, dflt)

(* the admissible outcomes *)
RECURSIVE AllowedFrom(_, _, _, _)
AllowedFrom(type, srcs, i, dflt) ==
  IF i > Len(srcs) THEN {dflt}
  ELSE LET s == srcs[i] IN
       IF Unset(s) THEN AllowedFrom(type, srcs, i + 1, dflt)
       ELSE IF IsValid(type, s) THEN {ValueOf(type, s)}
       ELSE Meaning(type, s) \cup AllowedFrom(type, srcs, i + 1, dflt) \cup {dflt}
Allowed(type, srcs, dflt) == AllowedFrom(type, srcs, 1, dflt)

(* ------------------------------------------------------------------------ *)
(* Endpoint and URL path (OTLP exporter spec).  Sources, highest first:      *)
(*   options : [k, v] with k \in                                              *)
(*      "host"      WithEndpoint(host)            -> host only                *)
(*      "path"      WithURLPath(v)                -> path only                *)
(*      "hostpath"  both                                                      *)
(*      "url"       WithEndpointURL(scheme://host ++ v) -> host and path      *)
(*      "badurl"    WithEndpointURL(unparsable)   -> documented: keeps what   *)
(*                                                   the other sources give   *)
(*   signal variable  OTEL_EXPORTER_OTLP_<SIGNAL>_ENDPOINT : "url" (v = path) *)
(*      host from the URL, path VERBATIM, "" -> "/"                           *)
(*   generic variable OTEL_EXPORTER_OTLP_ENDPOINT : "url" (v = base path)     *)
(*      host from the URL, path = base ++ signal path                         *)
(*   ill-formed URL kinds: "unparsable", "noscheme" (host:port without scheme)*)
(*   "pathonly" (v = an absolute path, no scheme, no host): not a URL an      *)
(*      exporter can send to; the statement does not say whether such a value *)
(*      "provides" the path setting: it may be ignored like any ill-formed    *)
(*      value, or be read as a source that provides the path but no host      *)
(* Outcome: [who, path]; who = id of the collector that received the request  *)
(* ("O","S","G") or "none"; path is unobservable ("") when who = "none".      *)
(* gRPC exporters have no URL path: outcome path is always "".                *)
(* ------------------------------------------------------------------------ *)
SignalOf(comp) ==
  CASE comp \in {"otlptracehttp", "otlptracegrpc"}   -> "traces"
    [] comp \in {"otlpmetrichttp", "otlpmetricgrpc"} -> "metrics"
    [] comp \in {"otlploghttp", "otlploggrpc"}       -> "logs"
SignalPath(comp) == "/v1/" \o SignalOf(comp)
IsHTTP(comp) == comp \in {"otlptracehttp", "otlpmetrichttp", "otlploghttp"}

EndsWithSlash(p) == Len(p) >= 1 /\ SubSeq(p, Len(p), Len(p)) = "/"
RECURSIVE StripSlashes(_)
StripSlashes(p) == IF EndsWithSlash(p) THEN StripSlashes(SubSeq(p, 1, Len(p) - 1)) ELSE p
(* path.Clean-like normalisation restricted to trailing slashes *)
Clean(p) == IF p = "" THEN "" ELSE IF StripSlashes(p) = "" THEN "/" ELSE StripSlashes(p)

(* ---- path classes.  A configured path is WRITTEN (in a variable, in a URL handed to WithEndpointURL); what  *)
(* the statement constrains is the REQUEST TARGET the collector sees on the wire (RFC 9112 origin-form).       *)
(* Wire(p): the request target of a written path: a character that cannot appear in a request target (the    *)
(* space) is percent-encoded; everything else stays AS WRITTEN -- in particular an existing percent-escape is  *)
(* not escaped again ("%20" stays "%20", never "%2520"), an escaped reserved character stays escaped ("%2F" is *)
(* not the path separator "/", RFC 3986 2.2), sub-delimiters ('+', ';') stay literal.                          *)
(* WireAll(p): the reading "p is an UNESCAPED path" (only admitted for WithURLPath, whose documentation does   *)
(* not say whether the argument is escaped): '%' itself is escaped as well.                                     *)
RECURSIVE WireX(_, _)
WireX(p, all) ==
  IF p = "" THEN ""
  ELSE LET h == SubSeq(p, 1, 1) IN
       (IF h = " " THEN "%20" ELSE IF all /\ h = "%" THEN "%25" ELSE h) \o WireX(SubSeq(p, 2, Len(p)), all)
Wire(p) == WireX(p, FALSE)
WireAll(p) == WireX(p, TRUE)
(* a written URL may carry a query string: the statement names host and URL path only, whether the query     *)
(* travels along is left open (both admitted); the PATH part is constrained as always                          *)
RECURSIVE QPos(_, _)
QPos(p, i) == IF i > Len(p) THEN 0 ELSE IF SubSeq(p, i, i) = "?" THEN i ELSE QPos(p, i + 1)
PathPart(p) == IF QPos(p, 1) = 0 THEN p ELSE SubSeq(p, 1, QPos(p, 1) - 1)
QueryPart(p) == IF QPos(p, 1) = 0 THEN "" ELSE SubSeq(p, QPos(p, 1), Len(p))
WithQuery(p, targets) == IF QueryPart(p) = "" THEN targets ELSE targets \cup {t \o QueryPart(p) : t \in targets}

Verbatim(p) == IF p = "" THEN "/" ELSE Wire(p)                  \* signal-specific URL
Appended(comp, p) == Wire(StripSlashes(p)) \o SignalPath(comp)  \* generic URL as base

(* the statement is silent on how option paths are normalised: admit the   *)
(* literal value and its cleaned form; an option URL without a path may    *)
(* mean "/" or the signal's default path                                   *)
OptPaths(comp, p) == IF p = "" THEN {"/", SignalPath(comp)} ELSE {Wire(p), Wire(Clean(p))}
(* WithURLPath(p): p may also be read as an unescaped path *)
OptPathOnly(comp, p) == OptPaths(comp, p) \cup (IF p = "" THEN {} ELSE {WireAll(p), WireAll(Clean(p))})

IllFormedURL == {"unparsable", "noscheme", "pathonly", "badurl"}
(* value class UNPARSABLE: the text cannot be parsed as a URL by any reading ("http://[::1", a control character or a
   space in the scheme, a non-numeric port, a bad percent-escape, host:port without a scheme; for the gRPC exporters
   the same texts: their variables and WithEndpointURL go through the same URL parser, only WithEndpoint(host:port)
   is never parsed).  Such a source provides NOTHING, in whatever position it stands. *)
ProvidesNothing == {"unparsable", "noscheme", "badurl"}
PathOf(comp, i, p) == WithQuery(p, IF i = 2 THEN {Verbatim(PathPart(p))} ELSE {Appended(comp, PathPart(p))})

(* normalised view of source i (1 = options, 2 = signal variable, 3 = generic variable):
   [k \in {"absent","ok","bad"}, host \in {"", id}, paths = set of admissible paths ({} = none given)] *)
EPView(comp, i, s, id) ==
  IF Unset(s) THEN [k |-> "absent", host |-> "", paths |-> {}]
  \* a well-formed value EQUAL TO THE BUILT-IN DEFAULT is still provided by its source: "defhost" =
  \* WithEndpoint(default host:port), "defurl" = variable holding the default URL (v = its path); the
  \* request then goes to the default address, i.e. to none of the observing collectors
  ELSE IF s.k = "defhost" THEN [k |-> "ok", host |-> "none", paths |-> {}]
  ELSE IF s.k = "defurl" THEN [k |-> "ok", host |-> "none", paths |-> PathOf(comp, i, s.v)]
  ELSE IF s.k = "pathonly" THEN [k |-> "bad", host |-> "", paths |-> PathOf(comp, i, s.v)]
  ELSE IF s.k \in IllFormedURL THEN [k |-> "bad", host |-> "", paths |-> {}]
  ELSE IF i = 1 THEN
       CASE s.k = "host"     -> [k |-> "ok", host |-> id, paths |-> {}]
         [] s.k = "path"     -> [k |-> "ok", host |-> "", paths |-> OptPathOnly(comp, s.v)]
         [] s.k = "hostpath" -> [k |-> "ok", host |-> id, paths |-> OptPathOnly(comp, s.v)]
         [] s.k = "url"      -> [k |-> "ok", host |-> id, paths |-> WithQuery(s.v, OptPaths(comp, PathPart(s.v)))]
  ELSE [k |-> "ok", host |-> id, paths |-> PathOf(comp, i, s.v)]

Ids == <<"O", "S", "G">>

(* h = "?" / ps = {} while still undetermined *)
EPDone(comp, h, ps) ==
  LET who == IF h = "?" THEN "none" ELSE h
      pp == IF ps = {} THEN {SignalPath(comp)} ELSE ps
  IN IF who = "none" \/ ~IsHTTP(comp) THEN {[who |-> who, path |-> ""]}
     ELSE {[who |-> who, path |-> p] : p \in pp}

RECURSIVE EPFrom(_, _, _, _, _)
EPFrom(comp, srcs, i, h, ps) ==
  IF i > Len(srcs) THEN EPDone(comp, h, ps)
  ELSE LET s == EPView(comp, i, srcs[i], Ids[i]) IN
       CASE s.k = "absent" -> EPFrom(comp, srcs, i + 1, h, ps)
         [] s.k = "ok"     -> EPFrom(comp, srcs, i + 1,
                                     IF h = "?" /\ s.host # "" THEN s.host ELSE h,
                                     IF ps = {} THEN s.paths ELSE ps)
         \* ill-formed: skipped (lower sources decide).  A value that is NOT A URL AT ALL (ProvidesNothing) provides
         \* no setting: the next source in precedence order decides, exactly as if the value were absent -- "takes
         \* each setting from the highest-precedence source that PROVIDES it" + "unparsable values are ignored".
         \* Only a value whose status the statement leaves open (path-only: it may be read as a provider) may also
         \* make everything still undetermined fall to the built-in default.
         [] s.k = "bad"    -> EPFrom(comp, srcs, i + 1, h, ps)
                              \cup (IF srcs[i].k \in ProvidesNothing THEN {} ELSE EPDone(comp, h, ps))
                              \* a path-only value may also be read as providing (only) the path
                              \cup (IF s.paths # {} THEN EPFrom(comp, srcs, i + 1, h, IF ps = {} THEN s.paths ELSE ps)
                                                           \cup EPDone(comp, h, IF ps = {} THEN s.paths ELSE ps)
                                    ELSE {})
EndpointAllowed(comp, srcs) == EPFrom(comp, srcs, 1, "?", {})

(* the ideal endpoint resolution: ill-formed sources are skipped *)
EndpointResolve(comp, srcs) ==
  EPFrom(comp, [i \in 1..Len(srcs) |-> IF srcs[i].k \in IllFormedURL THEN Absent ELSE srcs[i]], 1, "?", {})

EPOut(r) == r.who \o "|" \o r.path

(* ------------------------------------------------------------------------ *)
(* Sampler (OTEL_TRACES_SAMPLER / OTEL_TRACES_SAMPLER_ARG).                  *)
(* srcs = <<option, name variable, arg variable>>.                           *)
(*   option: valid(v = sampler id) | "nil" (WithSampler(nil): not a value)    *)
(*   name  : valid(v \in SamplerNames) | "case" (v = name, other letter case) *)
(*           | "unknown" | "empty"                                            *)
(*   arg   : valid(v = ratio id) | "nonnum" | "neg" | "gt1" | "empty"         *)
(* Outcome: sampler id = name, or name ++ ":" ++ ratio id for ratio samplers. *)
(* Default: parentbased_always_on.  Ratio default / ill-formed ratio: 1.0.    *)
(* ------------------------------------------------------------------------ *)
SamplerNames == {"always_on", "always_off", "traceidratio", "parentbased_always_on",
                 "parentbased_always_off", "parentbased_traceidratio"}
RatioNames == {"traceidratio", "parentbased_traceidratio"}
DefaultSampler == "parentbased_always_on"

SamplerOfEnv(name, arg) ==
  IF name \notin RatioNames THEN {name}
  ELSE IF arg.k = "valid" THEN {name \o ":" \o arg.v}
  ELSE {name \o ":R100"}      \* unset, or ill-formed => treated as not set => 1.0

SamplerAllowed(srcs) ==
  LET opt == srcs[1]  name == srcs[2]  arg == srcs[3]
      env == CASE Unset(name) -> {DefaultSampler}
               [] name.k = "valid"  -> SamplerOfEnv(name.v, arg)
               [] name.k = "case"   -> SamplerOfEnv(name.v, arg) \cup {DefaultSampler}
               [] OTHER             -> {DefaultSampler}
  IN IF opt.k = "valid" THEN {opt.v} ELSE env

(* ------------------------------------------------------------------------ *)
(* Setting table: type and default outcome per (component, setting)          *)
(* ------------------------------------------------------------------------ *)
TypeOf(setting) ==
  CASE setting = "headers"     -> "map"
    [] setting = "compression" -> "enum"
    [] setting = "timeout" -> "xtimeout"
    [] setting \in {"bsp.timeout", "blrp.timeout"} -> "timeout"
    [] setting \in {"bsp.delay", "blrp.delay"} -> "delay"
    [] setting \in {"bsp.queue", "bsp.batch", "blrp.queue", "blrp.batch"} -> "size"
    [] OTHER -> "limit"

(* value-length limits default to "no limit"; everything else has a finite default "D" *)
DefaultOf(setting) ==
  CASE setting = "headers"     -> "none"
    [] setting = "compression" -> "none"
    [] setting \in {"span.attr_len", "logrecord.attr_len"} -> "U"
    [] OTHER -> "D"

(* The generic OTEL_ATTRIBUTE_*_LIMIT variables are listed by the statement only as variables that
   follow option > environment > default; whether log records fall back to them is not stated:
   both readings are admitted for the log record limits. *)
GenericOptional(setting) == setting \in {"logrecord.attr_count", "logrecord.attr_len"}

(* ------------------------------------------------------------------------ *)
(* Options whose documentation gives ill-formed-looking values a meaning.     *)
(* A struct-valued option (WithRawSpanLimits / WithSpanLimits) PROVIDES every *)
(* field, also fields holding the zero value: an explicitly supplied zero is  *)
(* still "provided by the highest-precedence source".                         *)
(*   WithRawSpanLimits (doc): "used as-is ... zero disables the related       *)
(*     resource, negative means unlimited; the zero-value SpanLimits disables *)
(*     all span resources"  -> field kinds "zero" (valid, Z) / "neg" (U)       *)
(*   WithSpanLimits (doc, deprecated): "any field zero or negative is replaced*)
(*     with the default value for that field" -> kinds "nrzero" / "nrneg":     *)
(*     the option provides the DEFAULT of that field (not the environment)    *)
(*   WithAttributeCountLimit / WithAttributeValueLengthLimit (log): as raw    *)
(* ------------------------------------------------------------------------ *)
(*   kind "rawneg": a negative field of a struct / log option, documented as   *)
(*     "no limit is applied" -> the option provides U                          *)
(*   kind "vdef": a well-formed value numerically / textually EQUAL TO THE      *)
(*     BUILT-IN DEFAULT of the setting (128, -1, 2048, 512, 5000, 30000, 10 s):*)
(*     it is provided by its source like any other valid value and beats every *)
(*     lower source, although the outcome happens to equal the default         *)
DocSrc(setting, s) == IF s.k \in {"nrzero", "nrneg", "vdef"} THEN Valid(DefaultOf(setting))
                      ELSE IF s.k = "rawneg" THEN Valid("U") ELSE s
DocSrcs(setting, srcs) == [i \in 1..Len(srcs) |-> DocSrc(setting, srcs[i])]

(* A case: [fam, comp, setting, srcs] ; outcome strings *)
AllowedFor(c) ==
  CASE c.fam = "endpoint" -> {EPOut(r) : r \in EndpointAllowed(c.comp, c.srcs)}
    [] c.fam = "sampler"  -> SamplerAllowed(c.srcs)
    [] c.fam = "scalar"   ->
         LET srcs == DocSrcs(c.setting, c.srcs) IN
         Allowed(TypeOf(c.setting), srcs, DefaultOf(c.setting))
         \cup (IF GenericOptional(c.setting) /\ Len(srcs) = 3
               THEN Allowed(TypeOf(c.setting), SubSeq(srcs, 1, 2), DefaultOf(c.setting)) ELSE {})

IdealFor(c) ==
  CASE c.fam = "endpoint" -> {EPOut(r) : r \in EndpointResolve(c.comp, c.srcs)}
    [] c.fam = "sampler"  -> SamplerAllowed(c.srcs)
    [] c.fam = "scalar"   -> {Resolve(TypeOf(c.setting), DocSrcs(c.setting, c.srcs), DefaultOf(c.setting))}

(* ------------------------------------------------------------------------ *)
(* Cross-setting clause (batch processors).  "Ignored in favour of defaults" *)
(* = treated like unset: an ill-formed value WITHOUT a documented meaning in *)
(* one variable must behave exactly like that variable being absent, also in *)
(* what it does to the OTHER settings of the component.  How valid settings  *)
(* interact (e.g. batch size clamped by the queue size) is NOT judged: the   *)
(* clause is an equivalence on configurations,                               *)
(*        Outcome(cfg) = Outcome(NormalizeCross(cfg)),                       *)
(* checked metamorphically on the real component (both configurations are    *)
(* executed and every observable of the component is compared).              *)
(* A cross configuration = the four variables of the processor in the order  *)
(* <<queue size, batch size, export timeout, schedule delay>>.               *)
(* ------------------------------------------------------------------------ *)
IllFormed(type, s) == s.k # "absent" /\ ~IsValid(type, s) /\ Meaning(type, s) = {}   \* includes "empty"
Norm(type, s) == IF IllFormed(type, s) THEN Absent ELSE s
CrossTypes == <<"size", "size", "timeout", "delay">>
NormalizeCross(srcs) == [i \in 1..4 |-> Norm(CrossTypes[i], srcs[i])]
=============================================================================
