---------------------- MODULE Trace_ConfigPrecedence ----------------------
(* code -> spec: validates recorded configuration scenarios of the real exporters / *)
(* SDK components against ConfigPrecedence.  One line = one scenario:               *)
(*   [ev |-> "Cfg", sc, kind, comp, cases |-> << [fam, comp, setting, srcs, obs, ..] >>] *)
(* A scenario configures several settings at once; every case lists the abstract    *)
(* sources of ONE setting (same vocabulary as MC_ConfigPrecedence) and `obs`, the    *)
(* set of abstract outcomes compatible with what the real component was observed to *)
(* do.  The specification decides: the observation must meet AllowedFor(case).      *)
(* obs = <<"unobservable">>: the setting could not be observed in this scenario     *)
(* (e.g. no request was delivered, the configured sampler dropped the probe span).  *)
EXTENDS ConfigPrecedence, TraceKit

VARIABLES l
vars == <<l>>

ObsSet(c) == {c.obs[i] : i \in 1..Len(c.obs)}
CaseOf(c) == [fam |-> c.fam, comp |-> c.comp, setting |-> c.setting, srcs |-> c.srcs]
Unobservable(c) == c.obs = <<"unobservable">>
CaseOK(c) == Unobservable(c) \/ (ObsSet(c) \cap AllowedFor(CaseOf(c))) # {}

Init == l = 1

TCfg == /\ l <= Len(Trace) /\ Trace[l].ev = "Cfg"
        /\ \A i \in 1..Len(Trace[l].cases) :
              LET c == Trace[l].cases[i] IN
              ~CaseOK(c) => Viol([line |-> l, sc |-> Trace[l].sc, kind |-> Trace[l].kind, idx |-> i,
                                   case |-> CaseOf(c), obs |-> c.obs, allowed |-> AllowedFor(CaseOf(c)),
                                   ideal |-> IdealFor(CaseOf(c))])
        /\ l' = l + 1

(* cross-setting clause: line [ev |-> "Pair", comp, srcs, norm, obs, ref]: the harness executed the   *)
(* configuration srcs and the reference configuration norm and logged every observable of the         *)
(* processor for both.  The specification re-derives the reference (a different one is harness drift) *)
(* and demands equal observations.                                                                      *)
TPair == /\ l <= Len(Trace) /\ Trace[l].ev = "Pair"
         /\ LET r == Trace[l]
                n == NormalizeCross(r.srcs)
                same == \A i \in 1..4 : r.norm[i] = n[i]
            IN /\ (~same => Viol([line |-> l, kind |-> "drift", comp |-> r.comp, srcs |-> r.srcs, norm |-> r.norm, want |-> n]))
               /\ (same /\ r.obs # r.ref =>
                     Viol([line |-> l, kind |-> "cross", comp |-> r.comp, srcs |-> r.srcs, norm |-> r.norm,
                           obs |-> r.obs, ref |-> r.ref]))
         /\ l' = l + 1

TDone == l = Len(Trace) + 1 /\ Accepted(l) /\ UNCHANGED vars

Next == TCfg \/ TPair \/ TDone
Spec == Init /\ [][Next]_vars

(* model-side sanity at every recorded case: some outcome is admissible, the ideal one is *)
Inv == l <= Len(Trace) /\ Trace[l].ev = "Cfg" =>
         \A i \in 1..Len(Trace[l].cases) :
            LET c == CaseOf(Trace[l].cases[i]) IN AllowedFor(c) # {} /\ IdealFor(c) \subseteq AllowedFor(c)
=============================================================================
