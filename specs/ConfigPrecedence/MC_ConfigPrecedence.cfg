SPECIFICATION Spec
ACTION_CONSTRAINT EmitEdge
INVARIANT Inv Monotone SignalsAgree StructInv CrossInv
CHECK_DEADLOCK FALSE
