SPECIFICATION Spec
ACTION_CONSTRAINT EmitEdge
INVARIANT Inv Monotone SignalsAgree StructInv CrossInv EmptyIsUnset
CHECK_DEADLOCK FALSE
