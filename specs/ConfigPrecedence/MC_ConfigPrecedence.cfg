SPECIFICATION Spec
ACTION_CONSTRAINT EmitEdge
INVARIANT Inv Monotone SignalsAgree StructInv CrossInv EmptyIsUnset HugeInv PathInv UnparsableIsUnset
CHECK_DEADLOCK FALSE
