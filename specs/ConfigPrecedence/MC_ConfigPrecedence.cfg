SPECIFICATION Spec
ACTION_CONSTRAINT EmitEdge
INVARIANT Inv Monotone SignalsAgree
CHECK_DEADLOCK FALSE
