SPECIFICATION Spec
ACTION_CONSTRAINT EmitEdge
INVARIANT Inv Monotone SignalsAgree StructInv CrossInv EmptyIsUnset HugeInv PathInv
CHECK_DEADLOCK FALSE
