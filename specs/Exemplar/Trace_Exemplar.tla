--------------------------- MODULE Trace_Exemplar ---------------------------
(* X01, code -> spec (and the judge of the edge replay): validates what ONE reader    *)
(* of a real MeterProvider reported for ONE metric stream, collection by collection,  *)
(* against ExemplarModel.  The harness only executes and projects; every expectation  *)
(* is evaluated here.                                                                  *)
(*                                                                                    *)
(* Lines:  New{sc, temp, C}    fresh (reader, stream): temporality and configuration  *)
(*         Cycle{sc, ops, has, nprov, noff, pts}                                       *)
(*            ops   the measurements made on the stream's instrument since this        *)
(*                  reader's previous collection [o, g, s, v, cls, c]                  *)
(*            has   the reader reported the stream at all                              *)
(*            nprov / noff   reservoirs created / offers received by the stream's       *)
(*                  user-supplied reservoir provider so far (-1: none installed)       *)
(*            pts   reported data points [attrs, n, nx, ex]: n = value (sum, gauge) or  *)
(*                  count (histograms) in 1/unit, nx = n is exactly representable;     *)
(*                  ex = exemplars [v, cls, sp, tr, fa, pk, haspk, cand, ge, le]:      *)
(*                  sp / tr  the measurement order encoded in the span / trace ID the  *)
(*                           harness made for that measurement's context (0 = the ID   *)
(*                           is empty, -1 = an ID the harness never issued)            *)
(*                  fa       FilteredAttributes                                        *)
(*                  pk       attributes the ReservoirProvider was called with (user     *)
(*                           reservoirs only: haspk)                                   *)
(*                  cand     orders of the measurements whose Measure / Observe call     *)
(*                           window (monotonic clock, same process) contains Time       *)
(*                  ge / le  point.StartTime <= Time / Time <= point.Time                *)
EXTENDS ExemplarModel, TraceKit

VARIABLES l, C, temp, past, aggsets
vars == <<l, C, temp, past, aggsets>>

C0 == [filter |-> "trace", res |-> [kind |-> "default", k |-> 0, bounds |-> <<>>], agg |-> "sum", hb |-> <<>>,
       maxsize |-> 0, ncpu |-> 1, keep |-> [all |-> TRUE, keys |-> <<>>], async |-> FALSE, limit |-> 0]

NormM(m) == [o |-> m.o, g |-> m.g, s |-> ToSet(m.s), v |-> m.v, cls |-> m.cls, c |-> m.c, ov |-> FALSE]
(* Cardinality limit (the rule C12 checks): a measurement whose attribute set is not yet *)
(* among the stream's sets when limit - 1 sets exist is aggregated into the overflow set  *)
(* (which then counts as a set).  kn = the sets the aggregate currently holds.            *)
RECURSIVE Fold(_, _, _)
Fold(ops, kn, acc) ==
  IF ops = <<>> THEN [ms |-> acc, kn |-> kn]
  ELSE LET m == NormM(Head(ops))
           p == Kept(C, m.s)
           cnt == Counted(C, m)
           ov == cnt /\ C.limit > 0 /\ p \notin kn /\ Cardinality(kn) >= C.limit - 1
           kn2 == IF ~cnt THEN kn ELSE IF ov THEN kn \cup {OverflowSet} ELSE kn \cup {p}
       IN Fold(Tail(ops), kn2, Append(acc, [m EXCEPT !.ov = ov]))
(* the aggregate forgets its attribute sets at a delta collection (observable sums and    *)
(* gauges at every collection)                                                             *)
Forgets == temp = "delta" \/ (C.async /\ C.agg \in {"sum", "last"})

-----------------------------------------------------------------------------
(* "every exported exemplar corresponds to a measurement actually made on that stream *)
(* and attribute set": value, trace / span ID, FilteredAttributes = measurement        *)
(* attributes minus the attributes the point keeps (exactly), Time inside the call.     *)
(* Exemplar godoc: IDs are "empty if no span was active or the span was not sampled";  *)
(* the OTel specification records the IDs of the active span whatever its sampling     *)
(* flag: for an UNSAMPLED valid span context both readings are admitted.                *)
ValOK(m, e) == m.v = e.v /\ m.cls = e.cls
IdsOK(m, e) == CASE m.c = "none" -> e.sp = 0 /\ e.tr = 0
                 [] m.c = "unsampled" -> (e.sp = m.o /\ e.tr = m.o) \/ (e.sp = 0 /\ e.tr = 0)
                 [] OTHER -> e.sp = m.o /\ e.tr = m.o
FaOK(m, e) == ToSet(e.fa) = Dropped(C, m)
PtOK(m, p) == Pt(C, m) = p

Ident(all, p, e) ==
  {all[i].o : i \in {j \in DOMAIN all : /\ all[j].o \in ToSet(e.cand) /\ PtOK(all[j], p) /\ ValOK(all[j], e)
                                        /\ IdsOK(all[j], e) /\ FaOK(all[j], e)}}

WhyNot(all, p, e) ==
  LET K == {j \in DOMAIN all : all[j].o \in ToSet(e.cand)} IN
  IF K = {} THEN
       (IF \E j \in DOMAIN all : PtOK(all[j], p) /\ ValOK(all[j], e) /\ IdsOK(all[j], e) /\ FaOK(all[j], e)
        THEN "exemplar-time-outside-the-measurement-call" ELSE "exemplar-matches-no-measurement")
  ELSE IF \E j \in K : PtOK(all[j], p) /\ ValOK(all[j], e) /\ IdsOK(all[j], e) THEN "filtered-attributes"
  ELSE IF \E j \in K : ValOK(all[j], e) /\ IdsOK(all[j], e) THEN "exemplar-in-the-point-of-another-attribute-set"
  ELSE IF \E j \in K : PtOK(all[j], p) /\ IdsOK(all[j], e) THEN "exemplar-value"
  ELSE IF \E j \in K : PtOK(all[j], p) /\ ValOK(all[j], e) THEN "trace-or-span-id"
  ELSE "exemplar-matches-no-measurement"

(* all sets of distinct representatives: one measurement per exemplar, none twice *)
RECURSIVE SDRs(_, _)
SDRs(ids, i) ==
  IF i > Len(ids) THEN {{}}
  ELSE UNION {{({x} \cup T) : T \in {U \in SDRs(ids, i + 1) : x \notin U}} : x \in ids[i]}

PointClauses(all, cur, R) ==
  LET p == ToSet(R.attrs)
      ids == [i \in DOMAIN R.ex |-> Ident(all, p, R.ex[i])]
      unknown == {i \in DOMAIN R.ex : ids[i] = {}}
      sdrs == SDRs(ids, 1)
      pn == PointNumber(C, temp, past, cur, p)
  IN
  (IF p \notin MayExist(C, temp, past, cur) THEN {"point-of-a-set-never-measured"} ELSE {})
  \cup {WhyNot(all, p, R.ex[i]) : i \in unknown}
  \cup (IF \E i \in DOMAIN R.ex : ~R.ex[i].ge THEN {"exemplar-time-before-point-start"} ELSE {})
  \cup (IF \E i \in DOMAIN R.ex : ~R.ex[i].le THEN {"exemplar-time-after-point-time"} ELSE {})
  \cup (IF \E i \in DOMAIN R.ex : R.ex[i].haspk /\ ToSet(R.ex[i].pk) # p THEN {"provider-called-with-other-attributes"} ELSE {})
  \cup (IF pn.known /\ R.nx /\ R.n # pn.n THEN {"point-value-or-count"} ELSE {})
  \cup (IF unknown # {} THEN {}
        ELSE IF sdrs = {} THEN {"one-measurement-exported-twice"}
        ELSE IF \E S \in sdrs : IsAdmitted(C, temp, past, cur, p, S) THEN {}
        ELSE AdmClauses(C, temp, past, cur, p, CHOOSE S \in sdrs : TRUE))

CycleViols(T, cur) ==
  LET all == past \o cur
      ps == [i \in DOMAIN T.pts |-> ToSet(T.pts[i].attrs)]
  IN
  IF C.agg = "drop" THEN
       {[a |-> <<>>, clause |-> c] : c \in
          (IF T.has \/ T.pts # <<>> THEN {"dropped-stream-reported"} ELSE {})
          \cup (IF T.nprov > 0 THEN {"drop-aggregation-created-a-reservoir"} ELSE {})
          \cup (IF T.noff > 0 THEN {"drop-aggregation-offered-a-measurement"} ELSE {})}
  ELSE
       {[a |-> <<>>, clause |-> "point-missing"] : q \in {x \in MustExist(C, temp, past, cur) : \A i \in DOMAIN ps : ps[i] # x}}
       \cup {[a |-> T.pts[i].attrs, clause |-> "attribute-set-reported-twice"] :
               i \in {j \in DOMAIN ps : \E j2 \in DOMAIN ps : j2 # j /\ ps[j2] = ps[j]}}
       \cup UNION {{[a |-> T.pts[i].attrs, clause |-> c] : c \in PointClauses(all, cur, T.pts[i])} : i \in DOMAIN T.pts}

-----------------------------------------------------------------------------
Init == l = 1 /\ C = C0 /\ temp = "delta" /\ past = <<>> /\ aggsets = {}

(* reset action: many (reader, stream) traces are validated by one TLC run *)
TNew == /\ l <= Len(Trace) /\ Trace[l].ev = "New"
        /\ C' = Trace[l].C /\ temp' = Trace[l].temp /\ past' = <<>> /\ aggsets' = {}
        /\ l' = l + 1

TCycle ==
  /\ l <= Len(Trace) /\ Trace[l].ev = "Cycle"
  /\ LET T == Trace[l]
         fd == Fold(T.ops, aggsets, <<>>)
         cur == fd.ms
         viols == CycleViols(T, cur)
     IN /\ past' = past \o cur
        /\ aggsets' = IF Forgets THEN {} ELSE fd.kn
        /\ \A v \in viols : Viol([line |-> l, sc |-> T.sc, a |-> v.a, clause |-> v.clause])
  /\ l' = l + 1 /\ UNCHANGED <<C, temp>>

TDone == l = Len(Trace) + 1 /\ Accepted(l) /\ UNCHANGED vars

Next == TNew \/ TCycle \/ TDone
Spec == Init /\ [][Next]_vars

Inv == l \in 1..(Len(Trace) + 1) /\ temp \in {"delta", "cumulative"}
=============================================================================
