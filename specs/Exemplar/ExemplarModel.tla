--------------------------- MODULE ExemplarModel ---------------------------
(* X01 (specification growth) -- metric EXEMPLARS of one metric stream as seen by  *)
(* one reader.  Transcribed from the godoc of go.opentelemetry.io/otel/sdk/metric/  *)
(* exemplar (Filter, Reservoir, ReservoirProvider, FixedSizeReservoir,              *)
(* HistogramReservoir, Exemplar), of sdkmetric.WithExemplarFilter /                 *)
(* DefaultExemplarReservoirProviderSelector / Stream, and from the OpenTelemetry    *)
(* metrics SDK specification (Exemplar, ExemplarFilter, ExemplarReservoir) -- NOT   *)
(* from the aggregators.  Pure operators only; Exemplar.tla (exhaustive             *)
(* exploration with an implementation-shaped reservoir model, edge export) and      *)
(* Trace_Exemplar.tla (judging real executions) both build on it.                   *)
(*                                                                                  *)
(* Configuration record C (one stream = instrument x view):                         *)
(*   filter  "on" | "off" | "trace"    the provider's exemplar filter (AlwaysOn,    *)
(*           AlwaysOff, TraceBased = the default)                                   *)
(*   res     [kind, k, bounds]  kind "default" (DefaultExemplarReservoirProvider-    *)
(*           Selector: resolved by Res from agg / hb / maxsize / ncpu), "fixed"      *)
(*           (FixedSizeReservoir(k)), "hist" (HistogramReservoir(bounds)),           *)
(*           "keepall" (a user-supplied reservoir that returns everything offered)   *)
(*   agg     "sum" | "last" | "hist" | "expo" | "drop"                               *)
(*   hb      the aggregation's explicit bucket boundaries (agg = "hist"), 1/unit     *)
(*   maxsize the exponential histogram's MaxSize (agg = "expo")                      *)
(*   ncpu    runtime.NumCPU() of the machine (an environment fact)                   *)
(*   keep    [all, keys]  the view's attribute filter: keep every key / only keys    *)
(*   async   observable instrument (measurements = observations in callbacks)        *)
(*   limit   cardinality limit of the stream (0 = none; experimental feature of the   *)
(*           SDK, C12's subject: here only the ATTRIBUTION of exemplars under it)     *)
(* A measurement m: [o, g, s, v, cls, c, ov]                                         *)
(*   o   order (unique in the history), g group (measurements issued concurrently    *)
(*       share g; their mutual order is unknown), s attribute set (set of [k, v]),   *)
(*   v   value in 1/unit, cls "fin" | "nan" | "pinf" | "ninf",                       *)
(*   c   context kind "none" | "unsampled" | "sampled" (valid span context)          *)
(*   ov  the measurement was folded into the overflow attribute set (cardinality      *)
(*       limit; decided by Fold in Trace_Exemplar from the order of the history)      *)
(* A history of one (reader, stream) is past \o cur: the measurements before the     *)
(* reader's previous collection and those of the open interval.                      *)
EXTENDS Integers, Sequences, FiniteSets

ToSet(q) == {q[i] : i \in DOMAIN q}
Min2(a, b) == IF a <= b THEN a ELSE b
MaxOf(S) == CHOOSE x \in S : \A y \in S : y <= x

-----------------------------------------------------------------------------
(* the view's attribute filter: point identity and FilteredAttributes *)
KeepKeys(C) == ToSet(C.keep.keys)
Kept(C, s) == IF C.keep.all THEN s ELSE {a \in s : a.k \in KeepKeys(C)}
(* the attribute set a measurement is aggregated into, and what the point does NOT    *)
(* keep of it: "FilteredAttributes are the attributes recorded with the measurement   *)
(* but filtered out of the timeseries' aggregated data" / OTel: "Exemplars MUST retain *)
(* any attributes available in the measurement that are not preserved by aggregation   *)
(* or view configuration" -- for a measurement folded into the overflow set that is     *)
(* every attribute it was made with.  (Attribute values are in the harness's projection *)
(* encoding TYPE:value.)                                                                *)
OverflowSet == {[k |-> "otel.metric.overflow", v |-> "BOOL:true"]}
Pt(C, m) == IF m.ov THEN OverflowSet ELSE Kept(C, m.s)
Dropped(C, m) == m.s \ Pt(C, m)

(* DefaultExemplarReservoirProviderSelector (godoc): explicit bucket histograms with  *)
(* more than 1 bucket -> HistogramReservoir over the aggregation's boundaries;        *)
(* exponential histograms -> FixedSize(min(20, max_buckets)); everything else ->      *)
(* FixedSize(number of CPUs).                                                         *)
Res(C) ==
  IF C.res.kind = "fixed" THEN [C.res EXCEPT !.k = IF @ < 0 THEN 0 ELSE @]     \* "at most k": nothing for k <= 0
  ELSE IF C.res.kind # "default" THEN C.res
  ELSE IF C.agg = "hist" /\ Len(C.hb) > 0 THEN [kind |-> "hist", k |-> 0, bounds |-> C.hb]
  ELSE IF C.agg = "expo" THEN [kind |-> "fixed", k |-> Min2(20, C.maxsize), bounds |-> <<>>]
  ELSE [kind |-> "fixed", k |-> C.ncpu, bounds |-> <<>>]

(* what the aggregation takes at all: nothing when dropped; a base-2 exponential      *)
(* histogram has no bucket for NaN / +-Inf and ignores such measurements entirely      *)
Counted(C, m) == C.agg # "drop" /\ (C.agg = "expo" => m.cls = "fin")
(* ExemplarFilter: AlwaysOff -> never; TraceBased -> only measurements made in the     *)
(* context of a SAMPLED span; AlwaysOn -> every measurement                             *)
FilterOK(C, m) == CASE C.filter = "on" -> TRUE
                    [] C.filter = "off" -> FALSE
                    [] OTHER -> m.c = "sampled"
Eligible(C, m) == Counted(C, m) /\ FilterOK(C, m)

OnP(C, p, ms) == SelectSeq(ms, LAMBDA m : Pt(C, m) = p /\ Counted(C, m))
Elig(C, p, ms) == SelectSeq(ms, LAMBDA m : Pt(C, m) = p /\ Eligible(C, m))
Orders(ms) == {ms[i].o : i \in DOMAIN ms}
ByOrder(ms, o) == ms[CHOOSE i \in DOMAIN ms : ms[i].o = o]

(* explicit buckets, OTel data model: bucket i (1-based) = (bounds[i-1], bounds[i]],  *)
(* upper bound inclusive; bucket Len+1 = (last bound, +inf)                            *)
Bucket(bounds, m) == CASE m.cls = "ninf" -> 1
                       [] m.cls \in {"pinf", "nan"} -> Len(bounds) + 1
                       [] OTHER -> 1 + Cardinality({i \in DOMAIN bounds : bounds[i] < m.v})
InBucket(bounds, ms, b) == {i \in DOMAIN ms : Bucket(bounds, ms[i]) = b}
(* the orders that may count as "the latest measurement of bucket b": the last one,    *)
(* or any member of the last concurrent group that reached the bucket; {} if none      *)
LatestIn(bounds, ms, b) ==
  LET I == InBucket(bounds, ms, b) IN
  IF I = {} THEN {} ELSE {ms[i].o : i \in {j \in I : ms[j].g = ms[MaxOf(I)].g}}
HasNaN(ms) == \E i \in DOMAIN ms : ms[i].cls = "nan"

-----------------------------------------------------------------------------
(* Which attribute sets does the reader report?  Delta: the sets measured in the open  *)
(* interval.  Cumulative, synchronous: every set ever measured.  Asynchronous: the     *)
(* sets observed in this collection (an aggregation that keeps older ones is C08's      *)
(* subject: admitted here).  A point without a measurement in the interval is          *)
(* admitted everywhere (it carries no exemplar of the interval).                        *)
PointSets(C, ms) == {Pt(C, ms[i]) : i \in {j \in DOMAIN ms : Counted(C, ms[j])}}
MustExist(C, temp, past, cur) ==
  PointSets(C, cur) \cup (IF temp = "cumulative" /\ ~C.async THEN PointSets(C, past) ELSE {})
MayExist(C, temp, past, cur) == PointSets(C, cur) \cup PointSets(C, past)

-----------------------------------------------------------------------------
(* THE CONTRACT.  S = the set of measurements (orders) whose exemplars the point of     *)
(* attribute set p carries, temp = the reader's temporality.  AdmClauses returns the    *)
(* names of the clauses S breaks ({} = admitted).                                        *)
(*   scope   every exemplar is an ELIGIBLE measurement of THIS attribute set; delta: of   *)
(*           the open interval only; cumulative: "Exemplars reported against a metric    *)
(*           data point SHOULD have occurred within the start/stop timestamps of that     *)
(*           point" = any time since the stream's start.                                  *)
(*   fixed   FixedSizeReservoir(k): at most k; "if there are k or less measurements made, *)
(*           the Reservoir will sample each one"; beyond k random replacement (any        *)
(*           choice, but the reservoir stays full).  The sampling count restarts at every *)
(*           collection (spec: "any stateful portion of sampling computation SHOULD be    *)
(*           reset every collection cycle"), so the clause speaks about the offers of     *)
(*           the open interval; a cumulative point may additionally keep older exemplars  *)
(*           in the slots the interval did not claim.                                     *)
(*   hist    HistogramReservoir(bounds): "samples the last measurement that falls within  *)
(*           a histogram bucket": per bucket exactly the latest eligible measurement of   *)
(*           the scope ("the Reservoir state is preserved after [Collect]": whole history *)
(*           when cumulative), nothing for a bucket no eligible measurement reached.       *)
(*           NaN belongs to no bucket: histories with an eligible NaN only keep the       *)
(*           at-most-one-per-bucket part for the finite values.                            *)
(*   keepall a user reservoir returning all it was offered: exactly the eligible          *)
(*           measurements of the scope (what the SDK offers = what the filter admits).    *)
(* Asynchronous streams, cumulative: the SDK may or may not carry the set's reservoir      *)
(* into the next collection; both scopes are admitted.                                     *)
BadClause(C, all, o) ==
  LET m == ByOrder(all, o) IN
  IF ~Counted(C, m) THEN "exemplar-of-ignored-measurement"
  ELSE IF ~FilterOK(C, m) THEN "filter-" \o C.filter \o "-offers-" \o m.c
  ELSE "exemplar-from-earlier-interval"

AdmClauses(C, temp, past, cur, p, S) ==
  LET R == Res(C)
      all == past \o cur
      ce == Elig(C, p, cur)
      ae == Elig(C, p, all)
      CO == Orders(ce)
      AO == Orders(ae)
      cum == temp = "cumulative"
      allowed == IF cum THEN AO ELSE CO
      loose == cum /\ C.async
      scope == IF cum THEN ae ELSE ce
      nb == Len(R.bounds) + 1
      InB(b) == {o \in S \cap AO : Bucket(R.bounds, ByOrder(all, o)) = b}
      Want(b) == IF loose THEN {LatestIn(R.bounds, ae, b), LatestIn(R.bounds, ce, b)} ELSE {LatestIn(R.bounds, scope, b)}
  IN
  {BadClause(C, all, o) : o \in S \ allowed}
  \cup (CASE R.kind = "fixed" ->
               (IF Cardinality(S) > R.k THEN {"more-than-k"} ELSE {})
               \cup (IF Len(ce) <= R.k /\ ~(CO \subseteq S) THEN {"offer-within-capacity-not-stored"} ELSE {})
               \cup (IF Len(ce) > R.k /\ Cardinality(S \cap CO) < R.k THEN {"fewer-than-k-of-more-than-k-offers"} ELSE {})
          [] R.kind = "hist" ->
               UNION {(IF Cardinality(InB(b)) > 1 THEN {"two-exemplars-in-one-bucket"} ELSE {})
                      \cup (IF HasNaN(ae) THEN {}
                            ELSE IF InB(b) = {} THEN (IF {} \in Want(b) THEN {} ELSE {"bucket-without-its-exemplar"})
                            ELSE IF \E w \in Want(b) : InB(b) \subseteq w THEN {} ELSE {"not-the-latest-of-its-bucket"})
                      : b \in 1..nb}
          [] R.kind = "keepall" ->
               (IF ~(CO \subseteq S) THEN {"eligible-measurement-not-offered"} ELSE {})
               \cup (IF cum /\ ~loose /\ ~(AO \subseteq S) THEN {"eligible-measurement-not-offered"} ELSE {})
          [] OTHER -> {"unknown-reservoir-kind"})

IsAdmitted(C, temp, past, cur, p, S) == AdmClauses(C, temp, past, cur, p, S) = {}
(* the admitted SET of outcomes for point p after the history past \o cur *)
Admitted(C, temp, past, cur, p) ==
  {S \in SUBSET Orders(past \o cur) : IsAdmitted(C, temp, past, cur, p, S)}

-----------------------------------------------------------------------------
(* The data point itself is unaffected by exemplars: value / count of a SYNCHRONOUS   *)
(* stream from the measurements alone (asynchronous values are C08's subject).        *)
RECURSIVE SumV(_)
SumV(ms) == IF ms = <<>> THEN 0 ELSE Head(ms).v + SumV(Tail(ms))
AllFin(ms) == \A i \in DOMAIN ms : ms[i].cls = "fin"
(* [known, n]: known = the model fixes the number (finite values, sequential tail)    *)
PointNumber(C, temp, past, cur, p) ==
  LET ms == OnP(C, p, IF temp = "cumulative" THEN past \o cur ELSE cur) IN
  IF C.async \/ ms = <<>> THEN [known |-> FALSE, n |-> 0]
  ELSE CASE C.agg = "sum" -> [known |-> AllFin(ms), n |-> SumV(ms)]
         [] C.agg = "last" -> [known |-> ms[Len(ms)].cls = "fin"
                                         /\ \A i \in DOMAIN ms : i # Len(ms) => ms[i].g # ms[Len(ms)].g,
                               n |-> ms[Len(ms)].v]
         [] OTHER -> [known |-> TRUE, n |-> Len(ms)]
=============================================================================
