SPECIFICATION Spec
CONSTANTS
  Cfg <- MCCfg
  Alpha <- MCAlpha
  MaxMeas = @MAXMEAS@
  MaxCollect = @MAXCOLLECT@
VIEW View
ACTION_CONSTRAINT EmitEdge
INVARIANT Inv
PROPERTY ReportsAdmitted
CHECK_DEADLOCK FALSE
