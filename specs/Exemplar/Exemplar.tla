------------------------------ MODULE Exemplar ------------------------------
(* X01 -- exhaustive exploration.  One metric stream (configuration Cfg) read by a   *)
(* DELTA and a CUMULATIVE reader at the same collection points.  The API-level       *)
(* history h (Measure / Collect events) is the state the contract speaks about; next *)
(* to it runs an IMPLEMENTATION-SHAPED model of the reservoirs (per reader and        *)
(* attribute set: slots, offer count; FixedSize = fill the first k slots, then        *)
(* nondeterministically skip or overwrite any slot; Histogram = overwrite the slot    *)
(* of the bucket; delta / precomputed aggregates forget the reservoir at collection,  *)
(* cumulative ones keep the slots and restart the count).  TLC checks on every        *)
(* Collect edge that what this model reports is in the contract's admitted set         *)
(* (ReportsAdmitted) -- the contract is not stricter than a faithful implementation -- *)
(* and prints every Collect edge with its history; harness/x01 replays the history on  *)
(* a real MeterProvider and Trace_Exemplar.tla judges what the real readers returned.  *)
EXTENDS ExemplarModel, TLC, Json

CONSTANTS Cfg,         \* configuration record (see ExemplarModel)
          Alpha,       \* measurement alphabet: set of [s, v, cls, c]
          MaxMeas,     \* bound on measurements per history
          MaxCollect   \* bound on collection points per history

VARIABLES h, rs, rep, act
vars == <<h, rs, rep, act>>

Readers == {"delta", "cumulative"}
Points == {Kept(Cfg, a.s) : a \in Alpha}
R0 == Res(Cfg)

IsM(e) == e.op = "M"
IsC(e) == e.op = "C"
NMeas(hh) == Len(SelectSeq(hh, IsM))
NColl(hh) == Len(SelectSeq(hh, IsC))
LastC(hh) == IF \E i \in DOMAIN hh : IsC(hh[i]) THEN MaxOf({i \in DOMAIN hh : IsC(hh[i])}) ELSE 0
PastM(hh) == SelectSeq(SubSeq(hh, 1, LastC(hh)), IsM)
CurM(hh) == SelectSeq(SubSeq(hh, LastC(hh) + 1, Len(hh)), IsM)

Slots0 == CASE R0.kind = "fixed" -> [i \in 1..R0.k |-> 0]
            [] R0.kind = "hist" -> [i \in 1..(Len(R0.bounds) + 1) |-> 0]
            [] OTHER -> <<>>
Fresh == [live |-> FALSE, slots |-> Slots0, cnt |-> 0]
(* the aggregate forgets the attribute set (and its reservoir) at every collection *)
Forget(rd) == rd = "delta" \/ (Cfg.async /\ Cfg.agg \in {"sum", "last"})

(* the states a reservoir may be in after being offered measurement m *)
Offer(r, m) ==
  CASE R0.kind = "fixed" ->
         IF r.cnt < R0.k THEN {[r EXCEPT !.slots[r.cnt + 1] = m.o, !.cnt = @ + 1]}
         ELSE {r} \cup {[r EXCEPT !.slots[i] = m.o] : i \in 1..R0.k}
    [] R0.kind = "hist" -> {[r EXCEPT !.slots[Bucket(R0.bounds, m)] = m.o]}
    [] OTHER -> {[r EXCEPT !.slots = Append(@, m.o)]}

After(r, m) == IF ~Counted(Cfg, m) THEN {r}
               ELSE IF ~FilterOK(Cfg, m) THEN {[r EXCEPT !.live = TRUE]}
               ELSE {[x EXCEPT !.live = TRUE] : x \in Offer(r, m)}

Init == /\ h = <<>>
        /\ rs = [rd \in Readers |-> [p \in Points |-> Fresh]]
        /\ rep = [rd \in Readers |-> [p \in Points |-> [has |-> FALSE, S |-> {}]]]
        /\ act = [op |-> "Init"]

Measure(a) ==
  /\ NMeas(h) < MaxMeas
  /\ LET o == NMeas(h) + 1
         m == [op |-> "M", o |-> o, g |-> o, s |-> a.s, v |-> a.v, cls |-> a.cls, c |-> a.c, ov |-> FALSE]
         p == Kept(Cfg, a.s)
     IN /\ h' = Append(h, m)
        /\ act' = m
        /\ \E nd \in After(rs["delta"][p], m), nc \in After(rs["cumulative"][p], m) :
              rs' = [rs EXCEPT !["delta"][p] = nd, !["cumulative"][p] = nc]
  /\ UNCHANGED rep

Collect ==
  /\ NColl(h) < MaxCollect
  /\ h' = Append(h, [op |-> "C"])
  /\ act' = [op |-> "C"]
  /\ rep' = [rd \in Readers |-> [p \in Points |->
               IF rs[rd][p].live THEN [has |-> TRUE, S |-> ToSet(rs[rd][p].slots) \ {0}]
               ELSE [has |-> FALSE, S |-> {}]]]
  /\ rs' = [rd \in Readers |-> [p \in Points |->
               IF Forget(rd) THEN Fresh ELSE [rs[rd][p] EXCEPT !.cnt = 0]]]

DoMeasure == \E a \in Alpha : Measure(a)
DoCollect == Collect
Next == DoMeasure \/ DoCollect
Spec == Init /\ [][Next]_vars

(* act is a history variable; h is the API-level history and part of the state: every  *)
(* distinct history is explored, and every Collect edge is printed once per reservoir  *)
(* state it can be taken in (the python driver drops the duplicates).                   *)
View == <<h, rs, rep>>
EmitEdge == IsC(act') => PrintT("EDGE " \o ToJson([path |-> h, act |-> act', k |-> NColl(h')]))

(* the contract on the implementation-shaped model, on every Collect edge *)
ReportsAdmitted ==
  [][IsC(act') =>
       \A rd \in Readers, p \in Points :
         LET past == PastM(h)
             cur == CurM(h)
             r == rep'[rd][p]
         IN /\ (p \in MustExist(Cfg, rd, past, cur) => r.has)
            /\ (r.has => p \in MayExist(Cfg, rd, past, cur))
            /\ (r.has => IsAdmitted(Cfg, rd, past, cur, p, r.S))
            /\ (MaxMeas <= 3 /\ r.has => r.S \in Admitted(Cfg, rd, past, cur, p))]_vars

(* AlwaysOff: nothing is ever reported; capacity *)
Inv == \A rd \in Readers, p \in Points :
         /\ (Cfg.filter = "off" => rep[rd][p].S = {})
         /\ (R0.kind = "fixed" => Cardinality(rep[rd][p].S) <= R0.k)
         /\ (R0.kind = "hist" => Cardinality(rep[rd][p].S) <= Len(R0.bounds) + 1)
=============================================================================
