----------------------------- MODULE SpanModel -----------------------------
(* Reference model of a recording span (C04): ordered attribute map with a     *)
(* count limit and exact dropped accounting, bounded FIFOs of events and links *)
(* with per-item attribute caps, status precedence, name, frozen after End.    *)
(* Pure operators: Apply(L, st, op) is the state after op under limits L.      *)
(* L = [ac, vl, ec, lc, pe, pl]  (attribute count, value length, event count,  *)
(*      link count, per-event attrs, per-link attrs); negative = unlimited.    *)
EXTENDS Naturals, Integers, Sequences, Truncate

(* attribute: [k |-> key string ("" = invalid), t |-> type, x |-> <<syms,...>>] *)
(* types: "s" string, "ss" string slice, "i" anything else (never truncated)    *)
TruncVal(F(_, _), lim, a) ==
  IF a.t \in {"s", "ss"} THEN [i \in 1..Len(a.x) |-> F(lim, a.x[i])] ELSE a.x

Stored(L, a) == [k |-> a.k, t |-> a.t, x |-> TruncVal(Trunc, L.vl, a), y |-> TruncVal(TruncAlt, L.vl, a)]

Empty == [attrs |-> <<>>, dropped |-> 0, events |-> <<>>, evDropped |-> 0,
          links |-> <<>>, lkDropped |-> 0, code |-> "Unset", desc |-> "", name |-> "n0",
          ended |-> FALSE]

IndexOf(attrs, k) == IF \E i \in 1..Len(attrs) : attrs[i].k = k
                     THEN CHOOSE i \in 1..Len(attrs) : attrs[i].k = k ELSE 0

(* one offered attribute: invalid key -> dropped; existing key -> update even  *)
(* when full; new key -> insert if room, else dropped                           *)
Offer(L, m, a) ==
  IF a.k = "" THEN [m EXCEPT !.dropped = @ + 1]
  ELSE LET i == IndexOf(m.attrs, a.k) IN
       IF i # 0 THEN [m EXCEPT !.attrs[i] = Stored(L, a)]
       ELSE IF L.ac < 0 \/ Len(m.attrs) < L.ac
            THEN [m EXCEPT !.attrs = Append(@, Stored(L, a))]
            ELSE [m EXCEPT !.dropped = @ + 1]

RECURSIVE OfferAll(_, _, _)
OfferAll(L, m, list) == IF list = <<>> THEN m ELSE OfferAll(L, Offer(L, m, Head(list)), Tail(list))

SetAttributes(L, st, list) ==
  LET m == OfferAll(L, [attrs |-> st.attrs, dropped |-> st.dropped], list)
  IN [st EXCEPT !.attrs = m.attrs, !.dropped = m.dropped]

(* bounded FIFO: capacity 0 drops everything, full evicts the oldest *)
FifoAdd(q, cap, e) ==
  IF cap = 0 THEN [q |-> q, d |-> 1]
  ELSE IF cap > 0 /\ Len(q) = cap THEN [q |-> Append(Tail(q), e), d |-> 1]
  ELSE [q |-> Append(q, e), d |-> 0]

Capped(n, cap) == IF cap < 0 \/ n <= cap THEN [n |-> n, d |-> 0] ELSE [n |-> cap, d |-> n - cap]

AddEvent(L, st, nm, n) ==
  LET c == Capped(n, L.pe)
      r == FifoAdd(st.events, L.ec, [name |-> nm, n |-> c.n, d |-> c.d])
  IN [st EXCEPT !.events = r.q, !.evDropped = @ + r.d]

(* a link with an invalid span context, no attributes and no tracestate is ignored *)
AddLink(L, st, valid, n) ==
  IF ~valid /\ n = 0 THEN st
  ELSE LET c == Capped(n, L.pl)
           r == FifoAdd(st.links, L.lc, [valid |-> valid, n |-> c.n, d |-> c.d])
       IN [st EXCEPT !.links = r.q, !.lkDropped = @ + r.d]

Rank(c) == CASE c = "Unset" -> 0 [] c = "Error" -> 1 [] c = "Ok" -> 2
SetStatus(st, c, d) ==
  IF Rank(st.code) > Rank(c) THEN st
  ELSE [st EXCEPT !.code = c, !.desc = IF c = "Error" THEN d ELSE ""]

Apply(L, st, op) ==
  IF st.ended THEN st      \* calls made after End change nothing
  ELSE CASE op.op = "SetAttributes" -> SetAttributes(L, st, op.attrs)
         [] op.op = "AddEvent"      -> AddEvent(L, st, op.name, op.n)
         [] op.op = "RecordError"   -> AddEvent(L, st, "exception", op.n + 2)
         [] op.op = "AddLink"       -> AddLink(L, st, op.valid, op.n)
         [] op.op = "SetStatus"     -> SetStatus(st, op.code, op.desc)
         [] op.op = "SetName"       -> [st EXCEPT !.name = op.name]
         [] op.op = "End"           -> [st EXCEPT !.ended = TRUE]

-----------------------------------------------------------------------------
(* The statement as invariants of any reachable model state *)
KeysUnique(st) == \A i, j \in 1..Len(st.attrs) : st.attrs[i].k = st.attrs[j].k => i = j
CountBound(L, st) == /\ (L.ac >= 0 => Len(st.attrs) <= L.ac)
                     /\ (L.ec >= 0 => Len(st.events) <= L.ec)
                     /\ (L.lc >= 0 => Len(st.links) <= L.lc)
                     /\ \A i \in 1..Len(st.events) : L.pe >= 0 => st.events[i].n <= L.pe
                     /\ \A i \in 1..Len(st.links) : L.pl >= 0 => st.links[i].n <= L.pl
NoInvalidKey(st) == \A i \in 1..Len(st.attrs) : st.attrs[i].k # ""
LengthBound(L, st) == \A i \in 1..Len(st.attrs) : st.attrs[i].t \in {"s", "ss"} /\ L.vl >= 0 =>
                         \A j \in 1..Len(st.attrs[i].x) : Len(st.attrs[i].x[j]) <= L.vl
DescOnlyForError(st) == st.code # "Error" => st.desc = ""
=============================================================================
