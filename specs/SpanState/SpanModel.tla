----------------------------- MODULE SpanModel -----------------------------
(* Reference model of a recording span (C04): ordered attribute map with a     *)
(* count limit and exact dropped accounting, bounded FIFOs of events and links *)
(* with per-item attribute caps, status precedence, name, frozen after End.    *)
(* Pure operators: Apply(L, st, op) is the state after op under limits L.      *)
(* L = [ac, vl, ec, lc, pe, pl]  (attribute count, value length, event count,  *)
(*      link count, per-event attrs, per-link attrs); negative = unlimited.    *)
(* A span comes into being by Start(attrs, links): the start options are the   *)
(* same SetAttributes / AddLink steps as later calls (trace.WithAttributes,    *)
(* trace.WithLinks: "added to the existing Span links"), nothing else.         *)
EXTENDS Naturals, Integers, Sequences, Truncate

(* attribute: [k |-> key string ("" = invalid), t |-> type, x |-> <<syms,...>>] *)
(* types: "s" string, "ss" string slice, "i" anything else (never truncated)    *)
TruncVal(F(_, _), lim, a) ==
  IF a.t \in {"s", "ss"} THEN [i \in 1..Len(a.x) |-> F(lim, a.x[i])] ELSE a.x

Stored(L, a) == [k |-> a.k, t |-> a.t, x |-> TruncVal(Trunc, L.vl, a), y |-> TruncVal(TruncAlt, L.vl, a)]

Empty == [attrs |-> <<>>, dropped |-> 0, events |-> <<>>, evDropped |-> 0,
          links |-> <<>>, lkDropped |-> 0, code |-> "Unset", desc |-> "", name |-> "n0",
          ended |-> FALSE, started |-> TRUE]
Unstarted == [Empty EXCEPT !.started = FALSE]      \* no span yet: only Start applies

IndexOf(attrs, k) == IF \E i \in 1..Len(attrs) : attrs[i].k = k
                     THEN CHOOSE i \in 1..Len(attrs) : attrs[i].k = k ELSE 0

(* one offered attribute: invalid key -> dropped; existing key -> update even  *)
(* when full; new key -> insert if room, else dropped                           *)
Offer(L, m, a) ==
  IF a.k = "" THEN [m EXCEPT !.dropped = @ + 1]
  ELSE LET i == IndexOf(m.attrs, a.k) IN
       IF i # 0 THEN [m EXCEPT !.attrs[i] = Stored(L, a)]
       ELSE IF L.ac < 0 \/ Len(m.attrs) < L.ac
            THEN [m EXCEPT !.attrs = Append(@, Stored(L, a))]
            ELSE [m EXCEPT !.dropped = @ + 1]

RECURSIVE OfferAll(_, _, _)
OfferAll(L, m, list) == IF list = <<>> THEN m ELSE OfferAll(L, Offer(L, m, Head(list)), Tail(list))

SetAttributes(L, st, list) ==
  LET m == OfferAll(L, [attrs |-> st.attrs, dropped |-> st.dropped], list)
  IN [st EXCEPT !.attrs = m.attrs, !.dropped = m.dropped]

(* bounded FIFO: capacity 0 drops everything, full evicts the oldest *)
FifoAdd(q, cap, e) ==
  IF cap = 0 THEN [q |-> q, d |-> 1]
  ELSE IF cap > 0 /\ Len(q) = cap THEN [q |-> Append(Tail(q), e), d |-> 1]
  ELSE [q |-> Append(q, e), d |-> 0]

Capped(n, cap) == IF cap < 0 \/ n <= cap THEN [n |-> n, d |-> 0] ELSE [n |-> cap, d |-> n - cap]

(* ---- events.  The attributes of one event are a LIST (trace.WithAttributes:  *)
(* successive options extend, "no guarantee of uniqueness"): entry j of the     *)
(* caller's list is [k |-> key, i |-> j]; the per-event cap keeps the first     *)
(* `cap` entries of the list and counts every other one as dropped.             *)
UserKs(keys) == [j \in 1..Len(keys) |-> [k |-> keys[j], i |-> j]]
CapList(list, cap) == IF cap < 0 \/ Len(list) <= cap THEN [ks |-> list, d |-> 0]
                      ELSE [ks |-> SubSeq(list, 1, cap), d |-> Len(list) - cap]

(* list / list2: the two admissible orders of the same attributes (equal for AddEvent) *)
AddEventL(L, st, nm, ts, list, list2) ==
  LET c == CapList(list, L.pe)
      c2 == CapList(list2, L.pe)
      r == FifoAdd(st.events, L.ec, [name |-> nm, ts |-> ts, ks |-> c.ks, ks2 |-> c2.ks, d |-> c.d])
  IN [st EXCEPT !.events = r.q, !.evDropped = @ + r.d]

AddEvent(L, st, nm, ts, keys) == AddEventL(L, st, nm, ts, UserKs(keys), UserKs(keys))

(* RecordError(err, opts): an event named "exception" whose attributes are the  *)
(* generated exception.type, exception.message and -- with WithStackTrace(true) *)
(* -- exception.stacktrace, together with the caller's attributes, ALL of them  *)
(* subject to the per-event cap and counted when cut.  Nothing documents        *)
(* whether the caller's or the generated attributes come first: both orders    *)
(* are admitted (ks = caller's first, as the SDK does; ks2 = generated first);  *)
(* the dropped count is the same for both.  A nil error records nothing.        *)
GenKs(stack) == <<[k |-> "exception.type", i |-> 0], [k |-> "exception.message", i |-> 0]>>
                \o (IF stack THEN <<[k |-> "exception.stacktrace", i |-> 0]>> ELSE <<>>)
RecordError(L, st, nilerr, stack, ts, keys) ==
  IF nilerr THEN st
  ELSE AddEventL(L, st, "exception", ts, UserKs(keys) \o GenKs(stack), GenKs(stack) \o UserKs(keys))

(* ---- links.  lk = [valid, tst, n]: valid span context?, non-empty trace state?,*)
(* number of attributes.  A link with an invalid span context is ignored (not   *)
(* queued, not counted as dropped) unless it carries attributes or a trace      *)
(* state (OTel spec "Link"; CHANGELOG #5315).  The same rule holds for          *)
(* links given at Start.                                                        *)
Ignorable(lk) == ~lk.valid /\ ~lk.tst /\ lk.n = 0
AddLink(L, st, lk) ==
  IF Ignorable(lk) THEN st
  ELSE LET c == Capped(lk.n, L.pl)
           r == FifoAdd(st.links, L.lc, [valid |-> lk.valid, tst |-> lk.tst, n |-> c.n, d |-> c.d])
       IN [st EXCEPT !.links = r.q, !.lkDropped = @ + r.d]

RECURSIVE AddLinks(_, _, _)
AddLinks(L, st, lks) == IF lks = <<>> THEN st ELSE AddLinks(L, AddLink(L, st, Head(lks)), Tail(lks))

(* the span as it is right after Start(WithAttributes(attrs...), WithLinks(lks...)) *)
Start(L, attrs, lks) == AddLinks(L, SetAttributes(L, Empty, attrs), lks)

Rank(c) == CASE c = "Unset" -> 0 [] c = "Error" -> 1 [] c = "Ok" -> 2
SetStatus(st, c, d) ==
  IF Rank(st.code) > Rank(c) THEN st
  ELSE [st EXCEPT !.code = c, !.desc = IF c = "Error" THEN d ELSE ""]

Apply(L, st, op) ==
  IF ~st.started THEN (IF op.op = "Start" THEN Start(L, op.attrs, op.links) ELSE st)
  ELSE IF st.ended \/ op.op = "Start" THEN st      \* calls made after End change nothing
  ELSE CASE op.op = "SetAttributes" -> SetAttributes(L, st, op.attrs)
         [] op.op = "AddEvent"      -> AddEvent(L, st, op.name, op.ts, op.keys)
         [] op.op = "RecordError"   -> RecordError(L, st, op.nilerr, op.stack, op.ts, op.keys)
         [] op.op = "AddLink"       -> AddLink(L, st, op)
         [] op.op = "SetStatus"     -> SetStatus(st, op.code, op.desc)
         [] op.op = "SetName"       -> [st EXCEPT !.name = op.name]
         [] op.op = "End"           -> [st EXCEPT !.ended = TRUE]
         [] op.op = "Peek"          -> st     \* reading the live span (ReadOnlySpan accessors) changes nothing

-----------------------------------------------------------------------------
(* The statement as invariants of any reachable model state *)
KeysUnique(st) == \A i, j \in 1..Len(st.attrs) : st.attrs[i].k = st.attrs[j].k => i = j
CountBound(L, st) == /\ (L.ac >= 0 => Len(st.attrs) <= L.ac)
                     /\ (L.ec >= 0 => Len(st.events) <= L.ec)
                     /\ (L.lc >= 0 => Len(st.links) <= L.lc)
                     /\ \A i \in 1..Len(st.events) : L.pe >= 0 =>
                           Len(st.events[i].ks) <= L.pe /\ Len(st.events[i].ks2) <= L.pe
                     /\ \A i \in 1..Len(st.links) : L.pl >= 0 => st.links[i].n <= L.pl
NoInvalidKey(st) == \A i \in 1..Len(st.attrs) : st.attrs[i].k # ""
LengthBound(L, st) == \A i \in 1..Len(st.attrs) : st.attrs[i].t \in {"s", "ss"} /\ L.vl >= 0 =>
                         \A j \in 1..Len(st.attrs[i].x) : Len(st.attrs[i].x[j]) <= L.vl
DescOnlyForError(st) == st.code # "Error" => st.desc = ""
NoIgnorableLink(st) == \A i \in 1..Len(st.links) : st.links[i].valid \/ st.links[i].tst \/ st.links[i].n + st.links[i].d > 0
=============================================================================
