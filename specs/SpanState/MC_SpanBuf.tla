--------------------------- MODULE MC_SpanBuf ---------------------------
EXTENDS SpanBuf
MCLim == @LIM@
MCBOps == @BOPS@
MCBufInit == @BUFINIT@
MCOptLists == @OPTLISTS@
MCErrOpts == @ERROPTS@
MCErrs == @ERRS@
MCStacks == @STACKS@
MCLinkCtx == @LINKCTX@
MCLinkBufs == @LINKBUFS@
MCStartAOpts == @STARTAOPTS@
MCStartLinks == @STARTLINKS@
=============================================================================
