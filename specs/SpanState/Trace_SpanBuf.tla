--------------------------- MODULE Trace_SpanBuf ---------------------------
(* code -> spec for the caller-buffer class: validates observations recorded    *)
(* from real spans driven with real Go slices against SpanBufModel.             *)
(* Lines: New{sc,lim,bufs,start} starts a scenario (buffers as given, span      *)
(* created by Start(start.aopts, start.links)); Ops{sc,ops,obs} applies the     *)
(* logged caller writes / span calls (value semantics) and compares the model   *)
(* span with the logged projection of the exported span.                        *)
EXTENDS SpanBufModel, TraceKit

VARIABLES l, lim, S, ok
vars == <<l, lim, S, ok>>

RECURSIVE BApplyAll(_, _, _)
BApplyAll(L, s, ops) == IF ops = <<>> THEN s ELSE BApplyAll(L, BApply(L, s, Head(ops)), Tail(ops))

BAttrsMatch(o, m) ==
  /\ Len(o) = Len(m)
  /\ \A i, j \in 1..Len(o) : o[i].k = o[j].k => i = j
  /\ \A i \in 1..Len(m) : \E j \in 1..Len(o) : o[j].k = m[i].k /\ (o[j].x = m[i].x \/ o[j].x = m[i].y)

BMatch(o, m) ==
  /\ BAttrsMatch(o.attrs, m.attrs)
  /\ o.dropped = m.dropped
  /\ Len(o.events) = Len(m.events) /\ o.evDropped = m.evDropped
  /\ \A i \in 1..Len(m.events) :
        /\ o.events[i].name = m.events[i].name /\ o.events[i].d = m.events[i].d
        /\ (o.events[i].ks = m.events[i].ks \/ o.events[i].ks = m.events[i].ks2)
  /\ Len(o.links) = Len(m.links) /\ o.lkDropped = m.lkDropped
  /\ \A i \in 1..Len(m.links) :
        /\ o.links[i].valid = m.links[i].valid /\ o.links[i].tst = m.links[i].tst
        /\ o.links[i].d = m.links[i].d /\ o.links[i].ks = m.links[i].ks
  /\ o.ended = m.ended

NoLim == [ac |-> -1, vl |-> -1, ec |-> -1, lc |-> -1, pe |-> -1, pl |-> -1]
Init == l = 1 /\ lim = NoLim /\ S = [st |-> Empty, bufs |-> <<>>] /\ ok = TRUE

TNew == /\ l <= Len(Trace) /\ Trace[l].ev = "New"
        /\ lim' = Trace[l].lim
        /\ S' = BApply(Trace[l].lim, [st |-> Unstarted, bufs |-> Trace[l].bufs], Trace[l].start)
        /\ ok' = TRUE /\ l' = l + 1

TOps == /\ l <= Len(Trace) /\ Trace[l].ev = "Ops"
        /\ LET m == BApplyAll(lim, S, Trace[l].ops) IN
           /\ S' = m
           /\ ok' = (ok /\ BMatch(Trace[l].obs, m.st))
           /\ (ok /\ ~BMatch(Trace[l].obs, m.st)) =>
                 Viol([line |-> l, sc |-> Trace[l].sc, kind |-> "state", want |-> m.st, got |-> Trace[l].obs])
        /\ l' = l + 1 /\ UNCHANGED lim

TDone == l = Len(Trace) + 1 /\ Accepted(l) /\ UNCHANGED vars

Next == TNew \/ TOps \/ TDone
Spec == Init /\ [][Next]_vars

Inv == KeysUnique(S.st) /\ BCountBound(lim, S.st) /\ NoInvalidKey(S.st)
=============================================================================
