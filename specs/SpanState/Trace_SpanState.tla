--------------------------- MODULE Trace_SpanState ---------------------------
(* code -> spec: validates observations recorded from real spans against        *)
(* SpanModel.  Lines: New{sc,lim,start} starts a scenario (span created under   *)
(* limits lim by Start(start.attrs, start.links));                              *)
(* Ops{sc,ops,obs} applies the logged abstract operations and compares the      *)
(* model state with the logged projection of the exported span.                 *)
EXTENDS SpanModel, TraceKit

VARIABLES l, lim, st, ok
vars == <<l, lim, st, ok>>

RECURSIVE ApplyAll(_, _, _)
ApplyAll(L, s, ops) == IF ops = <<>> THEN s ELSE ApplyAll(L, Apply(L, s, Head(ops)), Tail(ops))

AttrsMatch(o, m) ==
  /\ Len(o) = Len(m)
  /\ \A i, j \in 1..Len(o) : o[i].k = o[j].k => i = j
  /\ \A i \in 1..Len(m) : \E j \in 1..Len(o) :
        /\ o[j].k = m[i].k /\ o[j].t = m[i].t
        /\ (o[j].x = m[i].x \/ o[j].x = m[i].y)

Match(o, m) ==
  /\ AttrsMatch(o.attrs, m.attrs)
  /\ o.dropped = m.dropped
  /\ Len(o.events) = Len(m.events) /\ o.evDropped = m.evDropped
  /\ \A i \in 1..Len(m.events) :
        /\ o.events[i].name = m.events[i].name /\ o.events[i].ts = m.events[i].ts
        /\ o.events[i].d = m.events[i].d
        /\ (o.events[i].ks = m.events[i].ks \/ o.events[i].ks = m.events[i].ks2)
  /\ o.links = m.links /\ o.lkDropped = m.lkDropped
  /\ o.code = m.code /\ o.desc = m.desc /\ o.name = m.name /\ o.ended = m.ended

Init == l = 1 /\ lim = [ac |-> -1, vl |-> -1, ec |-> -1, lc |-> -1, pe |-> -1, pl |-> -1] /\ st = Empty /\ ok = TRUE

TNew == /\ l <= Len(Trace) /\ Trace[l].ev = "New"
        /\ lim' = Trace[l].lim /\ st' = Start(Trace[l].lim, Trace[l].start.attrs, Trace[l].start.links)
        /\ ok' = TRUE /\ l' = l + 1

TOps == /\ l <= Len(Trace) /\ Trace[l].ev = "Ops"
        /\ LET m == ApplyAll(lim, st, Trace[l].ops) IN
           /\ st' = m
           /\ ok' = (ok /\ Match(Trace[l].obs, m))
           /\ (ok /\ ~Match(Trace[l].obs, m)) =>
                 Viol([line |-> l, sc |-> Trace[l].sc, kind |-> "state", want |-> m, got |-> Trace[l].obs])
        /\ l' = l + 1 /\ UNCHANGED lim

TDone == l = Len(Trace) + 1 /\ Accepted(l) /\ UNCHANGED vars

Next == TNew \/ TOps \/ TDone
Spec == Init /\ [][Next]_vars

(* the model-side statement holds at every step of every real trace *)
Inv == KeysUnique(st) /\ CountBound(lim, st) /\ NoInvalidKey(st) /\ LengthBound(lim, st) /\ DescOnlyForError(st) /\ NoIgnorableLink(st)
=============================================================================
