----------------------------- MODULE SpanState -----------------------------
(* State machine over SpanModel for exhaustive exploration by TLC (C04).       *)
(* Every explored edge is printed (EDGE json) and replayed on the real SDK.    *)
EXTENDS SpanModel, TLC, Json, FiniteSets

CONSTANTS Lim,        \* limits record
          Ops,        \* set of enabled operation kinds
          Keys,       \* attribute keys ("" = invalid)
          Vals,       \* attribute values: records [t, x]
          MaxList,    \* max attributes per SetAttributes call
          MaxSteps,   \* bound on calls per span
          EvKeys,     \* AddEvent: the caller's attribute key lists (duplicates allowed)
          ErrKeys,    \* RecordError: the caller's attribute key lists
          EvTs,       \* event timestamps: "" = none given, otherwise an explicit WithTimestamp
          Stacks,     \* RecordError: WithStackTrace values
          LinkCls,    \* link classes [valid, tst, n] for AddLink and for the links given at Start
          UseStart,   \* TRUE: the span is created by an explicit Start(attrs, links) step
          StartAttrMax, StartLinkMax   \* bounds on the Start option lists

VARIABLES st, steps, act
vars == <<st, steps, act>>

Attrs == {[k |-> k, t |-> v.t, x |-> v.x] : k \in Keys, v \in Vals}
Lists == UNION {[1..n -> Attrs] : n \in 1..MaxList}

OpSet ==
  (IF "SetAttributes" \in Ops THEN {[op |-> "SetAttributes", attrs |-> l] : l \in Lists} ELSE {})
  \cup (IF "AddEvent" \in Ops THEN {[op |-> "AddEvent", name |-> nm, ts |-> t, keys |-> ks] : nm \in {"e1", "e2"}, t \in EvTs, ks \in EvKeys} ELSE {})
  \cup (IF "RecordError" \in Ops THEN {[op |-> "RecordError", nilerr |-> FALSE, stack |-> b, ts |-> t, keys |-> ks] : b \in Stacks, t \in EvTs, ks \in ErrKeys}
                                       \cup {[op |-> "RecordError", nilerr |-> TRUE, stack |-> FALSE, ts |-> "", keys |-> <<>>]} ELSE {})
  \cup (IF "AddLink" \in Ops THEN {[op |-> "AddLink", valid |-> l.valid, tst |-> l.tst, n |-> l.n] : l \in LinkCls} ELSE {})
  \cup (IF "SetStatus" \in Ops THEN {[op |-> "SetStatus", code |-> c, desc |-> d] : c \in {"Unset", "Error", "Ok"}, d \in {"", "d1", "d2"}} ELSE {})
  \cup (IF "SetName" \in Ops THEN {[op |-> "SetName", name |-> nm] : nm \in {"n1", "n2"}} ELSE {})
  \cup (IF "End" \in Ops THEN {[op |-> "End"]} ELSE {})
  \cup (IF "Peek" \in Ops THEN {[op |-> "Peek"]} ELSE {})

StartOps == {[op |-> "Start", attrs |-> a, links |-> l] :
                a \in {<<>>} \cup UNION {[1..n -> Attrs] : n \in 1..StartAttrMax},
                l \in {<<>>} \cup UNION {[1..n -> LinkCls] : n \in 1..StartLinkMax}}

Init == st = (IF UseStart THEN Unstarted ELSE Empty) /\ steps = 0 /\ act = [op |-> "Init"]
DoStart(o) == /\ st' = Apply(Lim, st, o)
              /\ act' = o
              /\ UNCHANGED steps
Step(o) == /\ steps < MaxSteps
           /\ st.started
           /\ st' = Apply(Lim, st, o)
           /\ steps' = steps + 1
           /\ act' = o
Next == (~st.started /\ \E o \in StartOps : DoStart(o)) \/ (\E o \in OpSet : Step(o))
Spec == Init /\ [][Next]_vars

View == <<st, steps>>
EmitEdge == PrintT("EDGE " \o ToJson([from |-> st, act |-> act', to |-> st']))

Inv == /\ KeysUnique(st) /\ CountBound(Lim, st) /\ NoInvalidKey(st) /\ LengthBound(Lim, st)
       /\ DescOnlyForError(st) /\ NoIgnorableLink(st)
(* accounting: everything offered is either held, an update, or counted dropped -- checked as an
   action property: dropped never decreases, attrs keys only grow, earliest keys kept in place *)
KeysKept == [][\A i \in 1..Len(st.attrs) : i <= Len(st'.attrs) /\ st'.attrs[i].k = st.attrs[i].k]_vars
DroppedMonotone == [][st'.dropped >= st.dropped /\ st'.evDropped >= st.evDropped /\ st'.lkDropped >= st.lkDropped]_vars
Frozen == [][st.ended => st' = st]_vars
=============================================================================
