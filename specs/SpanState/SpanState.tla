----------------------------- MODULE SpanState -----------------------------
(* State machine over SpanModel for exhaustive exploration by TLC (C04).       *)
(* Every explored edge is printed (EDGE json) and replayed on the real SDK.    *)
EXTENDS SpanModel, TLC, Json, FiniteSets

CONSTANTS Lim,        \* limits record
          Ops,        \* set of enabled operation kinds
          Keys,       \* attribute keys ("" = invalid)
          Vals,       \* attribute values: records [t, x]
          MaxList,    \* max attributes per SetAttributes call
          MaxSteps    \* bound on calls per span

VARIABLES st, steps, act
vars == <<st, steps, act>>

Attrs == {[k |-> k, t |-> v.t, x |-> v.x] : k \in Keys, v \in Vals}
Lists == UNION {[1..n -> Attrs] : n \in 1..MaxList}

OpSet ==
  (IF "SetAttributes" \in Ops THEN {[op |-> "SetAttributes", attrs |-> l] : l \in Lists} ELSE {})
  \cup (IF "AddEvent" \in Ops THEN {[op |-> "AddEvent", name |-> nm, n |-> n] : nm \in {"e1", "e2"}, n \in 0..2} ELSE {})
  \cup (IF "RecordError" \in Ops THEN {[op |-> "RecordError", n |-> n] : n \in 0..1} ELSE {})
  \cup (IF "AddLink" \in Ops THEN {[op |-> "AddLink", valid |-> b, n |-> n] : b \in BOOLEAN, n \in 0..2} ELSE {})
  \cup (IF "SetStatus" \in Ops THEN {[op |-> "SetStatus", code |-> c, desc |-> d] : c \in {"Unset", "Error", "Ok"}, d \in {"", "d1", "d2"}} ELSE {})
  \cup (IF "SetName" \in Ops THEN {[op |-> "SetName", name |-> nm] : nm \in {"n1", "n2"}} ELSE {})
  \cup (IF "End" \in Ops THEN {[op |-> "End"]} ELSE {})

Init == st = Empty /\ steps = 0 /\ act = [op |-> "Init"]
Step(o) == /\ steps < MaxSteps
           /\ st' = Apply(Lim, st, o)
           /\ steps' = steps + 1
           /\ act' = o
Next == \E o \in OpSet : Step(o)
Spec == Init /\ [][Next]_vars

View == <<st, steps>>
EmitEdge == PrintT("EDGE " \o ToJson([from |-> st, act |-> act', to |-> st']))

Inv == /\ KeysUnique(st) /\ CountBound(Lim, st) /\ NoInvalidKey(st) /\ LengthBound(Lim, st)
       /\ DescOnlyForError(st)
(* accounting: everything offered is either held, an update, or counted dropped -- checked as an
   action property: dropped never decreases, attrs keys only grow, earliest keys kept in place *)
KeysKept == [][\A i \in 1..Len(st.attrs) : i <= Len(st'.attrs) /\ st'.attrs[i].k = st.attrs[i].k]_vars
DroppedMonotone == [][st'.dropped >= st.dropped /\ st'.evDropped >= st.evDropped /\ st'.lkDropped >= st.lkDropped]_vars
Frozen == [][st.ended => st' = st]_vars
=============================================================================
