SPECIFICATION Spec
CONSTANTS
  Lim <- MCLim
  Ops <- MCOps
  Keys <- MCKeys
  Vals <- MCVals
  MaxList = @MAXLIST@
  MaxSteps = @MAXSTEPS@
  EvKeys <- MCEvKeys
  ErrKeys <- MCErrKeys
  EvTs <- MCEvTs
  Stacks <- MCStacks
  LinkCls <- MCLinkCls
  UseStart = @USESTART@
  StartAttrMax = @STARTATTRMAX@
  StartLinkMax = @STARTLINKMAX@
VIEW View
ACTION_CONSTRAINT EmitEdge
INVARIANT Inv
PROPERTIES KeysKept DroppedMonotone Frozen
CHECK_DEADLOCK FALSE
