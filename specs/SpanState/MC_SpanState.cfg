SPECIFICATION Spec
CONSTANTS
  Lim <- MCLim
  Ops <- MCOps
  Keys <- MCKeys
  Vals <- MCVals
  MaxList = @MAXLIST@
  MaxSteps = @MAXSTEPS@
VIEW View
ACTION_CONSTRAINT EmitEdge
INVARIANT Inv
PROPERTIES KeysKept DroppedMonotone Frozen
CHECK_DEADLOCK FALSE
