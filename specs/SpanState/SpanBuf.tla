------------------------------- MODULE SpanBuf -------------------------------
(* State machine over SpanBufModel for exhaustive exploration by TLC (C04):    *)
(* histories in which the same caller-owned buffers travel through several     *)
(* span calls with caller writes in between.  Every edge is printed and        *)
(* replayed on a real span with real Go slices (identity, spare capacity, in   *)
(* place writes); the successor state `to.st` -- value semantics -- is the     *)
(* oracle.  A caller write stamps a FRESH value id (10 + number of writes so   *)
(* far), so whatever it rewrites is visible.                                   *)
EXTENDS SpanBufModel, TLC, Json, FiniteSets

CONSTANTS Lim,          \* limits record
          BOps,         \* enabled span call kinds
          BufInit,      \* [buffer id |-> [c |-> initial content, spare |-> BOOLEAN]]
          OptLists,     \* AddEvent: sequences of buffer ids, one WithAttributes option each
          ErrOpts,      \* RecordError: the same (RecordError appends its own option)
          Errs,         \* error identities
          Stacks,       \* WithStackTrace values
          LinkCtx,      \* [valid, tst] classes of link span contexts
          LinkBufs,     \* buffers usable as Link.Attributes ("" = nil)
          StartAOpts,   \* Start: sequences of buffer ids for WithAttributes options
          StartLinks,   \* Start: sequences of [valid, tst, b] for WithLinks
          UseStart,     \* TRUE: the span is created by an explicit Start step
          MaxLen, MaxCalls, MaxWrites

VARIABLES st, bufs, calls, writes, act
vars == <<st, bufs, calls, writes, act>>
Bufs == DOMAIN BufInit

KeyAt(p) == CASE p = 1 -> "ea0" [] p = 2 -> "ea1" [] OTHER -> "ea2"
FreshI == 10 + writes

WriteOps ==
  UNION {{[op |-> "CW", b |-> b, p |-> p, tok |-> Tok(bufs[b].c[p].k, FreshI)] : p \in 1..Len(bufs[b].c)} : b \in Bufs}
  \cup {[op |-> "CA", b |-> b, tok |-> Tok(KeyAt(Len(bufs[b].c) + 1), FreshI)] : b \in {x \in Bufs : Len(bufs[x].c) < MaxLen}}
  \cup {[op |-> "CR", b |-> b, toks |-> <<Tok("ea0", FreshI)>>] : b \in Bufs}
  \cup {[op |-> "CR", b |-> b, toks |-> <<>>] : b \in {x \in Bufs : bufs[x].c # <<>>}}   \* b = b[:0]: a later append lands at position 1

CallOps ==
  (IF "SetAttributes" \in BOps THEN {[op |-> "SetAttributes", b |-> b] : b \in Bufs} ELSE {})
  \cup (IF "AddEvent" \in BOps THEN {[op |-> "AddEvent", name |-> "e1", opts |-> o] : o \in OptLists} ELSE {})
  \cup (IF "RecordError" \in BOps THEN {[op |-> "RecordError", err |-> e, stack |-> s, opts |-> o] : e \in Errs, s \in Stacks, o \in ErrOpts} ELSE {})
  \cup (IF "AddLink" \in BOps THEN {[op |-> "AddLink", valid |-> c.valid, tst |-> c.tst, b |-> b] : c \in LinkCtx, b \in LinkBufs} ELSE {})
  \cup (IF "End" \in BOps THEN {[op |-> "End"]} ELSE {})

StartOps == {[op |-> "Start", aopts |-> a, links |-> l] : a \in StartAOpts, l \in StartLinks}

S == [st |-> st, bufs |-> bufs]
Init == /\ st = (IF UseStart THEN Unstarted ELSE Empty) /\ bufs = BufInit
        /\ calls = 0 /\ writes = 0 /\ act = [op |-> "Init"]
Do(o) == /\ st' = BApply(Lim, S, o).st /\ bufs' = BApply(Lim, S, o).bufs /\ act' = o
Next == \/ ~st.started /\ \E o \in StartOps : Do(o) /\ UNCHANGED <<calls, writes>>
        \/ st.started /\ calls < MaxCalls /\ \E o \in CallOps : Do(o) /\ calls' = calls + 1 /\ UNCHANGED writes
        \/ st.started /\ writes < MaxWrites /\ \E o \in WriteOps : Do(o) /\ writes' = writes + 1 /\ UNCHANGED calls
Spec == Init /\ [][Next]_vars

View == <<st, bufs, calls, writes>>
Proj(s, b, c, w) == [st |-> s, bufs |-> b, calls |-> c, writes |-> w]
EmitEdge == PrintT("EDGE " \o ToJson([from |-> Proj(st, bufs, calls, writes), act |-> act',
                                      to |-> Proj(st', bufs', calls', writes')]))

Inv == KeysUnique(st) /\ BCountBound(Lim, st) /\ NoInvalidKey(st)

(* the class as action properties: a caller write never reaches the span, a span call never     *)
(* writes a buffer, and what was recorded earlier is only ever evicted (FIFO), never rewritten   *)
Front(s) == SubSeq(s, 1, Len(s) - 1)
Grown(q, q2) == q2 = q \/ (q2 # <<>> /\ (Front(q2) = q \/ (q # <<>> /\ Front(q2) = Tail(q))))
WritesFrameSpan == [][IsWrite(act') => st' = st]_vars
CallsFrameBufs == [][~IsWrite(act') => bufs' = bufs]_vars
EarlierFixed == [][st.started => Grown(st.events, st'.events) /\ Grown(st.links, st'.links)]_vars
=============================================================================
