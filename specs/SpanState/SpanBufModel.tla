--------------------------- MODULE SpanBufModel ---------------------------
(* C04, behaviour class "caller-owned memory is a VALUE fixed at call time".    *)
(*                                                                             *)
(* The attribute slices a caller hands to span methods and options             *)
(* (trace.WithAttributes for Start / AddEvent / RecordError, Link.Attributes   *)
(* for AddLink / WithLinks, SetAttributes(kvs...)) live in BUFFERS owned by    *)
(* the caller: a buffer has an identity (b1, b2, ...), a capacity class        *)
(* (spare = len < cap, so an append by anybody writes into the same backing    *)
(* array; tight = every growth is a fresh array) and a content that the        *)
(* caller may rewrite between calls (overwrite an element in place, append,    *)
(* re-slice to zero and refill).  The same buffer travels through several      *)
(* calls, several options of one call may name buffers (RecordError adds its   *)
(* own exception.* option after them).                                          *)
(*                                                                             *)
(* The statement speaks of "the sequence of calls": what the exported span     *)
(* holds is a function of the ARGUMENT VALUES of each call at the time of the  *)
(* call.  Hence: a span call reads the buffers (BCall resolves them to their   *)
(* content and applies the ordered-map / bounded-FIFO steps of SpanModel),     *)
(* never writes them, and a caller write (BWrite) changes buffers only, never  *)
(* the span -- neither an event/link/attribute recorded earlier nor a later    *)
(* one beyond the content it has when that later call is made.                 *)
(*                                                                             *)
(* S = [st |-> span state as in SpanModel, bufs |-> [b |-> [c, spare]]].        *)
(* A buffer element / event attribute / link attribute is a token [k, i]       *)
(* (key, value id); span attributes are [k, t |-> "i", x |-> i].               *)
EXTENDS SpanModel

Tok(k, i) == [k |-> k, i |-> i]

RECURSIVE Cat(_, _)            \* the options of one call, resolved NOW, in option order
Cat(bufs, opts) == IF opts = <<>> THEN <<>> ELSE bufs[Head(opts)].c \o Cat(bufs, Tail(opts))
Content(bufs, b) == IF b = "" THEN <<>> ELSE bufs[b].c      \* "" = no attribute slice at all (nil)

AsAttrs(list) == [j \in 1..Len(list) |-> [k |-> list[j].k, t |-> "i", x |-> list[j].i]]

(* links carry their attribute LIST here (SpanModel only counts them) *)
BAddLink(L, st, valid, tst, ks) ==
  IF ~valid /\ ~tst /\ ks = <<>> THEN st                       \* ignorable, as SpanModel!Ignorable
  ELSE LET c == CapList(ks, L.pl)
           r == FifoAdd(st.links, L.lc, [valid |-> valid, tst |-> tst, ks |-> c.ks, d |-> c.d])
       IN [st EXCEPT !.links = r.q, !.lkDropped = @ + r.d]
RECURSIVE BAddLinks(_, _, _, _)
BAddLinks(L, st, bufs, lks) ==
  IF lks = <<>> THEN st
  ELSE BAddLinks(L, BAddLink(L, st, Head(lks).valid, Head(lks).tst, Content(bufs, Head(lks).b)), bufs, Tail(lks))

(* RecordError's own option: the error's identity is visible in the event *)
GenKsE(err, stack) == <<Tok("exception.type", err), Tok("exception.message", err)>>
                      \o (IF stack THEN <<Tok("exception.stacktrace", 0)>> ELSE <<>>)

(* a span call made while the buffers hold `bufs` *)
BCall(L, st, bufs, op) ==
  IF ~st.started
  THEN (IF op.op = "Start"
        THEN BAddLinks(L, SetAttributes(L, Empty, AsAttrs(Cat(bufs, op.aopts))), bufs, op.links)
        ELSE st)
  ELSE IF st.ended \/ op.op = "Start" THEN st
  ELSE CASE op.op = "SetAttributes" -> SetAttributes(L, st, AsAttrs(Content(bufs, op.b)))
         [] op.op = "AddEvent"      -> LET u == Cat(bufs, op.opts) IN AddEventL(L, st, op.name, "", u, u)
         [] op.op = "RecordError"   -> LET u == Cat(bufs, op.opts) IN
                                       AddEventL(L, st, "exception", "", u \o GenKsE(op.err, op.stack),
                                                 GenKsE(op.err, op.stack) \o u)
         [] op.op = "AddLink"       -> BAddLink(L, st, op.valid, op.tst, Content(bufs, op.b))
         [] op.op = "End"           -> [st EXCEPT !.ended = TRUE]

(* the caller's own writes: CW overwrite element p in place, CA append (in place iff spare),  *)
(* CR re-slice to zero and refill                                                            *)
IsWrite(op) == op.op \in {"CW", "CA", "CR"}
BWrite(bufs, op) ==
  CASE op.op = "CW" -> [bufs EXCEPT ![op.b].c[op.p] = op.tok]
    [] op.op = "CA" -> [bufs EXCEPT ![op.b].c = Append(@, op.tok)]
    [] op.op = "CR" -> [bufs EXCEPT ![op.b].c = op.toks]

(* value semantics: calls read buffers, writes never reach the span *)
BApply(L, S, op) == IF IsWrite(op) THEN [S EXCEPT !.bufs = BWrite(S.bufs, op)]
                    ELSE [S EXCEPT !.st = BCall(L, S.st, S.bufs, op)]

BCountBound(L, st) == /\ (L.ac >= 0 => Len(st.attrs) <= L.ac)
                      /\ (L.ec >= 0 => Len(st.events) <= L.ec)
                      /\ (L.lc >= 0 => Len(st.links) <= L.lc)
                      /\ \A i \in 1..Len(st.events) : L.pe >= 0 =>
                            Len(st.events[i].ks) <= L.pe /\ Len(st.events[i].ks2) <= L.pe
                      /\ \A i \in 1..Len(st.links) : L.pl >= 0 => Len(st.links[i].ks) <= L.pl
=============================================================================
