SPECIFICATION Spec
CONSTANTS
  Lim <- MCLim
  BOps <- MCBOps
  BufInit <- MCBufInit
  OptLists <- MCOptLists
  ErrOpts <- MCErrOpts
  Errs <- MCErrs
  Stacks <- MCStacks
  LinkCtx <- MCLinkCtx
  LinkBufs <- MCLinkBufs
  StartAOpts <- MCStartAOpts
  StartLinks <- MCStartLinks
  UseStart = @USESTART@
  MaxLen = @MAXLEN@
  MaxCalls = @MAXCALLS@
  MaxWrites = @MAXWRITES@
VIEW View
ACTION_CONSTRAINT EmitEdge
INVARIANT Inv
PROPERTIES WritesFrameSpan CallsFrameBufs EarlierFixed
CHECK_DEADLOCK FALSE
