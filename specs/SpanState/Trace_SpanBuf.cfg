SPECIFICATION Spec
INVARIANT Inv
CHECK_DEADLOCK FALSE
