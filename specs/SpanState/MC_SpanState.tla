--------------------------- MODULE MC_SpanState ---------------------------
EXTENDS SpanState
MCLim == @LIM@
MCOps == @OPS@
MCKeys == @KEYS@
MCVals == @VALS@
MCEvKeys == @EVKEYS@
MCErrKeys == @ERRKEYS@
MCEvTs == @EVTS@
MCStacks == @STACKS@
MCLinkCls == @LINKS@
=============================================================================
