--------------------------- MODULE MC_SpanState ---------------------------
EXTENDS SpanState
MCLim == @LIM@
MCOps == @OPS@
MCKeys == @KEYS@
MCVals == @VALS@
=============================================================================
