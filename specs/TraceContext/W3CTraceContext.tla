-------------------------- MODULE W3CTraceContext --------------------------
(* The W3C Trace Context header grammar (https://www.w3.org/TR/trace-context-1, *)
(* sections 3.2 traceparent, 3.3 tracestate, 4 versioning) as predicates and    *)
(* parsing functions over OCTET SEQUENCES (a header is a sequence of numbers    *)
(* 0..255, exactly the alphabet the ABNF is written in).  Transcribed from the  *)
(* Recommendation and from the C03 statement, not from the Go code.             *)
(*                                                                              *)
(* Symbol classes (DESIGN App. C) are the octet sets named below; the MC_       *)
(* modules enumerate headers as words over representatives of every class.      *)
(*                                                                              *)
(* Results are SETS (sequences) OF ADMISSIBLE OUTCOMES: where the Recommendation*)
(* / the statement leave the parser a choice, both outcomes are admissible and  *)
(* the implementation conforms iff its observed outcome is one of them.         *)
(* The choices are the named tolerance classes T1..T7 below; everywhere else    *)
(* exactly one outcome is admissible.                                           *)
EXTENDS Naturals, Sequences, FiniteSets

\* ---------------------------------------------------------------- symbol classes
LCALPHA == 97..122                  \* lcalpha = %x61-7A
DIGIT   == 48..57
KEYSYM  == {95, 45, 42, 47}         \* "_" / "-" / "*" / "/"
AT      == 64
EQ      == 61
COMMA   == 44
DASH    == 45
SP      == 32
HTAB    == 9

KeyChr(b)   == b \in LCALPHA \/ b \in DIGIT \/ b \in KEYSYM
NblkChr(b)  == b >= 33 /\ b <= 126 /\ b # COMMA /\ b # EQ   \* %x21-2B / %x2D-3C / %x3E-7E
Chr(b)      == b = SP \/ NblkChr(b)
IsOWS(b)    == b = SP \/ b = HTAB
HexDigLC(b) == b \in DIGIT \/ b \in 97..102                 \* HEXDIGLC

\* ---------------------------------------------------------------- sequence helpers
RECURSIVE Find(_, _, _)             \* first index >= i holding octet b, 0 if none
Find(s, b, i) == IF i > Len(s) THEN 0 ELSE IF s[i] = b THEN i ELSE Find(s, b, i + 1)

RECURSIVE Split(_, _)               \* split on every occurrence of b (keeps empty pieces)
Split(s, b) == LET p == Find(s, b, 1) IN
  IF p = 0 THEN <<s>> ELSE <<SubSeq(s, 1, p - 1)>> \o Split(SubSeq(s, p + 1, Len(s)), b)

RECURSIVE FirstNonOWS(_, _), LastNonOWS(_, _)
FirstNonOWS(s, i) == IF i > Len(s) THEN i ELSE IF IsOWS(s[i]) THEN FirstNonOWS(s, i + 1) ELSE i
LastNonOWS(s, i)  == IF i < 1 THEN i ELSE IF IsOWS(s[i]) THEN LastNonOWS(s, i - 1) ELSE i
Trim(s) == SubSeq(s, FirstNonOWS(s, 1), LastNonOWS(s, Len(s)))   \* strip OWS on both sides

RECURSIVE Join(_, _)
Join(ss, sep) == IF ss = <<>> THEN <<>>
                 ELSE IF Len(ss) = 1 THEN ss[1] ELSE ss[1] \o sep \o Join(Tail(ss), sep)

\* ---------------------------------------------------------------- tracestate: key, value
(* Level 1:  key = lcalpha 0*255( keychr )                                                     *)
(*           key = ( lcalpha / DIGIT ) 0*240( keychr ) "@" lcalpha 0*13( keychr )              *)
SimpleKey(k) == /\ Len(k) >= 1 /\ Len(k) <= 256
                /\ k[1] \in LCALPHA
                /\ \A i \in 2..Len(k) : KeyChr(k[i])
TenantKey(k) == \E p \in 1..Len(k) :
                  /\ k[p] = AT
                  /\ LET t == SubSeq(k, 1, p - 1)
                         s == SubSeq(k, p + 1, Len(k)) IN
                     /\ Len(t) >= 1 /\ Len(t) <= 241
                     /\ (t[1] \in LCALPHA \/ t[1] \in DIGIT)
                     /\ \A i \in 2..Len(t) : KeyChr(t[i])
                     /\ Len(s) >= 1 /\ Len(s) <= 14
                     /\ s[1] \in LCALPHA
                     /\ \A i \in 2..Len(s) : KeyChr(s[i])
KeyL1(k) == SimpleKey(k) \/ TenantKey(k)
(* Level 2 (https://www.w3.org/TR/trace-context-2):                                            *)
(*           key = ( lcalpha / DIGIT ) 0*255( keychr / "@" )                                   *)
KeyL2(k) == /\ Len(k) >= 1 /\ Len(k) <= 256
            /\ (k[1] \in LCALPHA \/ k[1] \in DIGIT)
            /\ \A i \in 2..Len(k) : KeyChr(k[i]) \/ k[i] = AT
(* T2: a key legal in Level 2 but not in Level 1 may be accepted or rejected; Level 1 keys must *)
(*     be accepted, keys outside Level 2 must be rejected ("legal keys").                      *)
KeyStatus(k) == IF KeyL1(k) THEN "ok" ELSE IF KeyL2(k) THEN "may" ELSE "bad"

(* value = 0*255(chr) nblk-chr *)
ValueOK(v) == /\ Len(v) >= 1 /\ Len(v) <= 256
              /\ \A i \in 1..(Len(v) - 1) : Chr(v[i])
              /\ NblkChr(v[Len(v)])

MemberStatus(k, v) == IF ~ValueOK(v) THEN "bad" ELSE KeyStatus(k)

\* ---------------------------------------------------------------- tracestate: list
(* list = list-member 0*31( OWS "," OWS list-member ) ; list-member = key "=" value / OWS       *)
(* "Empty and whitespace-only list members are allowed."  Only one entry per key.  At most 32   *)
(* list-members.                                                                                *)
Item(raw) ==  \* one piece between commas -> [kind, k, v]; kind: empty blank ok may bad
  LET t == Trim(raw) IN
  IF t = <<>> THEN [kind |-> IF raw = <<>> THEN "empty" ELSE "blank", k |-> <<>>, v |-> <<>>]
  ELSE LET p == Find(t, EQ, 1) IN
       IF p = 0 THEN [kind |-> "bad", k |-> <<>>, v |-> <<>>]
       ELSE LET k == SubSeq(t, 1, p - 1)
                v == SubSeq(t, p + 1, Len(t)) IN
            [kind |-> MemberStatus(k, v), k |-> k, v |-> v]

IsMember(it) == it.kind \in {"ok", "may"}
Unique(list) == \A i, j \in 1..Len(list) : list[i].k = list[j].k => i = j

(* ParseList(h, cap) = [status, members].                                                       *)
(*  status "reject": some list-member is malformed, a key occurs twice or more than cap members *)
(*  status "may"   : T1 a whitespace-only list-member is present (allowed by the grammar; the   *)
(*                      statement does not oblige a parser to keep such a header),              *)
(*                   T2 a Level-2-only key is present,                                          *)
(*                   T5 more than cap comma-separated pieces although at most cap are members   *)
(*                      (the ABNF counts empty members, the prose does not)                     *)
(*  status "accept": everything else in the language                                            *)
ParseList(h, cap) ==
  LET pieces  == Split(h, COMMA)
      items   == [i \in 1..Len(pieces) |-> Item(pieces[i])]
      mem     == SelectSeq(items, IsMember)
      members == [i \in 1..Len(mem) |-> [k |-> mem[i].k, v |-> mem[i].v]]
      bad     == \/ \E i \in 1..Len(items) : items[i].kind = "bad"
                 \/ ~Unique(members)
                 \/ Len(members) > cap
      tol     == \/ \E i \in 1..Len(items) : items[i].kind \in {"blank", "may"}
                 \/ Len(items) > cap
  IN [status |-> IF bad THEN "reject" ELSE IF tol THEN "may" ELSE "accept",
      members |-> IF bad THEN <<>> ELSE members]

TSRejected == [ok |-> FALSE, members |-> <<>>]
TSAccepted(m) == [ok |-> TRUE, members |-> m]
(* admissible results of parsing a tracestate header on its own *)
TSOuts(h, cap) == LET r == ParseList(h, cap) IN
  CASE r.status = "accept" -> <<TSAccepted(r.members)>>
    [] r.status = "may"    -> <<TSAccepted(r.members), TSRejected>>
    [] r.status = "reject" -> <<TSRejected>>

(* canonical serialisation; any serialisation s with ParseList(s).members = list, status        *)
(* "accept" and no OWS-only pieces conforms (Conformant below)                                  *)
Serialize(list) == Join([i \in 1..Len(list) |-> list[i].k \o <<EQ>> \o list[i].v], <<COMMA>>)

(* a tracestate an implementation SENDS: in the language, every member legal, <= cap, unique,   *)
(* and it denotes exactly `list`                                                                *)
TSConformant(s, list, cap) ==
  LET r == ParseList(s, cap) IN
  /\ r.status # "reject"
  /\ r.members = list
  /\ \A i \in 1..Len(list) : MemberStatus(list[i].k, list[i].v) # "bad"

\* ---------------------------------------------------------------- tracestate: edits
(* "Editing a tracestate (insert, update, delete) preserves those invariants, puts the newest   *)
(*  member first and drops only the right-most member on overflow."                             *)
Without(list, k) == SelectSeq(list, LAMBDA m : m.k # k)
Inserted(list, k, v, cap) ==
  LET l == <<[k |-> k, v |-> v]>> \o Without(list, k) IN
  IF Len(l) > cap THEN SubSeq(l, 1, cap) ELSE l
Deleted(list, k) == Without(list, k)

EditOK(l) == [err |-> FALSE, list |-> l]
EditErr(l) == [err |-> TRUE, list |-> l]    \* an invalid member is refused, the tracestate is unchanged
InsertOuts(list, k, v, cap) ==
  LET s == MemberStatus(k, v) IN
  CASE s = "ok"  -> <<EditOK(Inserted(list, k, v, cap))>>
    [] s = "may" -> <<EditOK(Inserted(list, k, v, cap)), EditErr(list)>>
    [] s = "bad" -> <<EditErr(list)>>
DeleteOuts(list, k) == <<EditOK(Deleted(list, k))>>

ListInv(list, cap) == /\ Len(list) <= cap
                      /\ Unique(list)
                      /\ \A i \in 1..Len(list) : MemberStatus(list[i].k, list[i].v) # "bad"

\* ---------------------------------------------------------------- traceparent
(* value = version "-" version-format ; version = 2HEXDIGLC ("ff" forbidden)                    *)
(* version-format(00) = trace-id "-" parent-id "-" trace-flags                                  *)
(* trace-id = 32HEXDIGLC (all zero forbidden) ; parent-id = 16HEXDIGLC (all zero forbidden)     *)
(* trace-flags = 2HEXDIGLC ; bit 0 = sampled                                                    *)
AllHex(s)  == \A i \in 1..Len(s) : HexDigLC(s[i])
AllZero(s) == \A i \in 1..Len(s) : s[i] = 48
HexVal(b)  == IF b \in DIGIT THEN b - 48 ELSE b - 87
HexChr(n)  == IF n < 10 THEN 48 + n ELSE 87 + n
RECURSIVE HexOf(_)                  \* lower-case hex encoding of a sequence of byte values
HexOf(bs) == IF bs = <<>> THEN <<>> ELSE <<HexChr(Head(bs) \div 16), HexChr(Head(bs) % 16)>> \o HexOf(Tail(bs))

TPPrefixOK(h) == /\ Len(h) >= 55
                 /\ h[3] = DASH /\ h[36] = DASH /\ h[53] = DASH
                 /\ AllHex(SubSeq(h, 1, 2)) /\ AllHex(SubSeq(h, 4, 35))
                 /\ AllHex(SubSeq(h, 37, 52)) /\ AllHex(SubSeq(h, 54, 55))
Ver(h) == SubSeq(h, 1, 2)
Tid(h) == SubSeq(h, 4, 35)
Sid(h) == SubSeq(h, 37, 52)
Flg(h) == SubSeq(h, 54, 55)
Sampled(h) == HexVal(h[55]) % 2 = 1

(* status of a traceparent value without surrounding OWS:                                       *)
(*  "accept" version 00, exactly 55 octets, flags 00 / 01 (what a conforming sender emits)      *)
(*  "may"    T3 version 00 with flag bits this version does not define (the Recommendation      *)
(*              reserves them; a receiver may ignore the bits or refuse the header),            *)
(*           T4 versions 01..fe ("SHOULD try to parse"): 55 octets, or more when octet 56 is "-"*)
(*           T7 version 00 followed by exactly one "-" (not in the version-00 grammar, but the  *)
(*              statement only constrains what an accepted header yields, and the repository's   *)
(*              own test suite pins this B3-style value as accepted)                             *)
(*  "reject" everything else                                                                    *)
TPStatus0(h) ==
  IF ~TPPrefixOK(h) \/ Ver(h) = <<102, 102>> \/ AllZero(Tid(h)) \/ AllZero(Sid(h)) THEN "reject"
  ELSE IF Ver(h) = <<48, 48>>
       THEN (IF Len(h) = 56 /\ h[56] = DASH THEN "may"
             ELSE IF Len(h) # 55 THEN "reject"
             ELSE IF Flg(h) \in {<<48, 48>>, <<48, 49>>} THEN "accept" ELSE "may")
       ELSE (IF Len(h) = 55 \/ h[56] = DASH THEN "may" ELSE "reject")
(* T6: OWS around an otherwise acceptable value (normally removed by the HTTP layer) may be     *)
(*     tolerated or refused                                                                     *)
TPStatus(h) == LET t == Trim(h) IN
  IF t = h THEN TPStatus0(h) ELSE IF TPStatus0(t) = "reject" THEN "reject" ELSE "may"

(* what a conforming implementation SENDS for trace id / span id / sampled                      *)
TPConformant(s, tid, sid, sampled) ==
  /\ Len(s) = 55 /\ TPStatus0(s) # "reject" /\ Ver(s) = <<48, 48>>
  /\ Tid(s) = tid /\ Sid(s) = sid /\ Sampled(s) = sampled

\* ---------------------------------------------------------------- extraction
Untouched == [valid |-> FALSE, tid |-> <<>>, sid |-> <<>>, sampled |-> FALSE, remote |-> FALSE,
              members |-> <<>>]
Extracted(t, m) == [valid |-> TRUE, tid |-> Tid(t), sid |-> Sid(t), sampled |-> Sampled(t),
                    remote |-> TRUE, members |-> m]

(* Admissible observations after Extract(traceparent tp, tracestate ts).  Whether `Untouched`   *)
(* is admissible depends on tp only: "a bad tracestate never invalidates a good traceparent".   *)
(* An unparsable tracestate is discarded as a whole (members = <<>>).                           *)
ExtractOuts(tp, ts, cap) ==
  LET st == TPStatus(tp)
      t  == Trim(tp)
      tso == TSOuts(ts, cap)
      acc == [i \in 1..Len(tso) |-> Extracted(t, tso[i].members)]
  IN CASE st = "accept" -> acc
       [] st = "may"    -> acc \o <<Untouched>>
       [] st = "reject" -> <<Untouched>>

\* ---------------------------------------------------------------- injection
(* sc = [tid : 16 byte values, sid : 8 byte values, flags : 0..255, list : members]             *)
ValidSC(sc) == (\E i \in 1..16 : sc.tid[i] # 0) /\ (\E i \in 1..8 : sc.sid[i] # 0)
InjectTP(sc) == <<48, 48, DASH>> \o HexOf(sc.tid) \o <<DASH>> \o HexOf(sc.sid) \o <<DASH, 48>>
                \o <<IF sc.flags % 2 = 1 THEN 49 ELSE 48>>
InjectTS(sc) == Serialize(sc.list)
(* the statement's round trip: what extraction of the injected headers must observe              *)
RoundTrip(sc) == [valid |-> TRUE, tid |-> HexOf(sc.tid), sid |-> HexOf(sc.sid),
                  sampled |-> (sc.flags % 2 = 1), remote |-> TRUE, members |-> sc.list]

In(x, seq) == \E i \in 1..Len(seq) : seq[i] = x
=============================================================================
