--------------------------- MODULE MC_W3CTheorems ---------------------------
(* Model-level theorems about the oracle itself, checked by TLC as ASSUMEs over  *)
(* all words of length <= MaxLen over one representative octet per symbol class: *)
(*  - every Level-1 key is a Level-2 key (the tolerance class T2 is well formed)  *)
(*  - parsing the canonical serialisation of a legal list yields that list        *)
(*  - a list-member status never depends on OWS around the member                 *)
(*  - insertion keeps ListInv, puts the member first, evicts at most the last     *)
(*  - extraction of what the model injects is the identity on (ids, sampled, list)*)
EXTENDS W3CTraceContext, TLC
MaxLen == @MAXLEN@
KA == {97, 122, 48, 65, 95, 64, 32, 9, 61, 44, 0, 127, 197, 161, 255}
VA == {33, 126, 97, 32, 9, 61, 44, 31, 127, 195}
Strs(A, n) == UNION {[1..m -> A] : m \in 0..n}
GoodKeys == {<<97>>, <<98, 48>>, <<49, 64, 99>>}
GoodVals == {<<49>>, <<32, 126>>}
Members == {[k |-> k, v |-> v] : k \in GoodKeys, v \in GoodVals}
Lists == {l \in Strs(Members, 3) : Unique(l)}

ASSUME \A k \in Strs(KA, MaxLen) : KeyL1(k) => KeyL2(k)
ASSUME \A k \in Strs(KA, MaxLen) : KeyStatus(k) # "bad" => \A i \in 1..Len(k) : k[i] < 128 /\ k[i] > 32
ASSUME \A v \in Strs(VA, MaxLen) : ValueOK(v) => (v[Len(v)] # 32 /\ \A i \in 1..Len(v) : v[i] \in 32..126 \ {44, 61})
ASSUME \A l \in Lists : ParseList(Serialize(l), 32) = [status |-> "accept", members |-> l]
ASSUME \A l \in Lists : TSConformant(Serialize(l), l, 32)
ASSUME \A k \in Strs(KA, 2), v \in Strs(VA, 2) :
          LET a == Item(k \o <<61>> \o v)
              b == Item(<<32, 9>> \o k \o <<61>> \o v \o <<9, 32>>) IN
          (k # <<>> /\ ~IsOWS(k[1])) => (a.kind = b.kind /\ (a.kind \in {"ok", "may"} => a.k = b.k /\ a.v = b.v))
ASSUME \A l \in Lists, m \in Members, cap \in 1..3 :
          Len(l) <= cap =>
             LET r == Inserted(l, m.k, m.v, cap) IN
             /\ ListInv(r, cap) /\ r[1] = m
             /\ Len(Without(l, m.k)) - Len(Without(r, m.k)) \in {0, 1}
             /\ ListInv(Deleted(l, m.k), cap)
Tids == {[i \in 1..16 |-> IF i = 16 THEN 1 ELSE 0], [i \in 1..16 |-> 255], [i \in 1..16 |-> 16 * i + 10 - i]}
Sids == {[i \in 1..8 |-> IF i = 1 THEN 128 ELSE 0], [i \in 1..8 |-> 171]}
ASSUME \A t \in Tids, s \in Sids, f \in {0, 1, 2, 3, 254, 255}, l \in Lists :
          LET sc == [tid |-> t, sid |-> s, flags |-> f, list |-> l] IN
          /\ ValidSC(sc)
          /\ TPStatus(InjectTP(sc)) = "accept"
          /\ ExtractOuts(InjectTP(sc), InjectTS(sc), 32) = <<RoundTrip(sc)>>
(* a bad tracestate never invalidates a good traceparent *)
ASSUME \A t \in Tids, s \in Sids, ts \in Strs(VA, 2) :
          LET sc == [tid |-> t, sid |-> s, flags |-> 1, list |-> <<>>]
              outs == ExtractOuts(InjectTP(sc), ts, 32) IN
          \A i \in 1..Len(outs) : outs[i].valid /\ outs[i].tid = HexOf(t) /\ outs[i].sid = HexOf(s)
VARIABLE x
Init == x = 0
Next == UNCHANGED x
Spec == Init /\ [][Next]_x
=============================================================================
