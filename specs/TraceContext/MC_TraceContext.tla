--------------------------- MODULE MC_TraceContext ---------------------------
(* Case families for TraceContext.tla.  The python driver substitutes the        *)
(* alphabets (representative octets of every symbol class, chosen by VERIF_SEED)  *)
(* and the family expression.                                                    *)
EXTENDS TraceContext

RECURSIVE Concat(_)
Concat(ss) == IF ss = <<>> THEN <<>> ELSE Head(ss) \o Concat(Tail(ss))
Tuples(A, lo, hi) == UNION {[1..m -> A] : m \in lo..hi}
Words(A, lo, hi) == {Concat(w) : w \in Tuples(A, lo, hi)}          \* A: set of octet sequences
Run(b, n) == [i \in 1..n |-> b]
RunWords(B, N, hi) == Words({Run(b, n) : b \in B, n \in N}, 1, hi)  \* boundary lengths
KV(k, v) == k \o <<EQ>> \o v
FillKey(i) == <<102, 48 + (i \div 10), 48 + (i % 10)>>
Fill(n) == [i \in 1..n |-> [k |-> FillKey(i), v |-> <<48>>]]

Member(k, v) == [op |-> "Member", a |-> k, b |-> v]
ParseTS(h) == [op |-> "ParseTS", a |-> h, b |-> <<>>]
Extract(tp, ts) == [op |-> "Extract", a |-> tp, b |-> ts]
Inject(tid, sid, fl, ts) == [op |-> "Inject", a |-> tid \o sid \o <<fl>>, b |-> ts]
TP(ver, tid, sid, fl, trail) == ver \o <<DASH>> \o tid \o <<DASH>> \o sid \o <<DASH>> \o fl \o trail

KeyCases(ks, v) == {Member(k, v) : k \in ks} \cup {ParseTS(KV(k, v)) : k \in ks}
ValCases(k, vs) == {Member(k, v) : v \in vs} \cup {ParseTS(KV(k, v)) : v \in vs}
ListCases(items, lo, hi) == {ParseTS(Join(w, <<COMMA>>)) : w \in Tuples(items, lo, hi)}

MCCases == @CASES@
=============================================================================
