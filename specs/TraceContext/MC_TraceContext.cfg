SPECIFICATION Spec
CONSTANTS
  Cases <- MCCases
  Cap = 32
VIEW View
ACTION_CONSTRAINT EmitEdge
INVARIANTS Inv TSIndependent RoundTripInv
CHECK_DEADLOCK FALSE
