----------------------------- MODULE TraceState -----------------------------
(* Edit state machine of a tracestate (C03): the list of members, newest first. *)
(* Actions: Insert(k, v) (new member / update = move to front / overflow = drop *)
(* the right-most member / refused when the member is illegal) and Delete(k).   *)
(* Keys and values are octet sequences judged by the W3C grammar, so an illegal *)
(* key offered to Insert is refused by the same predicate that judges headers.  *)
(* The initial list is Fill(InitLen): InitLen distinct legal members, which     *)
(* puts the exploration right at the capacity boundary (Cap = 32 in the W3C     *)
(* Recommendation and in the code; small Cap for the model-only runs).          *)
(* TLC explores every edit sequence of length <= MaxSteps and prints every edge;*)
(* harness/c03 replays each edge on a real trace.TraceState.                    *)
EXTENDS W3CTraceContext, TLC, Json

CONSTANTS Cap,        \* maximum number of list-members
          InitLen,    \* members in the initial list
          Keys,       \* keys offered to Insert / Delete (legal and illegal octet sequences)
          Vals,       \* values offered to Insert (legal and illegal)
          MaxSteps

VARIABLES list, steps, act, err
vars == <<list, steps, act, err>>

(* filler member i: key "f" d d , value "0" *)
FillKey(i) == <<102, 48 + (i \div 10), 48 + (i % 10)>>
Fill(n) == [i \in 1..n |-> [k |-> FillKey(i), v |-> <<48>>]]

Init == list = Fill(InitLen) /\ steps = 0 /\ act = [op |-> "Init", k |-> <<>>, v |-> <<>>] /\ err = FALSE

(* keys whose admissibility is a choice (Level-2-only) make Insert nondeterministic: both       *)
(* branches are explored; the harness accepts either successor for such an edge                 *)
Insert(k, v) == /\ steps < MaxSteps
                /\ \E o \in {InsertOuts(list, k, v, Cap)[i] : i \in 1..Len(InsertOuts(list, k, v, Cap))} :
                     list' = o.list /\ err' = o.err
                /\ steps' = steps + 1
                /\ act' = [op |-> "Insert", k |-> k, v |-> v]
Delete(k) == /\ steps < MaxSteps
             /\ list' = DeleteOuts(list, k)[1].list /\ err' = FALSE
             /\ steps' = steps + 1
             /\ act' = [op |-> "Delete", k |-> k, v |-> <<>>]
Next == (\E k \in Keys, v \in Vals : Insert(k, v)) \/ (\E k \in Keys : Delete(k))
Spec == Init /\ [][Next]_vars

View == <<list, steps>>
(* `from` and `to` are the SAME projection of the state (the list), so that the target of one  *)
(* edge is recognisable as the source of the next (the harness reaches a source state through *)
(* the BFS tree over these keys); what the action additionally RETURNS is carried in `out`:   *)
(* err = the edit was refused, frozen = every earlier TraceState value still reads as it did  *)
(* (copy-on-write)                                                                            *)
EmitEdge == PrintT("EDGE " \o ToJson([from |-> [list |-> list],
                                      act |-> act',
                                      to |-> [list |-> list'],
                                      out |-> [err |-> err', frozen |-> TRUE]]))

-----------------------------------------------------------------------------
(* the statement, on the model *)
Inv == ListInv(list, Cap)

IsPrefix(a, b) == Len(a) <= Len(b) /\ SubSeq(b, 1, Len(a)) = a
Has(l, k) == \E i \in 1..Len(l) : l[i].k = k
Others(l) == Without(l, act'.k)          \* the members the operation does not name

(* the newest member is first *)
NewestFirst == [][(act'.op = "Insert" /\ ~err') =>
                     (Len(list') >= 1 /\ list'[1] = [k |-> act'.k, v |-> act'.v]
                      /\ SubSeq(list', 2, Len(list')) = Others(list'))]_vars
(* the members not named by the operation keep their order and values; only a suffix can vanish *)
Stable == [][IsPrefix(Others(list'), Others(list))]_vars
(* ... and that suffix is at most the right-most member, only when a NEW key meets a FULL list *)
OnlyRightmostEvicted ==
  [][LET gone == Len(Others(list)) - Len(Others(list')) IN
     /\ gone \in {0, 1}
     /\ (gone = 1 => (act'.op = "Insert" /\ ~err' /\ Len(list) = Cap /\ ~Has(list, act'.k)
                      /\ list[Len(list)].k # act'.k))]_vars
RefusedUnchanged == [][err' => list' = list]_vars
DeleteRemoves == [][act'.op = "Delete" => (~err' /\ ~Has(list', act'.k))]_vars
=============================================================================
