----------------------------- MODULE TraceContext -----------------------------
(* One-step machine over the W3C grammar (C03): from the initial state TLC picks *)
(* every case of the constant set Cases (a header / a member / a span context)   *)
(* and moves to the sequence of outcomes the grammar admits for it.  Every edge  *)
(* is printed and replayed on the real propagator / TraceState by harness/c03.   *)
(*   Member(a = key, b = value)      TraceState{}.Insert(key, value)             *)
(*   ParseTS(a = header)             trace.ParseTraceState(header)               *)
(*   Extract(a = traceparent, b = tracestate)   TraceContext{}.Extract           *)
(*   Inject(a = 16 trace id bytes ++ 8 span id bytes ++ flags, b = tracestate)   *)
(*                                   Inject into an empty carrier, Extract again *)
EXTENDS W3CTraceContext, TLC, Json

CONSTANTS Cases, Cap
VARIABLES done, out, act
vars == <<done, out, act>>

SCof(c) == [tid |-> SubSeq(c.a, 1, 16), sid |-> SubSeq(c.a, 17, 24), flags |-> c.a[25],
            list |-> ParseList(c.b, Cap).members]

Outcome(c) == CASE c.op = "Member"  -> InsertOuts(<<>>, c.a, c.b, Cap)
                [] c.op = "ParseTS" -> TSOuts(c.a, Cap)
                [] c.op = "Extract" -> ExtractOuts(c.a, c.b, Cap)
                [] c.op = "Inject"  -> IF ValidSC(SCof(c)) THEN <<RoundTrip(SCof(c))>> ELSE <<Untouched>>

Init == done = FALSE /\ out = <<>> /\ act = [op |-> "Init", a |-> <<>>, b |-> <<>>]
Step(c) == /\ ~done /\ done' = TRUE /\ out' = Outcome(c) /\ act' = c
Next == \E c \in Cases : Step(c)
Spec == Init /\ [][Next]_vars

View == <<done, out>>
EmitEdge == PrintT("EDGE " \o ToJson([from |-> [done |-> done], act |-> act', to |-> [outs |-> out']]))

-----------------------------------------------------------------------------
(* The statement on the oracle itself: whatever outcome is admissible is either "untouched /    *)
(* refused" or a valid result whose re-injection conforms to the grammar.                       *)
ReinjTP(o) == <<48, 48, DASH>> \o o.tid \o <<DASH>> \o o.sid \o <<DASH, 48, IF o.sampled THEN 49 ELSE 48>>
SafeOut(o) ==
  CASE act.op = "Member"  -> ListInv(o.list, Cap) /\ (o.err => o.list = <<>>)
    [] act.op = "ParseTS" -> /\ ListInv(o.members, Cap)
                             /\ TSConformant(Serialize(o.members), o.members, Cap)
                             /\ (~o.ok => o.members = <<>>)
    [] act.op \in {"Extract", "Inject"} ->
         IF o.valid THEN /\ TPConformant(ReinjTP(o), o.tid, o.sid, o.sampled)
                         /\ TPStatus(ReinjTP(o)) = "accept"
                         /\ o.remote
                         /\ ListInv(o.members, Cap)
                         /\ TSConformant(Serialize(o.members), o.members, Cap)
         ELSE o = Untouched
    [] OTHER -> TRUE
Inv == done => (Len(out) >= 1 /\ \A i \in 1..Len(out) : SafeOut(out[i]))
(* a bad tracestate never invalidates a good traceparent: acceptance depends on a only *)
TSIndependent == (done /\ act.op = "Extract") =>
                   (In(Untouched, out) <=> In(Untouched, ExtractOuts(act.a, <<>>, Cap)))
(* the spec-level round trip: extracting what the model injects admits exactly the original *)
RoundTripInv == (done /\ act.op = "Inject" /\ ValidSC(SCof(act))) =>
                  ExtractOuts(InjectTP(SCof(act)), InjectTS(SCof(act)), Cap) = <<RoundTrip(SCof(act))>>
=============================================================================
