SPECIFICATION Spec
CONSTANTS
  Cap = @CAP@
  InitLen = @INITLEN@
  Keys <- MCKeys
  Vals <- MCVals
  MaxSteps = @MAXSTEPS@
VIEW View
INVARIANT Inv
PROPERTIES NewestFirst Stable OnlyRightmostEvicted RefusedUnchanged DeleteRemoves
CHECK_DEADLOCK FALSE
