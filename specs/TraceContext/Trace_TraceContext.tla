------------------------- MODULE Trace_TraceContext -------------------------
(* code -> spec: validates observations recorded from the real propagator and    *)
(* the real TraceState (harness/c03 random / replay) against W3CTraceContext.    *)
(* One line per step; every clause the REAL observation breaks is printed as     *)
(* VIOL{...}.  Lines:                                                            *)
(*  Member {a key, b value, obs [err, list]}                                     *)
(*  ParseTS{a header, obs [ok, members], str, len}                               *)
(*  Extract{a traceparent, b tracestate, prior, obs, re, rtp, rts}               *)
(*  Inject {a ids+flags, b tracestate, obs, ctp, cts, nkeys}                     *)
(*  New    {a header, obs [ok, members]}            start of an edit scenario    *)
(*  Edit   {op, a key, b value, obs [err, list], str, len, get, olds}            *)
EXTENDS W3CTraceContext, TraceKit

Cap == 32
VARIABLES l, cur, hist
vars == <<l, cur, hist>>

V(kind, want, got) == Viol([line |-> l, ev |-> Trace[l].ev, kind |-> kind, want |-> want, got |-> got])
(* IF, not \/ : TLC would explore both disjuncts of an action-level disjunction *)
Check(cond, kind, want, got) == IF cond THEN TRUE ELSE V(kind, want, got)

Init == l = 1 /\ cur = <<>> /\ hist = <<>>

TMember == /\ Trace[l].ev = "Member"
           /\ LET e == Trace[l] outs == InsertOuts(<<>>, e.a, e.b, Cap) IN
              /\ Check(In(e.obs, outs), "outcome", outs, <<e.obs>>)
              /\ Check(ListInv(e.obs.list, Cap), "inv", <<>>, <<e.obs>>)
           /\ UNCHANGED <<cur, hist>>

TParse == /\ Trace[l].ev = "ParseTS"
          /\ LET e == Trace[l] outs == TSOuts(e.a, Cap) IN
             /\ Check(In(e.obs, outs), "outcome", outs, <<e.obs>>)
             /\ Check(ListInv(e.obs.members, Cap), "inv", <<>>, <<e.obs>>)
             /\ Check(TSConformant(e.str, e.obs.members, Cap), "string", <<Serialize(e.obs.members)>>, <<e.str>>)
             /\ Check(e.len = Len(e.obs.members), "len", <<Len(e.obs.members)>>, <<e.len>>)
          /\ UNCHANGED <<cur, hist>>

TExtract == /\ Trace[l].ev = "Extract"
            /\ LET e == Trace[l] outs == ExtractOuts(e.a, e.b, Cap) IN
               /\ Check(In(e.obs, outs), "outcome", outs, <<e.obs>>)
               /\ (e.re /\ e.obs.valid) =>
                     /\ Check(TPConformant(e.rtp, e.obs.tid, e.obs.sid, e.obs.sampled), "reinject-traceparent",
                              <<e.obs.tid, e.obs.sid>>, <<e.rtp>>)
                     /\ Check(TSConformant(e.rts, e.obs.members, Cap), "reinject-tracestate",
                              <<Serialize(e.obs.members)>>, <<e.rts>>)
               /\ (e.re /\ ~e.obs.valid) =>
                     Check(e.rtp = <<>> /\ e.rts = <<>>, "reinject-untouched", <<>>, <<e.rtp, e.rts>>)
            /\ UNCHANGED <<cur, hist>>

TInject == /\ Trace[l].ev = "Inject"
           /\ LET e == Trace[l]
                  sc == [tid |-> SubSeq(e.a, 1, 16), sid |-> SubSeq(e.a, 17, 24), flags |-> e.a[25],
                         list |-> e.list] IN
              IF ValidSC(sc)
              THEN /\ Check(TPConformant(e.ctp, HexOf(sc.tid), HexOf(sc.sid), sc.flags % 2 = 1), "inject-traceparent",
                            <<InjectTP(sc)>>, <<e.ctp>>)
                   /\ Check(TSConformant(e.cts, sc.list, Cap), "inject-tracestate", <<InjectTS(sc)>>, <<e.cts>>)
                   /\ Check(e.obs = RoundTrip(sc), "roundtrip", <<RoundTrip(sc)>>, <<e.obs>>)
                   /\ Check(e.nkeys <= 2, "carrier-keys", <<2>>, <<e.nkeys>>)
              ELSE /\ Check(e.ctp = <<>> /\ e.cts = <<>> /\ e.nkeys = 0, "inject-invalid", <<>>, <<e.ctp, e.cts>>)
                   /\ Check(e.obs = Untouched, "roundtrip", <<Untouched>>, <<e.obs>>)
           /\ UNCHANGED <<cur, hist>>

TNew == /\ Trace[l].ev = "New"
        /\ LET e == Trace[l] outs == TSOuts(e.a, Cap) IN
           /\ Check(In(e.obs, outs), "outcome", outs, <<e.obs>>)
           /\ cur' = e.obs.members
           /\ hist' = <<e.obs.members>>

GetOf(list, k) == LET m == SelectSeq(list, LAMBDA x : x.k = k) IN IF m = <<>> THEN <<>> ELSE m[1].v

TEdit == /\ Trace[l].ev = "Edit"
         /\ LET e == Trace[l]
                outs == IF e.op = "Insert" THEN InsertOuts(cur, e.a, e.b, Cap) ELSE DeleteOuts(cur, e.a) IN
            /\ Check(In(e.obs, outs), "outcome", outs, <<e.obs>>)
            /\ Check(ListInv(e.obs.list, Cap), "inv", <<>>, <<e.obs>>)
            /\ Check(TSConformant(e.str, e.obs.list, Cap), "string", <<Serialize(e.obs.list)>>, <<e.str>>)
            /\ Check(e.len = Len(e.obs.list), "len", <<Len(e.obs.list)>>, <<e.len>>)
            /\ Check(e.get = GetOf(e.obs.list, e.a), "get", <<GetOf(e.obs.list, e.a)>>, <<e.get>>)
            (* copy-on-write: every earlier value re-read after this edit is what it was *)
            /\ \A j \in 1..Len(e.olds) :
                  Check(e.olds[j].i <= Len(hist) /\ e.olds[j].list = hist[e.olds[j].i], "immutable",
                        <<hist[e.olds[j].i]>>, <<e.olds[j].list>>)
            /\ cur' = e.obs.list          \* re-synchronise: each step is judged from the real predecessor
            /\ hist' = Append(hist, e.obs.list)

TDone == l = Len(Trace) + 1 /\ Accepted(l) /\ UNCHANGED vars

Next == \/ /\ l <= Len(Trace)
           /\ (TMember \/ TParse \/ TExtract \/ TInject \/ TNew \/ TEdit)
           /\ l' = l + 1
        \/ TDone
Spec == Init /\ [][Next]_vars
=============================================================================
