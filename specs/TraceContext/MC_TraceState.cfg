SPECIFICATION Spec
CONSTANTS
  Cap = @CAP@
  InitLen = @INITLEN@
  Keys <- MCKeys
  Vals <- MCVals
  MaxSteps = @MAXSTEPS@
VIEW View
ACTION_CONSTRAINT EmitEdge
INVARIANT Inv
PROPERTIES NewestFirst Stable OnlyRightmostEvicted RefusedUnchanged DeleteRemoves
CHECK_DEADLOCK FALSE
