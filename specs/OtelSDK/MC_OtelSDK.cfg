SPECIFICATION Spec
CONSTANTS
  Sig = "@SIG@"
  Mode = "@MODE@"
  MaxItems = @MAXITEMS@
VIEW View
ACTION_CONSTRAINT EmitEdge
INVARIANT Inv
CHECK_DEADLOCK FALSE
