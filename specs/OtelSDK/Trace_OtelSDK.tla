---------------------------- MODULE Trace_OtelSDK ----------------------------
(* The comparator of every recorded line of C13:                                 *)
(*   "Batch" lines (exporter level: stubs -> exporters)  : Trace_OtlpGrouping    *)
(*   "E2E" lines   (real providers -> processors/readers -> exporters):          *)
(*     {ev:"E2E", case, sig, pipe, batch:[{r,s,id,fv(API level)}],               *)
(*      outs:[{proto, groups = union of all received requests}]}                 *)
EXTENDS Trace_OtlpGrouping, OtelSDK

CheckE2E(t) ==
  \A k \in 1..Len(t.outs) :
     \A v \in E2EViolations(t.sig, t.outs[k].proto, t.batch, t.outs[k].groups) :
        Viol([line |-> l, case |-> t.case, sig |-> t.sig, proto |-> t.outs[k].proto, kind |-> v.kind,
              id |-> v.id, field |-> v.field, want |-> v.want, got |-> v.got])

TE2E == /\ l <= Len(Trace) /\ Trace[l].ev = "E2E"
        /\ CheckE2E(Trace[l])
        /\ l' = l + 1

NextAll == TBatch \/ TE2E \/ TDone
SpecAll == Init /\ [][NextAll]_vars
=============================================================================
