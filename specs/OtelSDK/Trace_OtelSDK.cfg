SPECIFICATION SpecAll
INVARIANT Inv
CHECK_DEADLOCK FALSE
