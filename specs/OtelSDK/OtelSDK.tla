------------------------------- MODULE OtelSDK -------------------------------
(* Root module of the specification family: the END-TO-END contract of the three *)
(* signal pipelines                                                              *)
(*   API calls on real providers -> span processor / reader / log processor     *)
(*   -> exporter -> collector (or the stdout exporter's JSON)                    *)
(* stated with the subsystem models it needs: OtlpModel (what a faithful request *)
(* is, grouping, Judge) and SpanModel (status precedence, C04).  Nothing of them *)
(* is re-defined here.                                                           *)
(* A program is a sequence of API-level items [r, s, id, fv]: r = index of the   *)
(* provider's resource, s = index of the tracer/meter/logger scope, fv = what    *)
(* the harness DID through the public API.  Limits stay at their defaults        *)
(* (C04/C17), flush points are quiescent (C01/C06): everything is ended /        *)
(* recorded / emitted before ForceFlush, nothing runs concurrently.              *)
(* Contract: after the flush the collector holds (possibly over several          *)
(* requests) every delivered item exactly once, under its own resource and       *)
(* scope, with the fields the SDK owes for those API calls.                      *)
EXTENDS OtlpModel, Integers, TLC
SM == INSTANCE SpanModel

-----------------------------------------------------------------------------
(* spans: what the SDK owes for Start(name, kind, start, attrs, links, parent);   *)
(* AddEvent*; SetStatus; End(end)                                                *)
CodeCap(c) == CASE c = "unset" -> "Unset" [] c = "error" -> "Error" [] c = "ok" -> "Ok"
CodeLow(c) == CASE c = "Unset" -> "unset" [] c = "Error" -> "error" [] c = "Ok" -> "ok"
SdkStatus(code, msg) ==
  LET st == SM!SetStatus(SM!Empty, CodeCap(code), IF msg = "m0" THEN "" ELSE msg)
  IN [code |-> CodeLow(st.code), msg |-> IF st.desc = "" THEN "m0" ELSE st.desc]
SdkSpan(fv) ==
  LET st == SdkStatus(fv.code, fv.msg) IN
  [idc |-> fv.idc, name |-> fv.name,
   kind |-> IF fv.kind = "unspecified" THEN "internal" ELSE fv.kind,      \* API: the default kind is INTERNAL
   code |-> st.code, msg |-> st.msg, start |-> fv.start, end |-> fv.end, parent |-> fv.parent,
   ts |-> IF fv.parent = "none" THEN "ts0" ELSE fv.ts,                    \* the trace state is the parent's
   attrs |-> fv.attrs, da |-> "c0", de |-> "c0", dl |-> "c0",
   events |-> MapSeq(LAMBDA e : [name |-> e.name, time |-> e.time, attrs |-> e.attrs, d |-> "c0"], fv.events),
   links |-> MapSeq(LAMBDA l : [idc |-> l.idc, n |-> l.n, attrs |-> l.attrs, d |-> "c0",
                                remote |-> l.remote, ts |-> l.ts], fv.links)]

(* log records: Emit(record) with the trace context of ctx *)
SdkLog(fv) ==
  [ts |-> fv.ts, obs |-> fv.obs, sev |-> fv.sev, sevtext |-> fv.sevtext, event |-> fv.event, body |-> fv.body,
   attrs |-> fv.attrs, dropped |-> "c0", ids |-> fv.ids, flags |-> fv.flags]

(* metrics: one instrument, its measurements [da, v] (v a natural number), ONE collection *)
RECURSIVE SumSeq(_), JoinNat(_)
SumSeq(s) == IF s = <<>> THEN 0 ELSE Head(s) + SumSeq(Tail(s))
JoinNat(s) == IF s = <<>> THEN "" ELSE IF Len(s) = 1 THEN ToString(s[1]) ELSE ToString(s[1]) \o "," \o JoinNat(Tail(s))
MinSeq(s) == CHOOSE x \in Range(s) : \A y \in Range(s) : x <= y
MaxSeq(s) == CHOOSE x \in Range(s) : \A y \in Range(s) : x >= y
DefaultBounds == <<0, 5, 10, 25, 50, 75, 100, 250, 500, 750, 1000, 2500, 5000, 7500, 10000>>
ViewBounds == <<2, 4>>
BucketCounts(B, vals) ==          \* upper-inclusive buckets (-inf, B1], (B1, B2], ..., (Bn, +inf)
  [i \in 1..(Len(B) + 1) |->
     Cardinality({j \in 1..Len(vals) : (i = 1 \/ vals[j] > B[i - 1]) /\ (i = Len(B) + 1 \/ vals[j] <= B[i])})]
Observable(k) == k \in {"ocounter", "oupdown", "ogauge"}
SdkAgg(fv) == CASE fv.kind \in {"counter", "updown", "ocounter", "oupdown"} -> "sum"
                [] fv.kind \in {"gauge", "ogauge"} -> "gauge"
                [] fv.kind = "hist" -> IF fv.view = "expo" THEN "exphist" ELSE "hist"
RECURSIVE DistinctDa(_, _)
DistinctDa(meas, seen) ==
  IF meas = <<>> THEN <<>>
  ELSE IF Head(meas).da \in seen THEN DistinctDa(Tail(meas), seen)
       ELSE <<Head(meas).da>> \o DistinctDa(Tail(meas), seen \cup {Head(meas).da})
ValuesOf(meas, da) == LET m == SelectSeq(meas, LAMBDA x : x.da = da) IN [i \in 1..Len(m) |-> m[i].v]
SdkPoint(fv, da) ==
  LET vals == ValuesOf(fv.meas, da)
      agg  == SdkAgg(fv)
      bnd  == IF fv.view = "bounds" THEN ViewBounds ELSE DefaultBounds
  IN [da |-> da, start |-> "tnow", time |-> "tnow",
      val |-> ToString(IF agg = "gauge" \/ Observable(fv.kind) THEN vals[Len(vals)] ELSE SumSeq(vals)),
      cnt |-> ToString(Len(vals)),
      \* the exponential bucket layout is C07's subject: not compared here
      lay |-> IF agg = "hist" THEN JoinNat(bnd) \o "|" \o JoinNat(BucketCounts(bnd, vals)) ELSE "c07",
      mm  |-> ToString(MinSeq(vals)) \o ".." \o ToString(MaxSeq(vals)),
      q |-> NA, ex |-> <<>>]
SdkMetric(fv) ==
  [desc |-> fv.desc, unit |-> fv.unit, agg |-> SdkAgg(fv), num |-> fv.num, temp |-> fv.temp,
   mono |-> IF fv.kind \in {"counter", "ocounter"} THEN "t" ELSE "f",
   dps |-> MapSeq(LAMBDA da : SdkPoint(fv, da), DistinctDa(fv.meas, {}))]

SdkFV(sig, fv) == CASE sig = "trace" -> SdkSpan(fv) [] sig = "log" -> SdkLog(fv) [] sig = "metric" -> SdkMetric(fv)
(* an instrument without measurements has no stream *)
Produces(sig, it) == sig # "metric" \/ it.fv.meas # <<>>
Delivered(sig, prog) ==
  LET p == SelectSeq(prog, LAMBDA it : Produces(sig, it))
  IN [i \in 1..Len(p) |-> [r |-> p[i].r, s |-> p[i].s, id |-> p[i].id, fv |-> SdkFV(sig, p[i].fv)]]

-----------------------------------------------------------------------------
(* The contract.  `out` is the UNION of everything the collector received up to   *)
(* the flush (resource groups of all requests, arrival order).  Only the per-item *)
(* clauses apply: how many requests / groups the processors cut is not part of it *)
(* A Tracer obtained with the empty name: the API specification asks for an empty name property      *)
(* (SHOULD), the Go SDK documents a default name ("sndef") instead; both are admitted.              *)
TracerDefaultName(sig, v) == sig = "trace" /\ v.kind = "misplaced" /\ v.field = "sk.n" /\ v.want = "sn0" /\ v.got = "sndef"
E2EViolations(sig, proto, prog, out) ==
  LET vs == IF proto = "stdout"
            THEN ItemViolations(sig, Delivered(sig, prog), out, LAMBDA fv : StdoutMask(sig, fv), StdoutKeysNotCarried)
            ELSE ItemViolations(sig, Delivered(sig, prog), out, LAMBDA fv : fv, {})
  IN {v \in vs : ~TracerDefaultName(sig, v)}
=============================================================================
