------------------------------ MODULE MC_OtelSDK ------------------------------
(* Explorer of API-level programs for the end-to-end direction of C13: every      *)
(* state is one program; the edge dump drives REAL providers (harness/c13 e2e).   *)
EXTENDS OtelSDK, Pairwise, Json

CONSTANTS Sig, Mode, MaxItems
MCResIdx == @RES@
MCScopeIdx == @SCOPES@

VARIABLES prog
vars == <<prog>>

EA == [name |-> "e1", time |-> "t2", attrs |-> "a8"]
EB == [name |-> "e2", time |-> "t3", attrs |-> "an"]
EC == [name |-> "e0", time |-> "tpre", attrs |-> "abound"]
LA == [idc |-> "plain", n |-> "k1", attrs |-> "a8", remote |-> "f", ts |-> "ts0"]
LB == [idc |-> "hibit", n |-> "k2", attrs |-> "an", remote |-> "t", ts |-> "ts1"]
LC == [idc |-> "lowzero", n |-> "k2", attrs |-> "a8b", remote |-> "f", ts |-> "ts0"]
M(da, v) == [da |-> da, v |-> v]

ApiDom(sig) ==
  CASE sig = "trace" ->
    [idc    |-> <<"plain", "hibit", "lowzero">>,
     name   |-> <<"n1", "n2", "n0", "nuni">>,
     kind   |-> <<"server", "client", "producer", "consumer", "internal", "unspecified">>,
     code   |-> <<"error", "ok", "unset">>,
     msg    |-> <<"m1", "m0", "m2">>,
     start  |-> <<"t1", "t2", "tpre", "tfar">>,
     end    |-> <<"t2", "t3", "tfar", "tpre">>,
     parent |-> <<"local", "remote", "none">>,
     ts     |-> <<"ts1", "ts0">>,
     attrs  |-> <<"a8", "a8b", "abound", "an", "a1">>,
     events |-> << <<EA>>, <<>>, <<EA, EB>>, <<EC>> >>,
     links  |-> << <<LA>>, <<>>, <<LA, LB>>, <<LC>> >>]
  [] sig = "log" ->
    [ts      |-> <<"t1", "t2", "tzero", "tpre", "tfar">>,
     obs     |-> <<"t2", "t3", "tpre", "tfar">>,
     sev     |-> <<"sev9", "sev0", "sev1", "sev24", "sevout">>,
     sevtext |-> <<"st1", "st0">>,
     event   |-> <<"ev1", "ev0">>,
     body    |-> <<"bstr", "bempty", "bint", "bfloat", "bbool", "bbytes", "bslice", "bmap", "bnested",
                   "bdeep", "bemptyslice", "bemptymap", "bmapempty", "bnan", "bemptystr", "bbound">>,
     attrs   |-> <<"la7", "laid", "labare", "lamany", "laempty", "labound">>,
     ids     |-> <<"ids", "noids", "tidonly", "sidonly", "hibit">>,
     flags   |-> <<"f1", "f0">>]
  [] sig = "metric" ->
    [kind |-> <<"counter", "updown", "hist", "gauge", "ocounter", "oupdown", "ogauge">>,
     num  |-> <<"int", "float">>,
     desc |-> <<"d1", "d0">>,
     unit |-> <<"u1", "u0">>,
     view |-> <<"default", "expo", "bounds">>,
     temp |-> <<"cumulative", "delta">>,
     meas |-> << <<M("dp1", 3)>>, <<>>, <<M("dp1", 3), M("dp2", 7), M("dp1", 4)>>,
                 <<M("dp0", 12), M("dp3", 1), M("dp0", 1), M("dp3", 11)>> >>]

RECURSIVE FirstPerDa(_, _)
FirstPerDa(meas, seen) ==
  IF meas = <<>> THEN <<>>
  ELSE IF Head(meas).da \in seen THEN FirstPerDa(Tail(meas), seen)
       ELSE <<Head(meas)>> \o FirstPerDa(Tail(meas), seen \cup {Head(meas).da})
(* programs that exist: a view only concerns histograms; an observable reports one value per attribute  *)
(* set and callback; a log record keeps one carrier of the item id                                      *)
Fix(sig, v) ==
  CASE sig = "metric" -> [v EXCEPT !.view = IF v.kind = "hist" THEN @ ELSE "default",
                                   !.meas = IF Observable(v.kind) THEN FirstPerDa(@, {}) ELSE @]
    [] sig = "log"    -> IF v.attrs = "labare" /\ v.sevtext = "st0" THEN [v EXCEPT !.sevtext = "st1"] ELSE v
    [] OTHER -> v

Choices(pos) ==
  CASE Mode = "group"   -> {Fix(Sig, Variant(ApiDom(Sig), pos))}
    [] Mode = "fields2" -> {Fix(Sig, v) : v \in Vary2(ApiDom(Sig))}
    [] Mode = "fields1" -> {Fix(Sig, v) : v \in Vary1(ApiDom(Sig))}

Init == prog = <<>>
Add(it) == Len(prog) < MaxItems /\ prog' = Append(prog, it)
Next == \E r \in MCResIdx, s \in MCScopeIdx, fv \in Choices(Len(prog) + 1) :
           Add([r |-> r, s |-> s, id |-> Len(prog) + 1, fv |-> fv])
Spec == Init /\ [][Next]_vars
View == prog
EmitEdge == PrintT("EDGE " \o ToJson([sig |-> Sig, mode |-> Mode, batch |-> prog']))

(* model level: an ideal pipeline (one request, grouped as the data model prescribes) meets the    *)
(* contract on every transport; losing the last delivered item or a field of it does not            *)
Ideal == Group(Sig, Delivered(Sig, prog))
Meets == E2EViolations(Sig, "grpc", prog, Ideal) = {}
Sensitive ==
  LET d == Delivered(Sig, prog) IN
  Len(d) > 0 =>
    /\ E2EViolations(Sig, "grpc", prog, Group(Sig, SubSeq(d, 1, Len(d) - 1))) # {}
    /\ E2EViolations(Sig, "grpc", prog, Group(Sig, [d EXCEPT ![Len(d)].r = IF @ = "R3" THEN "R1" ELSE "R3"])) # {}
Inv == Meets /\ Sensitive
=============================================================================
