------------------------------ MODULE EnvModel ------------------------------
(* OTEL_RESOURCE_ATTRIBUTES / OTEL_SERVICE_NAME (property C19), transcribed from *)
(* the OTel "Resource SDK" specification ("a format matching the W3C Baggage,    *)
(* except that metadata is not supported: key1=value1,key2=value2; all values    *)
(* are strings; `,` and `=` MUST be percent encoded, other characters MAY be";   *)
(* "OTEL_SERVICE_NAME takes precedence over service.name") and the property      *)
(* statement ("keep only valid keys, decode percent-escapes losslessly").        *)
(*                                                                               *)
(* INPUT: a sequence of tokens.  Tokens and the characters they stand for:       *)
(*   k j      one key character each (two different, non-hex)                    *)
(*   svc      the text service.name                                              *)
(*   eq comma sp plus oth      =  ,  space/tab  +  one non-ASCII character        *)
(*   pvC pvE pvS pvP           %2C %3D %20 %25   (valid escapes of , = space %)   *)
(*   pbZ pb2  pct              %zz %2z  and a lone % (invalid escapes)            *)
(*   hx       the two characters 2C (text that LOOKS like the tail of an escape) *)
(* Inputs never contain pct directly followed by hx (that would read %2C).       *)
(* OUTPUT keys / values are sequences of CHARACTER classes (Flat), so that the   *)
(* harness can project real strings character by character without ambiguity.    *)
EXTENDS Naturals, Sequences, FiniteSets

PctValid == {"pvC", "pvE", "pvS", "pvP"}
PctBad == {"pct", "pbZ", "pb2"}

(* the characters of a token, undecoded *)
Chars(t) == CASE t = "pvC" -> <<"pct", "d2", "dC">>
              [] t = "pvE" -> <<"pct", "d3", "dD">>
              [] t = "pvS" -> <<"pct", "d2", "d0">>
              [] t = "pvP" -> <<"pct", "d2", "d5">>
              [] t = "pbZ" -> <<"pct", "z", "z">>
              [] t = "pb2" -> <<"pct", "d2", "z">>
              [] t = "hx"  -> <<"d2", "dC">>
              [] OTHER     -> <<t>>
(* the characters of a token after percent-decoding; invalid escapes stay as they are *)
DecChars(t) == CASE t = "pvC" -> <<"comma">>
                 [] t = "pvE" -> <<"eq">>
                 [] t = "pvS" -> <<"sp">>
                 [] t = "pvP" -> <<"pct">>
                 [] OTHER     -> Chars(t)
RECURSIVE FlatWith(_, _)
FlatWith(F(_), s) == IF s = <<>> THEN <<>> ELSE F(Head(s)) \o FlatWith(F, Tail(s))
Raw(s) == FlatWith(Chars, s)          \* text as written
Decoded(s) == FlatWith(DecChars, s)   \* text with every valid escape decoded
HasBad(s) == \E i \in 1..Len(s) : s[i] \in PctBad

RECURSIVE TrimL(_)
TrimL(s) == IF s # <<>> /\ Head(s) = "sp" THEN TrimL(Tail(s)) ELSE s
RECURSIVE TrimR(_)
TrimR(s) == IF s # <<>> /\ s[Len(s)] = "sp" THEN TrimR(SubSeq(s, 1, Len(s) - 1)) ELSE s
Trim(s) == TrimR(TrimL(s))            \* optional whitespace around list members, keys, values

FirstIdx(s, t) == IF \E i \in 1..Len(s) : s[i] = t
                  THEN CHOOSE i \in 1..Len(s) : s[i] = t /\ \A j \in 1..(i - 1) : s[j] # t
                  ELSE 0
RECURSIVE Split(_, _)
Split(s, t) == LET i == FirstIdx(s, t) IN
               IF i = 0 THEN <<s>>
               ELSE <<SubSeq(s, 1, i - 1)>> \o Split(SubSeq(s, i + 1, Len(s)), t)

(* one list member *)
Pair(p) ==
  IF Trim(p) = <<>> THEN [kind |-> "blank", key |-> <<>>, raw |-> <<>>]
  ELSE LET i == FirstIdx(p, "eq") IN
       IF i = 0 THEN [kind |-> "noeq", key |-> <<>>, raw |-> <<>>]
       ELSE LET key == Trim(SubSeq(p, 1, i - 1))
                raw == SubSeq(p, i + 1, Len(p))       \* a value may contain further '='
            IN IF key = <<>> THEN [kind |-> "nokey", key |-> <<>>, raw |-> raw]
               ELSE [kind |-> "kv", key |-> key, raw |-> raw]

Pairs(s) == LET t == Trim(s) IN
            IF t = <<>> THEN <<>>
            ELSE LET segs == Split(t, "comma") IN [i \in 1..Len(segs) |-> Pair(segs[i])]

(* What is admissible for one well-formed member.  The statement fixes the value *)
(* when every escape is valid: the trimmed text with every escape decoded.  It   *)
(* is silent about invalid escapes (admitted: text kept as written, trimmed or   *)
(* not, or only the valid escapes decoded) and about escapes in keys (admitted:  *)
(* kept as written or decoded).                                                  *)
KeyAlts(key) == {Raw(key), Decoded(key)}
ValAlts(raw) == IF HasBad(raw) THEN {Raw(Trim(raw)), Raw(raw), Decoded(Trim(raw))}
                ELSE {Decoded(Trim(raw))}
Options(pr) == IF pr.kind = "kv"
               THEN {<<[k |-> kk, v |-> vv]>> : kk \in KeyAlts(pr.key), vv \in ValAlts(pr.raw)}
               ELSE {<<>>}                              \* nothing is kept from it

KeysOfE(as) == {a.k : a \in as}
(* duplicates inside the variable: the statement is silent; first or last may win *)
Put(acc, o, pol) ==
  IF o = <<>> THEN acc
  ELSE IF o[1].k \in KeysOfE(acc)
       THEN (IF pol = "last" THEN {a \in acc : a.k # o[1].k} \cup {o[1]} ELSE acc)
       ELSE acc \cup {o[1]}
RECURSIVE Build(_, _, _)
Build(prs, pol, acc) ==
  IF prs = <<>> THEN {acc}
  ELSE UNION {Build(Tail(prs), pol, Put(acc, o, pol)) : o \in Options(Head(prs))}

Kinds(s) == {Pairs(s)[i].kind : i \in 1..Len(Pairs(s))}
Malformed(s) == "noeq" \in Kinds(s)                     \* a non-blank member without '='
BadEsc(s) == \E i \in 1..Len(Pairs(s)) : HasBad(Pairs(s)[i].raw) \/ HasBad(Pairs(s)[i].key)
Sloppy(s) == "blank" \in Kinds(s) \/ "nokey" \in Kinds(s)

(* error classes: "none" (nil), "partial" (wraps ErrPartialResource, so Detect   *)
(* keeps what was detected).  Any other error is never admissible.               *)
ErrsFor(s) == IF Malformed(s) THEN {"partial"}          \* something was omitted: must be reported
              ELSE IF BadEsc(s) \/ Sloppy(s) THEN {"none", "partial"}
              ELSE {"none"}

AttrAdm(s) ==
  {[attrs |-> as, errs |-> ErrsFor(s)] : as \in UNION {Build(Pairs(s), pol, {}) : pol \in {"first", "last"}}}
  \cup (IF Malformed(s) \/ BadEsc(s)                    \* newer spec text: discard the whole value + error
        THEN {[attrs |-> {}, errs |-> {"partial"}]} ELSE {})

(* OTEL_SERVICE_NAME: svc = [set, s]; taken verbatim (trimmed); a blank value is *)
(* either ignored or an empty name (statement silent).                           *)
SvcKey == <<"svc">>
Over(as, k, v) == {a \in as : a.k # k} \cup {[k |-> k, v |-> v]}
WithSvc(as, svc) == IF ~svc.set THEN {as}
                    ELSE IF Trim(svc.s) = <<>> THEN {as, Over(as, SvcKey, <<>>)}
                    ELSE {Over(as, SvcKey, Raw(Trim(svc.s)))}

Adm(s, svc) == UNION {{[attrs |-> a2, errs |-> r.errs] : a2 \in WithSvc(r.attrs, svc)} : r \in AttrAdm(s)}

EnvOK(s, svc, got) == \E r \in Adm(s, svc) : got.attrs = r.attrs /\ got.err \in r.errs

-----------------------------------------------------------------------------
(* The statement on the model.                                                   *)
FunctionalE(as) == \A a, b \in as : a.k = b.k => a = b
EnvLaw(s, svc) ==
  \A r \in Adm(s, svc) :
     /\ FunctionalE(r.attrs) /\ <<>> \notin KeysOfE(r.attrs)               \* only valid (non-empty) keys
     /\ (svc.set /\ Trim(svc.s) # <<>> =>                                   \* OTEL_SERVICE_NAME wins
            [k |-> SvcKey, v |-> Raw(Trim(svc.s))] \in r.attrs)
(* lossless transport: ANY character string c, written with , = % and space      *)
(* percent-encoded, comes back as exactly c, without an error.                   *)
Enc(c) == CASE c = "comma" -> "pvC" [] c = "eq" -> "pvE" [] c = "sp" -> "pvS" [] c = "pct" -> "pvP" [] OTHER -> c
Encode(cs) == [i \in 1..Len(cs) |-> Enc(cs[i])]
RoundTrip(cs) ==
  Adm(<<"k", "eq">> \o Encode(cs), [set |-> FALSE, s |-> <<>>])
    = {[attrs |-> {[k |-> <<"k">>, v |-> cs]}, errs |-> {"none"}]}
=============================================================================
