--------------------------- MODULE MC_ResourceEnv ---------------------------
EXTENDS ResourceEnv
MCAlphabet == @ALPHABET@
MCSvcChoices == @SVC@
MCRoundTripChars == {"k", "j", "eq", "comma", "sp", "pct", "plus", "oth"}
=============================================================================
