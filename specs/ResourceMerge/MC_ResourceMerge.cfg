SPECIFICATION Spec
CONSTANTS
  Mode = "@MODE@"
  MaxN = @MAXN@
  Keys <- MCKeys
  Vals <- MCVals
  Schemas <- MCSchemas
  ListKeysC <- MCListKeys
  ListValsC <- MCListVals
  DetRes <- MCDetRes
VIEW View
ACTION_CONSTRAINT EmitEdge
INVARIANT Inv
CHECK_DEADLOCK FALSE
