----------------------------- MODULE ResourceEnv -----------------------------
(* State machine over EnvModel for exhaustive enumeration by TLC (C19): every   *)
(* token string of length <= MaxLen over Alphabet as OTEL_RESOURCE_ATTRIBUTES,   *)
(* under every choice of OTEL_SERVICE_NAME in SvcChoices.  Every edge is printed *)
(* with the set of admissible observations of its successor; the harness sets    *)
(* the real environment variables (serially), runs the real detector and checks  *)
(* that what it observes is a member of that set.                                *)
EXTENDS EnvModel, TLC, Json

CONSTANTS Alphabet, MaxLen, SvcChoices, RoundTripChars, RoundTripLen

VARIABLES s, svc, adm, act
vars == <<s, svc, adm, act>>

Init == /\ s = <<>> /\ svc \in SvcChoices /\ adm = Adm(<<>>, svc) /\ act = [op |-> "Init"]
Push(t) == /\ Len(s) < MaxLen
           /\ ~(s # <<>> /\ s[Len(s)] = "pct" /\ t = "hx")     \* would read as the valid escape %2C
           /\ s' = Append(s, t)
           /\ adm' = Adm(s', svc)
           /\ act' = [op |-> "Push", t |-> t]
           /\ UNCHANGED svc
Next == \E t \in Alphabet : Push(t)
Spec == Init /\ [][Next]_vars

View == <<s, svc>>
EmitEdge == PrintT("EDGE " \o ToJson([from |-> [s |-> s, svc |-> svc], act |-> act',
                                      to |-> [s |-> s', svc |-> svc', adm |-> adm']]))

Inv == EnvLaw(s, svc) /\ adm # {}
(* lossless transport, for every character string up to RoundTripLen *)
ASSUME \A cs \in UNION {[1..n -> RoundTripChars] : n \in 0..RoundTripLen} : RoundTrip(cs)
=============================================================================
