------------------------------ MODULE ResModel ------------------------------
(* Reference model of OpenTelemetry resources (property C19), transcribed from  *)
(* the property statement, the OTel "Resource SDK" specification (Merge, schema *)
(* URL rules) and the public Go documentation of sdk/resource -- not from the   *)
(* implementation.  Everything here is a pure operator.                         *)
(*                                                                              *)
(* resource  = [nil, attrs, schema]                                             *)
(*   attrs   : a set of [k, v] records that is functional in k (a partial       *)
(*             function key -> value written as its graph, so that the JSON     *)
(*             shape is uniform: always an array of {k, v} objects)             *)
(*   schema  : "" (none) or a schema URL                                        *)
(*   nil     : the Go nil *Resource, "equivalent to an empty Resource"          *)
(* keys and values are opaque strings; "" is the invalid (empty) key.           *)
EXTENDS Naturals, Sequences, FiniteSets

NilRes == [nil |-> TRUE, attrs |-> {}, schema |-> ""]
Res(as, s) == [nil |-> FALSE, attrs |-> as, schema |-> s]
EmptyRes == Res({}, "")

KeysOf(as) == {a.k : a \in as}
Functional(as) == \A a, b \in as : a.k = b.k => a = b
IsEmptyLike(r) == r.attrs = {} /\ r.schema = ""      \* nil or Empty()

(* "exactly the union of their attributes with b's value winning on shared keys" *)
Union(as, bs) == bs \cup {a \in as : a.k \notin KeysOf(bs)}

(* OTel Resource SDK, Merge: old = a, updating = b *)
MergeSchema(sa, sb) == IF sa = "" THEN sb
                       ELSE IF sb = "" THEN sa
                       ELSE IF sa = sb THEN sa
                       ELSE ""                      \* merging error: statement pins "empty"
Conflict(sa, sb) == sa # "" /\ sb # "" /\ sa # sb

(* result of one Merge call: attributes, schema, and whether a conflict error   *)
(* is returned.  A nil operand has no attributes and no schema.                 *)
Merge(a, b) == [attrs  |-> Union(a.attrs, b.attrs),
                schema |-> MergeSchema(a.schema, b.schema),
                err    |-> Conflict(a.schema, b.schema)]
AsRes(m) == Res(m.attrs, m.schema)

-----------------------------------------------------------------------------
(* The statement's laws as predicates (checked by TLC on every enumerated tuple) *)
Lookup(as, k) == (CHOOSE a \in as : a.k = k).v
UnionLaw(a, b) ==
  LET m == Merge(a, b) IN
  /\ Functional(m.attrs)
  /\ KeysOf(m.attrs) = KeysOf(a.attrs) \cup KeysOf(b.attrs)            \* never loses an attribute
  /\ \A k \in KeysOf(m.attrs) :
        Lookup(m.attrs, k) = IF k \in KeysOf(b.attrs) THEN Lookup(b.attrs, k) ELSE Lookup(a.attrs, k)
IdentityLaw(a, b) ==
  LET m == Merge(a, b) IN
  /\ (IsEmptyLike(b) => m.attrs = a.attrs /\ m.schema = a.schema /\ ~m.err)
  /\ (IsEmptyLike(a) => m.attrs = b.attrs /\ m.schema = b.schema /\ ~m.err)
IdempotentLaw(a) ==
  LET m == Merge(a, a) IN m.attrs = a.attrs /\ m.schema = a.schema /\ ~m.err
SchemaLaw(a, b) ==
  LET m == Merge(a, b) IN
  \/ ~m.err /\ a.schema = "" /\ m.schema = b.schema                     \* the non-empty one (or none)
  \/ ~m.err /\ b.schema = "" /\ m.schema = a.schema
  \/ ~m.err /\ a.schema = b.schema /\ m.schema = a.schema               \* the common one
  \/ m.err /\ m.schema = "" /\ a.schema # b.schema /\ a.schema # "" /\ b.schema # ""
AssocLaw(a, b, c) ==
  Merge(AsRes(Merge(a, b)), c).attrs = Merge(a, AsRes(Merge(b, c))).attrs

-----------------------------------------------------------------------------
(* Folds over a tuple of operands.  errs lists, per Merge call made (in call    *)
(* order), whether that call returns a conflict error.                          *)
RECURSIVE FoldL(_, _)
(* FoldL(acc, xs): ((acc + x1) + x2) + ... ; acc = [res, errs] *)
FoldL(acc, xs) ==
  IF xs = <<>> THEN acc
  ELSE LET m == Merge(acc.res, Head(xs))
       IN FoldL([res |-> AsRes(m), errs |-> Append(acc.errs, m.err)], Tail(xs))

RECURSIVE FoldR(_)
(* FoldR(xs): x1 + (x2 + (... + xn)), innermost call first *)
FoldR(xs) ==
  IF Len(xs) = 1 THEN [res |-> xs[1], errs |-> <<>>]
  ELSE LET t == FoldR(Tail(xs))
           m == Merge(Head(xs), t.res)
       IN [res |-> AsRes(m), errs |-> Append(t.errs, m.err)]

Out(f) == [attrs |-> f.res.attrs, schema |-> f.res.schema, errs |-> f.errs]

(* Equal / Equivalent: "equal resources have equal map identities": two          *)
(* resources are Equal iff their attribute maps are equal (schema ignored, nil   *)
(* = empty), and exactly then their Equivalent() values are equal map keys.      *)
SameAttrs(a, b) == a.attrs = b.attrs
(* all i<j pairs of a sequence of resources, row-major *)
RECURSIVE PairsFrom(_, _, _)
PairsFrom(objs, i, j) ==
  IF i >= Len(objs) THEN <<>>
  ELSE IF j > Len(objs) THEN PairsFrom(objs, i + 1, i + 2)
  ELSE <<SameAttrs(objs[i], objs[j])>> \o PairsFrom(objs, i, j + 1)
EqMatrix(objs) == PairsFrom(objs, 1, 2)

(* what the statement says about a tuple of 1..3 operands *)
TupleOut(xs) ==
  LET l == FoldL([res |-> xs[1], errs |-> <<>>], Tail(xs))
      r == FoldR(xs)
  IN [l |-> Out(l), r |-> Out(r), eq |-> EqMatrix(xs \o <<l.res, r.res>>)]

-----------------------------------------------------------------------------
(* Resources from attribute lists: NewWithAttributes / NewSchemaless /           *)
(* New(WithAttributes).  Items are [k, v]; k = "" is an invalid key, v = "inv"   *)
(* stands for a value of INVALID type (the other kind of "invalid item").        *)
(* "keep only valid keys, last duplicate wins".  The statement does not say      *)
(* whether an invalid-typed value still shadows an earlier valid duplicate, so   *)
(* both orders of (de-duplicate, filter) are admissible.                         *)
ValidItem(it) == it.k # "" /\ it.v # "inv"
LastIdx(list, k, P(_)) ==
  LET S == {i \in 1..Len(list) : list[i].k = k /\ P(list[i])} IN
  IF S = {} THEN 0 ELSE CHOOSE i \in S : \A j \in S : j <= i
AnyItem(it) == TRUE
ListKeys(list) == {list[i].k : i \in 1..Len(list)}
(* de-duplicate (last wins) over all items, then drop invalid ones *)
FromListDedupFirst(list) ==
  {list[LastIdx(list, k, AnyItem)] : k \in ListKeys(list)} \cap {it \in {list[i] : i \in 1..Len(list)} : ValidItem(it)}
(* drop invalid items, then de-duplicate (last wins) *)
FromListFilterFirst(list) ==
  {list[LastIdx(list, k, ValidItem)] : k \in {kk \in ListKeys(list) : LastIdx(list, kk, ValidItem) # 0}}
FromListAdm(list) == {FromListDedupFirst(list), FromListFilterFirst(list)}
ListLaw(list) ==
  \A as \in FromListAdm(list) :
     /\ Functional(as) /\ "" \notin KeysOf(as)
     /\ \A it \in as : it.v # "inv"
     /\ \A i \in 1..Len(list) : (list[i].k # "" /\ \A j \in 1..Len(list) : list[j].k = list[i].k => list[j].v # "inv")
            => list[i].k \in KeysOf(as)             \* a key that is only ever valid is never lost
     /\ \A a \in as : \E i \in 1..Len(list) : list[i] = a

-----------------------------------------------------------------------------
(* Detect / New with scripted detectors.  A detector is [res, out]:              *)
(*   ok      -> (res, nil)                                                       *)
(*   partial -> (res, error wrapping ErrPartialResource): keeps what was detected*)
(*   fail    -> (res, some other error): its resource is not merged, its error   *)
(*              is wrapped by the returned error                                  *)
(* Detectors run in order, each result merged INTO the previous (later wins).    *)
(* base = schema URL given to New (WithSchemaURL); Detect(...) is base = "".     *)
RECURSIVE DetFold(_, _, _)
DetFold(acc, ds, i) ==
  IF i > Len(ds) THEN acc
  ELSE LET d == ds[i] IN
       IF d.out = "fail"
       THEN DetFold([acc EXCEPT !.fails = @ \cup {i}], ds, i + 1)
       ELSE LET m == Merge(acc.res, d.res)
            IN DetFold([res |-> AsRes(m),
                        conflict |-> acc.conflict \/ m.err,
                        partials |-> IF d.out = "partial" THEN acc.partials \cup {i} ELSE acc.partials,
                        fails |-> acc.fails], ds, i + 1)

DetectOut(base, ds) ==
  LET f == DetFold([res |-> Res({}, base), conflict |-> FALSE, partials |-> {}, fails |-> {}], ds, 1)
  IN [attrs |-> f.res.attrs,
      schema |-> IF f.conflict THEN "" ELSE f.res.schema,   \* "empty together with a conflict error"
      conflict |-> f.conflict, partials |-> f.partials, fails |-> f.fails,
      errNil |-> ~f.conflict /\ f.partials = {} /\ f.fails = {}]

(* order-independent characterisations, checked by TLC on every enumerated sequence *)
Merged(ds) == {i \in 1..Len(ds) : ds[i].out # "fail"}
DetectLaw(base, ds) ==
  LET o == DetectOut(base, ds)
      schemas == ({base} \cup {ds[i].res.schema : i \in Merged(ds)}) \ {""}
  IN /\ o.conflict = (Cardinality(schemas) >= 2)
     /\ (Cardinality(schemas) = 1 => o.schema \in schemas)
     /\ (Cardinality(schemas) = 0 => o.schema = "")
     /\ KeysOf(o.attrs) = UNION {KeysOf(ds[i].res.attrs) : i \in Merged(ds)}   \* nothing detected is lost
     /\ \A k \in KeysOf(o.attrs) :                                               \* later detectors win
          LET last == CHOOSE i \in Merged(ds) : /\ k \in KeysOf(ds[i].res.attrs)
                                                /\ \A j \in Merged(ds) : k \in KeysOf(ds[j].res.attrs) => j <= i
          IN Lookup(o.attrs, k) = Lookup(ds[last].res.attrs, k)
-----------------------------------------------------------------------------
(* Composition of the SDK's own sources: Default() and New(ctx, opts...).       *)
(* Transcribed from the doc comments of Default, New, Detect and of every With* *)
(* option (sdk/resource), the changelog entry of the experimental instance id   *)
(* ("populated ... with a DEFAULT value when OTEL_GO_X_RESOURCE is set"), the    *)
(* OTel Resource SDK specification ("SDK-provided default value" of             *)
(* service.name = unknown_service:<exe>; OTEL_RESOURCE_ATTRIBUTES; "if          *)
(* service.name is also provided in OTEL_RESOURCE_ATTRIBUTES, then              *)
(* OTEL_SERVICE_NAME takes precedence"; "the SDK MUST set telemetry.sdk.name to  *)
(* opentelemetry") and the statement ("give OTEL_SERVICE_NAME and later          *)
(* detectors precedence").                                                       *)
(*                                                                               *)
(* Keys are semantic-convention names.  The VALUES of the built-in detectors are *)
(* environment specific, so values are SOURCE TAGS (who provided the winner):    *)
(*   "gen"        generated / detected by the SDK itself                         *)
(*   "env"        taken from OTEL_RESOURCE_ATTRIBUTES                            *)
(*   "envsvc"     the value of OTEL_SERVICE_NAME                                 *)
(*   "p1".."p9"   supplied by the option at that position of the option list     *)
(* Environment setting e = [x, ra, sn, bad]:                                     *)
(*   x   : OTEL_GO_X_RESOURCE  "unset" | "true" (any case) | "false" (anything   *)
(*         else: "All other values are ignored")                                 *)
(*   ra  : the set of keys OTEL_RESOURCE_ATTRIBUTES provides                     *)
(*   sn  : OTEL_SERVICE_NAME is set (non-blank)                                  *)
(*   bad : OTEL_RESOURCE_ATTRIBUTES also holds a member without '='              *)
SC == "sc"                       \* the schema URL shared by the SDK's own detectors
SvcK == "service.name"
SidK == "service.instance.id"
SdkKeys == {"telemetry.sdk.name", "telemetry.sdk.language", "telemetry.sdk.version"}
Tag(keys, v) == {[k |-> kk, v |-> v] : kk \in keys}
PTag(i) == <<"p1", "p2", "p3", "p4", "p5", "p6", "p7", "p8", "p9">>[i]

(* the documented attribute set of every built-in option ("WithProcess ... is    *)
(* equivalent to calling WithProcessPID, WithProcessExecutableName, ...")        *)
ProcKeys == {"process.pid", "process.executable.name", "process.executable.path", "process.command_args",
             "process.owner", "process.runtime.name", "process.runtime.version", "process.runtime.description"}
BuiltinKeys(b) ==
  CASE b = "sdk"        -> SdkKeys
    [] b = "host"       -> {"host.name"}
    [] b = "hostid"     -> {"host.id"}
    [] b = "os"         -> {"os.type", "os.description"}
    [] b = "ostype"     -> {"os.type"}
    [] b = "osdesc"     -> {"os.description"}
    [] b = "proc"       -> ProcKeys
    [] b = "procpid"    -> {"process.pid"}
    [] b = "procexe"    -> {"process.executable.name"}
    [] b = "procpath"   -> {"process.executable.path"}
    [] b = "procargs"   -> {"process.command_args"}
    [] b = "procowner"  -> {"process.owner"}
    [] b = "procrtname" -> {"process.runtime.name"}
    [] b = "procrtver"  -> {"process.runtime.version"}
    [] b = "procrtdesc" -> {"process.runtime.description"}
    [] b = "container"  -> {"container.id"}
    [] b = "containerid" -> {"container.id"}
BuiltinDet(b) == [res |-> Res(Tag(BuiltinKeys(b), "gen"), SC), out |-> "ok"]

(* The environment detector: OTEL_RESOURCE_ATTRIBUTES < OTEL_SERVICE_NAME, no    *)
(* schema URL.  With a malformed member the statement admits keeping the         *)
(* well-formed pairs or discarding the whole variable (see EnvModel.AttrAdm);    *)
(* both report ErrPartialResource, so what was detected is still merged, and     *)
(* OTEL_SERVICE_NAME is applied either way.                                      *)
EnvSvc(e) == IF e.sn THEN Tag({SvcK}, "envsvc") ELSE {}
EnvAttrs(e) == Union(Tag(e.ra, "env"), EnvSvc(e))
EnvDetAdm(e) ==
  IF e.bad THEN {[res |-> Res(EnvAttrs(e), ""), out |-> "partial"], [res |-> Res(EnvSvc(e), ""), out |-> "partial"]}
  ELSE {[res |-> Res(EnvAttrs(e), ""), out |-> "ok"]}

(* Default(): "a default service.name and OpenTelemetrySDK attributes".          *)
(*   defaults (service.name = unknown_service:<exe>; with the experimental flag   *)
(*             a generated service.instance.id -- a DEFAULT value)                *)
(*     <  environment (OTEL_RESOURCE_ATTRIBUTES < OTEL_SERVICE_NAME)              *)
(*     <  telemetry.sdk.* (the SDK MUST set them: not overridable from outside)   *)
(* written with the parameters the trace specification instantiates from real    *)
(* observations (key names, the SDK's schema URL, the observed env / sdk layers). *)
DefaultLayers(xOn, svcK, sidK, sc, envdet, sdkdet) ==
  <<[res |-> Res(Tag({svcK}, "gen") \cup (IF xOn THEN Tag({sidK}, "gen") ELSE {}), sc), out |-> "ok"], envdet, sdkdet>>
DefaultOut(xOn, svcK, sidK, sc, envdet, sdkdet) ==
  LET o == DetectOut("", DefaultLayers(xOn, svcK, sidK, sc, envdet, sdkdet))
  IN [attrs |-> o.attrs, schema |-> o.schema]
DefaultAdm(e) == {DefaultOut(e.x = "true", SvcK, SidK, SC, ed, BuiltinDet("sdk")) : ed \in EnvDetAdm(e)}

(* order-free characterisation (TLC invariant of every enumerated setting) *)
DefaultLaw(e) ==
  /\ DefaultAdm(e) # {}
  /\ \A ed \in EnvDetAdm(e) :
       LET r == DefaultOut(e.x = "true", SvcK, SidK, SC, ed, BuiltinDet("sdk"))
           ek == KeysOf(ed.res.attrs)          \* what the environment contributes under this reading
           ks == KeysOf(r.attrs)
       IN /\ Functional(r.attrs) /\ r.schema = SC
          /\ ks = {SvcK} \cup SdkKeys \cup ek \cup (IF e.x = "true" THEN {SidK} ELSE {})   \* nothing lost, nothing invented
          /\ \A k \in SdkKeys : Lookup(r.attrs, k) = "gen"                  \* never overridden from outside
          /\ \A k \in ek \ SdkKeys : Lookup(r.attrs, k) = Lookup(ed.res.attrs, k)   \* the environment beats every default,
          /\ \A k \in ks \ ek : Lookup(r.attrs, k) = "gen"                 \*   the generated instance id included
          /\ (e.sn => Lookup(r.attrs, SvcK) = "envsvc")                    \* OTEL_SERVICE_NAME beats everything
          /\ (~e.bad => ek = e.ra \cup (IF e.sn THEN {SvcK} ELSE {}))

(* New(ctx, opts...): "options applied in order": every option contributes its   *)
(* detectors in list order, Detect merges them in that order (later wins, schema *)
(* rule per Merge, errors collected); WithSchemaURL sets the schema URL the      *)
(* result starts from.  An option is [t, b, keys, schema, out, nil]:             *)
(*   t = "env"    WithFromEnv                                                    *)
(*   t = "bi"     built-in b (WithTelemetrySDK, WithHost, WithOS, WithProcess..) *)
(*   t = "attrs"  WithAttributes over keys (values tagged by position)           *)
(*   t = "det"    WithDetectors(scripted): keys, schema, outcome out, nil result *)
(*   t = "schema" WithSchemaURL(schema)                                          *)
OptDet(o, i, ed) ==
  CASE o.t = "env"   -> ed
    [] o.t = "bi"    -> BuiltinDet(o.b)
    [] o.t = "attrs" -> [res |-> Res(Tag(o.keys, PTag(i)), ""), out |-> "ok"]
    [] o.t = "det"   -> [res |-> IF o.nil THEN NilRes ELSE Res(Tag(o.keys, PTag(i)), o.schema), out |-> o.out]
DetIdx(opts) == {i \in 1..Len(opts) : opts[i].t # "schema"}
RECURSIVE DetsFrom(_, _, _)
DetsFrom(opts, i, ed) ==
  IF i > Len(opts) THEN <<>>
  ELSE (IF opts[i].t = "schema" THEN <<>> ELSE <<OptDet(opts[i], i, ed)>>) \o DetsFrom(opts, i + 1, ed)
(* index of the k-th detector in the option list (errors are reported per option position) *)
RECURSIVE PosFrom(_, _)
PosFrom(opts, i) ==
  IF i > Len(opts) THEN <<>>
  ELSE (IF opts[i].t = "schema" THEN <<>> ELSE <<i>>) \o PosFrom(opts, i + 1)
BaseOf(opts) == LET S == {i \in 1..Len(opts) : opts[i].t = "schema"} IN
                IF S = {} THEN "" ELSE opts[CHOOSE i \in S : \A j \in S : j <= i].schema
NewOutWith(opts, ed) ==
  LET o == DetectOut(BaseOf(opts), DetsFrom(opts, 1, ed))
      pos == PosFrom(opts, 1)
  IN [o EXCEPT !.partials = {pos[j] : j \in @}, !.fails = {pos[j] : j \in @}]
NewAdm(e, opts) == {NewOutWith(opts, ed) : ed \in EnvDetAdm(e)}
NewLaw(e, opts) ==
  /\ NewAdm(e, opts) # {}
  /\ \A ed \in EnvDetAdm(e) : DetectLaw(BaseOf(opts), DetsFrom(opts, 1, ed))
  /\ (e.sn => \A ed \in EnvDetAdm(e) : [k |-> SvcK, v |-> "envsvc"] \in ed.res.attrs)
=============================================================================
