------------------------------ MODULE ResModel ------------------------------
(* Reference model of OpenTelemetry resources (property C19), transcribed from  *)
(* the property statement, the OTel "Resource SDK" specification (Merge, schema *)
(* URL rules) and the public Go documentation of sdk/resource -- not from the   *)
(* implementation.  Everything here is a pure operator.                         *)
(*                                                                              *)
(* resource  = [nil, attrs, schema]                                             *)
(*   attrs   : a set of [k, v] records that is functional in k (a partial       *)
(*             function key -> value written as its graph, so that the JSON     *)
(*             shape is uniform: always an array of {k, v} objects)             *)
(*   schema  : "" (none) or a schema URL                                        *)
(*   nil     : the Go nil *Resource, "equivalent to an empty Resource"          *)
(* keys and values are opaque strings; "" is the invalid (empty) key.           *)
EXTENDS Naturals, Sequences, FiniteSets

NilRes == [nil |-> TRUE, attrs |-> {}, schema |-> ""]
Res(as, s) == [nil |-> FALSE, attrs |-> as, schema |-> s]
EmptyRes == Res({}, "")

KeysOf(as) == {a.k : a \in as}
Functional(as) == \A a, b \in as : a.k = b.k => a = b
IsEmptyLike(r) == r.attrs = {} /\ r.schema = ""      \* nil or Empty()

(* "exactly the union of their attributes with b's value winning on shared keys" *)
Union(as, bs) == bs \cup {a \in as : a.k \notin KeysOf(bs)}

(* OTel Resource SDK, Merge: old = a, updating = b *)
MergeSchema(sa, sb) == IF sa = "" THEN sb
                       ELSE IF sb = "" THEN sa
                       ELSE IF sa = sb THEN sa
                       ELSE ""                      \* merging error: statement pins "empty"
Conflict(sa, sb) == sa # "" /\ sb # "" /\ sa # sb

(* result of one Merge call: attributes, schema, and whether a conflict error   *)
(* is returned.  A nil operand has no attributes and no schema.                 *)
Merge(a, b) == [attrs  |-> Union(a.attrs, b.attrs),
                schema |-> MergeSchema(a.schema, b.schema),
                err    |-> Conflict(a.schema, b.schema)]
AsRes(m) == Res(m.attrs, m.schema)

-----------------------------------------------------------------------------
(* The statement's laws as predicates (checked by TLC on every enumerated tuple) *)
Lookup(as, k) == (CHOOSE a \in as : a.k = k).v
UnionLaw(a, b) ==
  LET m == Merge(a, b) IN
  /\ Functional(m.attrs)
  /\ KeysOf(m.attrs) = KeysOf(a.attrs) \cup KeysOf(b.attrs)            \* never loses an attribute
  /\ \A k \in KeysOf(m.attrs) :
        Lookup(m.attrs, k) = IF k \in KeysOf(b.attrs) THEN Lookup(b.attrs, k) ELSE Lookup(a.attrs, k)
IdentityLaw(a, b) ==
  LET m == Merge(a, b) IN
  /\ (IsEmptyLike(b) => m.attrs = a.attrs /\ m.schema = a.schema /\ ~m.err)
  /\ (IsEmptyLike(a) => m.attrs = b.attrs /\ m.schema = b.schema /\ ~m.err)
IdempotentLaw(a) ==
  LET m == Merge(a, a) IN m.attrs = a.attrs /\ m.schema = a.schema /\ ~m.err
SchemaLaw(a, b) ==
  LET m == Merge(a, b) IN
  \/ ~m.err /\ a.schema = "" /\ m.schema = b.schema                     \* the non-empty one (or none)
  \/ ~m.err /\ b.schema = "" /\ m.schema = a.schema
  \/ ~m.err /\ a.schema = b.schema /\ m.schema = a.schema               \* the common one
  \/ m.err /\ m.schema = "" /\ a.schema # b.schema /\ a.schema # "" /\ b.schema # ""
AssocLaw(a, b, c) ==
  Merge(AsRes(Merge(a, b)), c).attrs = Merge(a, AsRes(Merge(b, c))).attrs

-----------------------------------------------------------------------------
(* Folds over a tuple of operands.  errs lists, per Merge call made (in call    *)
(* order), whether that call returns a conflict error.                          *)
RECURSIVE FoldL(_, _)
(* FoldL(acc, xs): ((acc + x1) + x2) + ... ; acc = [res, errs] *)
FoldL(acc, xs) ==
  IF xs = <<>> THEN acc
  ELSE LET m == Merge(acc.res, Head(xs))
       IN FoldL([res |-> AsRes(m), errs |-> Append(acc.errs, m.err)], Tail(xs))

RECURSIVE FoldR(_)
(* FoldR(xs): x1 + (x2 + (... + xn)), innermost call first *)
FoldR(xs) ==
  IF Len(xs) = 1 THEN [res |-> xs[1], errs |-> <<>>]
  ELSE LET t == FoldR(Tail(xs))
           m == Merge(Head(xs), t.res)
       IN [res |-> AsRes(m), errs |-> Append(t.errs, m.err)]

Out(f) == [attrs |-> f.res.attrs, schema |-> f.res.schema, errs |-> f.errs]

(* Equal / Equivalent: "equal resources have equal map identities": two          *)
(* resources are Equal iff their attribute maps are equal (schema ignored, nil   *)
(* = empty), and exactly then their Equivalent() values are equal map keys.      *)
SameAttrs(a, b) == a.attrs = b.attrs
(* all i<j pairs of a sequence of resources, row-major *)
RECURSIVE PairsFrom(_, _, _)
PairsFrom(objs, i, j) ==
  IF i >= Len(objs) THEN <<>>
  ELSE IF j > Len(objs) THEN PairsFrom(objs, i + 1, i + 2)
  ELSE <<SameAttrs(objs[i], objs[j])>> \o PairsFrom(objs, i, j + 1)
EqMatrix(objs) == PairsFrom(objs, 1, 2)

(* what the statement says about a tuple of 1..3 operands *)
TupleOut(xs) ==
  LET l == FoldL([res |-> xs[1], errs |-> <<>>], Tail(xs))
      r == FoldR(xs)
  IN [l |-> Out(l), r |-> Out(r), eq |-> EqMatrix(xs \o <<l.res, r.res>>)]

-----------------------------------------------------------------------------
(* Resources from attribute lists: NewWithAttributes / NewSchemaless /           *)
(* New(WithAttributes).  Items are [k, v]; k = "" is an invalid key, v = "inv"   *)
(* stands for a value of INVALID type (the other kind of "invalid item").        *)
(* "keep only valid keys, last duplicate wins".  The statement does not say      *)
(* whether an invalid-typed value still shadows an earlier valid duplicate, so   *)
(* both orders of (de-duplicate, filter) are admissible.                         *)
ValidItem(it) == it.k # "" /\ it.v # "inv"
LastIdx(list, k, P(_)) ==
  LET S == {i \in 1..Len(list) : list[i].k = k /\ P(list[i])} IN
  IF S = {} THEN 0 ELSE CHOOSE i \in S : \A j \in S : j <= i
AnyItem(it) == TRUE
ListKeys(list) == {list[i].k : i \in 1..Len(list)}
(* de-duplicate (last wins) over all items, then drop invalid ones *)
FromListDedupFirst(list) ==
  {list[LastIdx(list, k, AnyItem)] : k \in ListKeys(list)} \cap {it \in {list[i] : i \in 1..Len(list)} : ValidItem(it)}
(* drop invalid items, then de-duplicate (last wins) *)
FromListFilterFirst(list) ==
  {list[LastIdx(list, k, ValidItem)] : k \in {kk \in ListKeys(list) : LastIdx(list, kk, ValidItem) # 0}}
FromListAdm(list) == {FromListDedupFirst(list), FromListFilterFirst(list)}
ListLaw(list) ==
  \A as \in FromListAdm(list) :
     /\ Functional(as) /\ "" \notin KeysOf(as)
     /\ \A it \in as : it.v # "inv"
     /\ \A i \in 1..Len(list) : (list[i].k # "" /\ \A j \in 1..Len(list) : list[j].k = list[i].k => list[j].v # "inv")
            => list[i].k \in KeysOf(as)             \* a key that is only ever valid is never lost
     /\ \A a \in as : \E i \in 1..Len(list) : list[i] = a

-----------------------------------------------------------------------------
(* Detect / New with scripted detectors.  A detector is [res, out]:              *)
(*   ok      -> (res, nil)                                                       *)
(*   partial -> (res, error wrapping ErrPartialResource): keeps what was detected*)
(*   fail    -> (res, some other error): its resource is not merged, its error   *)
(*              is wrapped by the returned error                                  *)
(* Detectors run in order, each result merged INTO the previous (later wins).    *)
(* base = schema URL given to New (WithSchemaURL); Detect(...) is base = "".     *)
RECURSIVE DetFold(_, _, _)
DetFold(acc, ds, i) ==
  IF i > Len(ds) THEN acc
  ELSE LET d == ds[i] IN
       IF d.out = "fail"
       THEN DetFold([acc EXCEPT !.fails = @ \cup {i}], ds, i + 1)
       ELSE LET m == Merge(acc.res, d.res)
            IN DetFold([res |-> AsRes(m),
                        conflict |-> acc.conflict \/ m.err,
                        partials |-> IF d.out = "partial" THEN acc.partials \cup {i} ELSE acc.partials,
                        fails |-> acc.fails], ds, i + 1)

DetectOut(base, ds) ==
  LET f == DetFold([res |-> Res({}, base), conflict |-> FALSE, partials |-> {}, fails |-> {}], ds, 1)
  IN [attrs |-> f.res.attrs,
      schema |-> IF f.conflict THEN "" ELSE f.res.schema,   \* "empty together with a conflict error"
      conflict |-> f.conflict, partials |-> f.partials, fails |-> f.fails,
      errNil |-> ~f.conflict /\ f.partials = {} /\ f.fails = {}]

(* order-independent characterisations, checked by TLC on every enumerated sequence *)
Merged(ds) == {i \in 1..Len(ds) : ds[i].out # "fail"}
DetectLaw(base, ds) ==
  LET o == DetectOut(base, ds)
      schemas == ({base} \cup {ds[i].res.schema : i \in Merged(ds)}) \ {""}
  IN /\ o.conflict = (Cardinality(schemas) >= 2)
     /\ (Cardinality(schemas) = 1 => o.schema \in schemas)
     /\ (Cardinality(schemas) = 0 => o.schema = "")
     /\ KeysOf(o.attrs) = UNION {KeysOf(ds[i].res.attrs) : i \in Merged(ds)}   \* nothing detected is lost
     /\ \A k \in KeysOf(o.attrs) :                                               \* later detectors win
          LET last == CHOOSE i \in Merged(ds) : /\ k \in KeysOf(ds[i].res.attrs)
                                                /\ \A j \in Merged(ds) : k \in KeysOf(ds[j].res.attrs) => j <= i
          IN Lookup(o.attrs, k) = Lookup(ds[last].res.attrs, k)
=============================================================================
