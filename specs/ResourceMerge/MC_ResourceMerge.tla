------------------------- MODULE MC_ResourceMerge -------------------------
EXTENDS ResourceMerge
MCKeys == @KEYS@
MCVals == @VALS@
MCSchemas == @SCHEMAS@
MCListKeys == @LISTKEYS@
MCListVals == @LISTVALS@
MCDetRes == @DETRES@
=============================================================================
