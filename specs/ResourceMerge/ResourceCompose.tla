-------------------------- MODULE ResourceCompose --------------------------
(* State machine over the composition part of ResModel for exhaustive          *)
(* enumeration by TLC (C19).                                                    *)
(* Mode "default": every environment setting (OTEL_GO_X_RESOURCE x the set of   *)
(*                 keys OTEL_RESOURCE_ATTRIBUTES provides x OTEL_SERVICE_NAME x  *)
(*                 a malformed member); the successor carries the admissible     *)
(*                 results of resource.Default().  Default() is computed once    *)
(*                 per process: the harness runs every edge in a SUBPROCESS.     *)
(* Mode "new"    : the same settings x every option list of length <= MaxN over  *)
(*                 Options (WithFromEnv, built-ins, WithAttributes and scripted  *)
(*                 detectors providing colliding keys, WithSchemaURL); the       *)
(*                 successor carries the admissible results of resource.New.     *)
(* Every explored edge is printed (EDGE json) and executed on the real package.  *)
EXTENDS ResModel, TLC, Json

CONSTANTS Mode, XChoices, RaChoices, SnChoices, BadChoices, Options, MaxN

VARIABLES phase,  \* "init" before the environment is chosen, then "run"
          env,    \* the environment setting
          opts,   \* the option list pushed so far (mode "new")
          adm,    \* the admissible observations for (env, opts)
          act
vars == <<phase, env, opts, adm, act>>

NoEnv == [x |-> "unset", ra |-> {}, sn |-> FALSE, bad |-> FALSE]
EnvSettings == [x : XChoices, ra : RaChoices, sn : SnChoices, bad : BadChoices]

AdmOf(e, os) == IF Mode = "default" THEN DefaultAdm(e) ELSE NewAdm(e, os)

Init == /\ phase = "init" /\ env = NoEnv /\ opts = <<>> /\ adm = {} /\ act = [op |-> "Init"]
Choose(e) == /\ phase = "init"
             /\ phase' = "run" /\ env' = e
             /\ adm' = AdmOf(e, <<>>)
             /\ act' = [op |-> "Env", e |-> e]
             /\ UNCHANGED opts
Push(o) == /\ phase = "run" /\ Mode = "new" /\ Len(opts) < MaxN
           /\ ~(o.t = "schema" /\ \E i \in 1..Len(opts) : opts[i].t = "schema")   \* at most one WithSchemaURL
           /\ opts' = Append(opts, o)
           /\ adm' = AdmOf(env, opts')
           /\ act' = [op |-> "Push", o |-> o]
           /\ UNCHANGED <<phase, env>>
Next == (\E e \in EnvSettings : Choose(e)) \/ (\E o \in Options : Push(o))
Spec == Init /\ [][Next]_vars

View == <<phase, env, opts>>
EmitEdge == PrintT("EDGE " \o ToJson([from |-> [env |-> env, opts |-> opts], act |-> act',
                                      to |-> [env |-> env', opts |-> opts', adm |-> adm']]))

Inv == phase = "run" =>
         /\ adm # {}
         /\ (Mode = "default" => DefaultLaw(env))
         /\ (Mode = "new" => NewLaw(env, opts))
=============================================================================
