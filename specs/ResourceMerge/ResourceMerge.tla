--------------------------- MODULE ResourceMerge ---------------------------
(* State machines over ResModel for exhaustive enumeration by TLC (C19).        *)
(* Mode "merge" : every tuple of 1..MaxN operands (2 keys x 2 values x 3        *)
(*                schemas, nil, empty); the state carries the operands and the  *)
(*                model's left fold, right fold and Equal matrix; the laws of    *)
(*                the statement are invariants of every tuple.                   *)
(* Mode "list"  : every attribute list (invalid keys, duplicates, invalid-typed  *)
(*                values) of length <= MaxN under every schema.                  *)
(* Mode "detect": every sequence of <= MaxN scripted detectors (resource x       *)
(*                outcome ok/partial/fail) under every base schema.              *)
(* Every explored edge is printed (EDGE json); the harness executes the tuple /  *)
(* list / detector sequence of the successor on the real SDK and compares the    *)
(* projection of what it observes with the successor's `out`.                    *)
EXTENDS ResModel, TLC, Json

CONSTANTS Mode, Keys, Vals, Schemas, MaxN,
          ListKeysC,    \* keys offered in lists ("" = invalid)
          ListValsC,    \* values offered in lists ("inv" = INVALID type)
          DetRes        \* resources scripted detectors may return

VARIABLES xs,    \* the operands / list items / detectors pushed so far
          base,  \* list: schema URL; detect: base schema; merge: ""
          out,   \* what the statement says must be observed for (base, xs)
          act
vars == <<xs, base, out, act>>

AttrSets == {as \in SUBSET [k : Keys, v : Vals] : Functional(as)}
Operands == {NilRes} \cup {Res(as, s) : as \in AttrSets, s \in Schemas}
Items == [k : ListKeysC, v : ListValsC]
Detectors == [res : DetRes, out : {"ok", "partial", "fail"}]

NoOut == [none |-> TRUE]
OutOf(b, s) ==
  IF s = <<>> /\ Mode # "detect" THEN NoOut
  ELSE CASE Mode = "merge"  -> TupleOut(s)
         [] Mode = "list"   -> [adm |-> FromListAdm(s), schema |-> b]
         [] Mode = "detect" -> DetectOut(b, s)

Pushable == CASE Mode = "merge" -> Operands [] Mode = "list" -> Items [] Mode = "detect" -> Detectors

Init == /\ xs = <<>>
        /\ base \in (IF Mode = "merge" THEN {""} ELSE Schemas)
        /\ out = OutOf(base, <<>>)
        /\ act = [op |-> "Init"]
Push(x) == /\ Len(xs) < MaxN
           /\ xs' = Append(xs, x)
           /\ out' = OutOf(base, xs')
           /\ act' = [op |-> "Push", x |-> x]
           /\ UNCHANGED base
Next == \E x \in Pushable : Push(x)
Spec == Init /\ [][Next]_vars

View == <<xs, base, out>>
EmitEdge == PrintT("EDGE " \o ToJson([from |-> [xs |-> xs, base |-> base], act |-> act',
                                      to |-> [xs |-> xs', base |-> base', out |-> out']]))

-----------------------------------------------------------------------------
(* The statement on the model: every law holds for every enumerated tuple.      *)
MergeInv ==
  Mode = "merge" =>
    /\ \A i \in 1..Len(xs) : IdempotentLaw(xs[i])
    /\ (Len(xs) >= 2 => LET a == xs[Len(xs) - 1]  b == xs[Len(xs)] IN
                          UnionLaw(a, b) /\ IdentityLaw(a, b) /\ SchemaLaw(a, b))
    /\ (Len(xs) = 3 => /\ AssocLaw(xs[1], xs[2], xs[3])
                       /\ out.l.attrs = out.r.attrs
                       /\ out.eq[Len(out.eq)])                 \* Equal(left fold, right fold)
    /\ (Len(xs) >= 1 => \A i \in 1..Len(out.eq) : out.eq[i] \in BOOLEAN)
ListInv == Mode = "list" => ListLaw(xs)
DetectInv == Mode = "detect" => DetectLaw(base, xs)
Inv == MergeInv /\ ListInv /\ DetectInv
=============================================================================
