SPECIFICATION Spec
CONSTANTS
  Mode = "@MODE@"
  MaxN = @MAXN@
  XChoices <- MCXChoices
  RaChoices <- MCRaChoices
  SnChoices <- MCSnChoices
  BadChoices <- MCBadChoices
  Options <- MCOptions
VIEW View
ACTION_CONSTRAINT EmitEdge
INVARIANT Inv
CHECK_DEADLOCK FALSE
