------------------------- MODULE MC_ResourceCompose -------------------------
EXTENDS ResourceCompose
Opt(t, b, keys, schema, out, nil) == [t |-> t, b |-> b, keys |-> keys, schema |-> schema, out |-> out, nil |-> nil]
EnvO == Opt("env", "", {}, "", "ok", FALSE)
Bi(b) == Opt("bi", b, {}, "", "ok", FALSE)
At(keys) == Opt("attrs", "", keys, "", "ok", FALSE)
Dt(keys, schema, out) == Opt("det", "", keys, schema, out, FALSE)
DtNil(out) == Opt("det", "", {}, "", out, TRUE)
Sch(u) == Opt("schema", "", {}, u, "ok", FALSE)
MCXChoices == @XCHOICES@
MCRaChoices == @RACHOICES@
MCSnChoices == @SNCHOICES@
MCBadChoices == @BADCHOICES@
MCOptions == @OPTIONS@
=============================================================================
