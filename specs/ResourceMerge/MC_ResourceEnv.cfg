SPECIFICATION Spec
CONSTANTS
  MaxLen = @MAXLEN@
  RoundTripLen = @RTLEN@
  Alphabet <- MCAlphabet
  SvcChoices <- MCSvcChoices
  RoundTripChars <- MCRoundTripChars
VIEW View
ACTION_CONSTRAINT EmitEdge
INVARIANT Inv
CHECK_DEADLOCK FALSE
