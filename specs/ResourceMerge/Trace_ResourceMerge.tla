------------------------- MODULE Trace_ResourceMerge -------------------------
(* code -> spec (C19): validates observations recorded from the real            *)
(* sdk/resource package against ResModel / EnvModel.  One line per step:        *)
(*   List   {schema, list, got}       resource built from an attribute list     *)
(*   Tuple  {xs, got}                 left fold, right fold, Equal matrix        *)
(*   Eq     {a, b, got}               Equal / Equivalent / map key               *)
(*   Detect {base, ds, got}           New / Detect with scripted detectors       *)
(*   Env    {s, svc, got}             OTEL_RESOURCE_ATTRIBUTES / OTEL_SERVICE_NAME*)
(*   New    {base, ds, scr, got}      New(ctx, opts...) over the built-in options; *)
(*                                    ds = every detector-contributing option as   *)
(*                                    observed STANDALONE (New(ctx, thatOption)),  *)
(*                                    scr = the scripted ones (error identity)     *)
(*   Default {xon, svcK, sidK, envobs, sdkobs, got}   resource.Default() in a fresh *)
(*                                    process; envobs / sdkobs = the environment   *)
(*                                    and telemetry-SDK layers observed standalone *)
(*                                    in the same process; generated defaults are  *)
(*                                    projected onto the tag "gen"                 *)
(* Keys and values are opaque ASCII tokens of the concrete keys / typed values. *)
EXTENDS ResModel, EnvModel, TraceKit

VARIABLES l, nbad
vars == <<l, nbad>>

Range(f) == {f[i] : i \in DOMAIN f}
ToRes(j) == [nil |-> j.nil, attrs |-> Range(j.attrs), schema |-> j.schema]
(* observed attribute list = the model's map, with no repeated entry *)
SameMap(seq, as) == Range(seq) = as /\ Len(seq) = Cardinality(as)

(* ---- Tuple *)
TupleXs(e) == [i \in 1..Len(e.xs) |-> ToRes(e.xs[i])]
TupleWhy(e) ==
  LET m == TupleOut(TupleXs(e))  g == e.got IN
  IF g.otherErr THEN "err-other"
  ELSE IF ~SameMap(g.l.attrs, m.l.attrs) THEN "l.attrs"
  ELSE IF g.l.schema # m.l.schema THEN "l.schema"
  ELSE IF g.l.errs # m.l.errs THEN "l.errs"
  ELSE IF ~SameMap(g.r.attrs, m.r.attrs) THEN "r.attrs"
  ELSE IF g.r.schema # m.r.schema THEN "r.schema"
  ELSE IF g.r.errs # m.r.errs THEN "r.errs"
  ELSE IF g.eq # m.eq THEN "equal"
  ELSE IF g.equiv # m.eq THEN "equivalent"
  ELSE IF g.mapkey # m.eq THEN "mapkey"
  ELSE IF g.incons # "" THEN "accessors"
  ELSE ""
(* the statement's laws, evaluated on the REAL operands (any size) *)
TupleLaws(e) ==
  LET xs == TupleXs(e) IN
  /\ \A i \in 1..Len(xs) : IdempotentLaw(xs[i]) /\ IdentityLaw(xs[i], NilRes) /\ IdentityLaw(EmptyRes, xs[i])
  /\ (Len(xs) >= 2 => UnionLaw(xs[1], xs[2]) /\ IdentityLaw(xs[1], xs[2]) /\ SchemaLaw(xs[1], xs[2]))
  /\ (Len(xs) = 3 => AssocLaw(xs[1], xs[2], xs[3]))

(* ---- List *)
ListWhy(e) ==
  IF ~\E as \in FromListAdm(e.list) : SameMap(e.got.attrs, as) THEN "attrs"
  ELSE IF e.got.schema # e.schema THEN "schema"
  ELSE IF e.got.incons # "" THEN "accessors"
  ELSE ""

(* ---- Eq *)
EqWhy(e) ==
  LET same == SameAttrs(ToRes(e.a), ToRes(e.b))  g == e.got IN
  IF ~g.self THEN "equal-self"
  ELSE IF g.equal # same THEN "equal"
  ELSE IF g.equal_rev # same THEN "equal-symmetry"
  ELSE IF g.equiv # same THEN "equivalent"
  ELSE IF g.mapkey # same THEN "mapkey"
  ELSE ""

(* ---- Detect *)
DetDs(e) == [i \in 1..Len(e.ds) |-> [res |-> ToRes(e.ds[i].res), out |-> e.ds[i].out]]
DetectWhy(e) ==
  LET m == DetectOut(e.base, DetDs(e))  g == e.got IN
  IF ~SameMap(g.attrs, m.attrs) THEN "attrs"
  ELSE IF g.schema # m.schema THEN "schema"
  ELSE IF g.conflict # m.conflict THEN "conflict-error"
  ELSE IF g.partial # (m.partials # {}) THEN "partial-error"
  ELSE IF Range(g.fails) # m.fails THEN "fail-error-wrapping"
  ELSE IF g.errNil # m.errNil THEN "err-nil"
  ELSE ""

(* ---- New: the composite equals the model's fold of the standalone observations *)
NewWhy(e) ==
  LET m == DetectOut(e.base, DetDs(e))  g == e.got IN
  IF ~SameMap(g.attrs, m.attrs) THEN "attrs"
  ELSE IF g.schema # m.schema THEN "schema"
  ELSE IF g.conflict # m.conflict THEN "conflict-error"
  ELSE IF g.partial # (m.partials # {}) THEN "partial-error"
  ELSE IF Range(g.fails) # (m.fails \cap Range(e.scr)) THEN "fail-error-wrapping"
  ELSE IF g.errNil # m.errNil THEN "err-nil"
  ELSE ""

(* ---- Default: defaults < observed environment layer < observed telemetry-SDK layer *)
DetOf(j) == [res |-> ToRes(j.res), out |-> j.out]
DefaultWant(e) == DefaultOut(e.xon, e.svcK, e.sidK, e.sdkobs.res.schema, DetOf(e.envobs), DetOf(e.sdkobs))
DefaultWhy(e) ==
  LET m == DefaultWant(e)  g == e.got IN
  IF ~SameMap(g.attrs, m.attrs) THEN "attrs"
  ELSE IF g.schema # m.schema THEN "schema"
  ELSE ""

(* ---- Env *)
EnvGot(e) == [attrs |-> Range(e.got.attrs), err |-> e.got.err]
EnvWhy(e) ==
  IF Len(e.got.attrs) # Cardinality(Range(e.got.attrs)) THEN "duplicate"
  ELSE IF ~EnvOK(e.s, e.svc, EnvGot(e)) THEN (IF e.got.err = "other" THEN "error-not-partial" ELSE "not-admissible")
  ELSE IF e.incons # "" THEN "accessors"
  ELSE ""

Why(e) == CASE e.ev = "Tuple"  -> TupleWhy(e)
            [] e.ev = "List"   -> ListWhy(e)
            [] e.ev = "Eq"     -> EqWhy(e)
            [] e.ev = "Detect" -> DetectWhy(e)
            [] e.ev = "Env"    -> EnvWhy(e)
            [] e.ev = "New"    -> NewWhy(e)
            [] e.ev = "Default" -> DefaultWhy(e)

Want(e) == CASE e.ev = "Tuple"  -> TupleOut(TupleXs(e))
             [] e.ev = "List"   -> [adm |-> FromListAdm(e.list)]
             [] e.ev = "Eq"     -> [same |-> SameAttrs(ToRes(e.a), ToRes(e.b))]
             [] e.ev = "Detect" -> DetectOut(e.base, DetDs(e))
             [] e.ev = "Env"    -> [adm |-> Adm(e.s, e.svc)]
             [] e.ev = "New"    -> DetectOut(e.base, DetDs(e))
             [] e.ev = "Default" -> DefaultWant(e)

Init == l = 1 /\ nbad = 0
Step == /\ l <= Len(Trace)
        /\ LET e == Trace[l]  why == Why(e) IN
             /\ (why # "" => Viol([line |-> l, ev |-> e.ev, why |-> why, want |-> Want(e)]))
             /\ nbad' = nbad + (IF why = "" THEN 0 ELSE 1)
        /\ l' = l + 1
Done == l = Len(Trace) + 1 /\ Accepted(l) /\ UNCHANGED vars
Next == Step \/ Done
Spec == Init /\ [][Next]_vars

(* model-side laws at every step of every real trace (on the line just consumed) *)
Inv == l > 1 =>
         LET e == Trace[l - 1] IN
         CASE e.ev = "Tuple"  -> TupleLaws(e)
           [] e.ev = "List"   -> ListLaw(e.list)
           [] e.ev = "Detect" -> DetectLaw(e.base, DetDs(e))
           [] e.ev = "Env"    -> EnvLaw(e.s, e.svc)
           [] e.ev = "New"    -> DetectLaw(e.base, DetDs(e))
           [] OTHER           -> TRUE
=============================================================================
