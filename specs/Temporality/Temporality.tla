---------------------------- MODULE Temporality ----------------------------
(* C08 -- state machine over TemporalityModel for exhaustive exploration by TLC. *)
(* One stream of constant kind / aggregation, a delta and a cumulative reader     *)
(* collecting at the same points.  Every explored edge is printed (EDGE json);    *)
(* harness/c08 replays each Collect edge on a real MeterProvider.                 *)
EXTENDS TemporalityModel, TLC, Json

CONSTANTS Cfg0,       \* configuration record (see TemporalityModel)
          MaxCycles,  \* bound on collection points
          MaxOps      \* bound on measurements / registration changes per cycle

Cfg == WithTables(Cfg0)

VARIABLES st, nops, act, hist
vars == <<st, nops, act, hist>>

NoObs == [a \in Attrs(Cfg) |-> 0]
Tables == IF Async(Cfg) THEN [Attrs(Cfg) -> 0..NV(Cfg)] ELSE {NoObs}

Init == st = InitState(Cfg) /\ nops = 0 /\ act = [op |-> "Init"] /\ hist = <<>>

Rec(a, j) == /\ ~Async(Cfg) /\ st.k < MaxCycles /\ nops < MaxOps
             /\ st' = DoRec(Cfg, st, a, j) /\ nops' = nops + 1
             /\ act' = [op |-> "Rec", a |-> a, j |-> j]
Reg(c) == /\ Async(Cfg) /\ st.k < MaxCycles /\ nops < MaxOps /\ c \notin st.reg
          /\ st' = DoReg(Cfg, st, c) /\ nops' = nops + 1
          /\ act' = [op |-> "Reg", c |-> c]
Unreg(c) == /\ Async(Cfg) /\ st.k < MaxCycles /\ nops < MaxOps /\ c \in st.reg /\ c # 0
            /\ st' = DoUnreg(Cfg, st, c) /\ nops' = nops + 1
            /\ act' = [op |-> "Unreg", c |-> c]
Collect(obs) == /\ st.k < MaxCycles
                /\ st' = DoCollect(Cfg, st, obs) /\ nops' = 0
                /\ act' = [op |-> "Collect", obs |-> obs]

(* one named disjunct per operation of the history (TLC reports coverage per disjunct) *)
DoRecord == \E a \in Attrs(Cfg), j \in 1..NV(Cfg) : Rec(a, j) /\ hist' = Append(hist, act')
DoRegister == \E c \in 1..(Cfg.ncb - 1) : Reg(c) /\ hist' = Append(hist, act')
DoUnregister == \E c \in 1..(Cfg.ncb - 1) : Unreg(c) /\ hist' = Append(hist, act')
(* A collection point is atomic: the SDK serialises the collections of one reader     *)
(* (pipeline lock), so two overlapping Collect calls are two consecutive DoCollectPoint *)
(* steps with no operation in between, in one of the two orders (see TOver in         *)
(* Trace_Temporality).                                                                *)
DoCollectPoint == \E obs \in Tables : Collect(obs) /\ hist' = Append(hist, act')
Next == DoRecord \/ DoRegister \/ DoUnregister \/ DoCollectPoint
Spec == Init /\ [][Next]_vars

(* act and hist are history variables, hidden from the fingerprint.  TLC expands     *)
(* every distinct state (modulo the view) once, so hist is the path by which that    *)
(* state was first reached: one EDGE line per Collect transition of the state graph   *)
(* = (a path to the source state, table the callbacks see at this point).  The check  *)
(* runs TLC with the in-memory state queue (StateDeque): the order of exploration is  *)
(* irrelevant, any path is a valid history.                                           *)
(* The view also drops what cannot influence any later report of this aggregation    *)
(* (the last report itself; the order inside a bag unless a gauge; the multiset       *)
(* unless a histogram), so that the replayed histories are the observationally        *)
(* distinct ones.                                                                     *)
VBag(b) == CASE Cfg.agg = "sum" -> <<BagS(Cfg, b), b.last # 0>>
             [] Cfg.agg = "last" -> <<b.last>>
             [] OTHER -> <<b.cnt>>
VBags(f) == [a \in Attrs(Cfg) |-> VBag(f[a])]
(* For the wide exponential configurations the ORDER of the measurements matters to  *)
(* an implementation (when it re-scales, what its bucket memory held before): there  *)
(* every operation sequence is a state of its own.                                   *)
View == <<st.k, st.reg, VBags(st.cur), st.prev, VBags(st.tot), VBags(st.totS), st.runV, VBags(st.runB),
          st.dstart, nops, IF Cfg.wide THEN hist ELSE <<>>>>
EmitEdge == act'.op = "Collect" => PrintT("EDGE " \o ToJson([path |-> hist, act |-> act', k |-> st'.k]))

(* the statement on the model, as an action property: evaluated on every explored   *)
(* edge, also those leading to a state whose view is already known                   *)
StepOK == [][st'.k > st.k => /\ CumEqualsRunningDelta(Cfg, st')
                             /\ Intervals(st, st')
                             /\ AsyncExact(Cfg, st, act'.obs, st')
                             /\ SyncCycle(Cfg, st, st')]_vars
=============================================================================
