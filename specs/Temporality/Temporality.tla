---------------------------- MODULE Temporality ----------------------------
(* C08 -- state machine over TemporalityModel for exhaustive exploration by TLC. *)
(* One stream of constant kind / aggregation, a delta and a cumulative reader     *)
(* collecting at the same points.  Every explored edge is printed (EDGE json);    *)
(* harness/c08 replays each Collect edge on a real MeterProvider.                 *)
EXTENDS TemporalityModel, TLC, Json

CONSTANTS Cfg0,       \* configuration record (see TemporalityModel)
          MaxCycles,  \* bound on collection points
          MaxOps,     \* bound on measurements / registration changes per cycle
          MaxFault    \* bound on faulty collection points per history (callback errors, aborted collections)

Cfg == WithTables(Cfg0)

VARIABLES st, nops, nfault, act, hist
vars == <<st, nops, nfault, act, hist>>

NoObs == [a \in Attrs(Cfg) |-> 0]
Tables == IF Async(Cfg) THEN [Attrs(Cfg) -> 0..NV(Cfg)] ELSE {NoObs}

Init == st = InitState(Cfg) /\ nops = 0 /\ nfault = 0 /\ act = [op |-> "Init"] /\ hist = <<>>

(* FAULTS of the asynchronous part (at most MaxFault per history).  fail = callbacks    *)
(* that return an error after making their observations (obs = what was observed; a     *)
(* callback failing WITHOUT observing is a table without its sets).  Abort = a           *)
(* collection point whose Collect context is cancelled / expires: it reports nothing,    *)
(* the statement does not speak about it, the model state does not change -- and the     *)
(* next, healthy cycle is exact as always.                                               *)
FailSets == IF Async(Cfg) /\ nfault < MaxFault THEN {{}} \cup {{c} : c \in 0..(Cfg.ncb - 1)} ELSE {{}}
OfOf(obs, fail) == [a \in Attrs(Cfg) |-> obs[a] # 0 /\ CbOf(Cfg, a) \in fail /\ CbOf(Cfg, a) \in st.reg]

Rec(a, j) == /\ ~Async(Cfg) /\ st.k < MaxCycles /\ nops < MaxOps
             /\ st' = DoRec(Cfg, st, a, j) /\ nops' = nops + 1 /\ UNCHANGED nfault
             /\ act' = [op |-> "Rec", a |-> a, j |-> j]
Reg(c) == /\ Async(Cfg) /\ st.k < MaxCycles /\ nops < MaxOps /\ c \notin st.reg
          /\ st' = DoReg(Cfg, st, c) /\ nops' = nops + 1 /\ UNCHANGED nfault
          /\ act' = [op |-> "Reg", c |-> c]
Unreg(c) == /\ Async(Cfg) /\ st.k < MaxCycles /\ nops < MaxOps /\ c \in st.reg /\ c # 0
            /\ st' = DoUnreg(Cfg, st, c) /\ nops' = nops + 1 /\ UNCHANGED nfault
            /\ act' = [op |-> "Unreg", c |-> c]
Collect(obs, fail) == /\ st.k < MaxCycles
                      /\ st' = DoCollectF(Cfg, st, obs, OfOf(obs, fail)) /\ nops' = 0
                      /\ nfault' = IF fail = {} THEN nfault ELSE nfault + 1
                      /\ act' = [op |-> "Collect", obs |-> obs, fail |-> fail]
Abort(obs) == /\ Async(Cfg) /\ st.k < MaxCycles /\ nfault < MaxFault
              /\ st' = st /\ nops' = nops /\ nfault' = nfault + 1
              /\ act' = [op |-> "Abort", obs |-> obs, fail |-> {}]

(* one named disjunct per operation of the history (TLC reports coverage per disjunct) *)
DoRecord == \E a \in Attrs(Cfg), j \in 1..NV(Cfg) : Rec(a, j) /\ hist' = Append(hist, act')
DoRegister == \E c \in 1..(Cfg.ncb - 1) : Reg(c) /\ hist' = Append(hist, act')
DoUnregister == \E c \in 1..(Cfg.ncb - 1) : Unreg(c) /\ hist' = Append(hist, act')
(* A collection point is atomic: the SDK serialises the collections of one reader     *)
(* (pipeline lock), so two overlapping Collect calls are two consecutive DoCollectPoint *)
(* steps with no operation in between, in one of the two orders (see TOver in         *)
(* Trace_Temporality).                                                                *)
DoCollectPoint == \E obs \in Tables, fail \in FailSets : Collect(obs, fail) /\ hist' = Append(hist, act')
(* (what an aborted collection leaves behind must not matter: one table, every set with the first value) *)
DoAbortedPoint == Abort([a \in Attrs(Cfg) |-> 1]) /\ hist' = Append(hist, act')
Next == DoRecord \/ DoRegister \/ DoUnregister \/ DoCollectPoint \/ DoAbortedPoint
Spec == Init /\ [][Next]_vars

(* act and hist are history variables, hidden from the fingerprint.  TLC expands     *)
(* every distinct state (modulo the view) once, so hist is the path by which that    *)
(* state was first reached: one EDGE line per Collect transition of the state graph   *)
(* = (a path to the source state, table the callbacks see at this point).  The check  *)
(* runs TLC with the in-memory state queue (StateDeque): the order of exploration is  *)
(* irrelevant, any path is a valid history.                                           *)
(* The view also drops what cannot influence any later report of this aggregation    *)
(* (the last report itself; the order inside a bag unless a gauge; the multiset       *)
(* unless a histogram), so that the replayed histories are the observationally        *)
(* distinct ones.                                                                     *)
VBag(b) == CASE Cfg.agg = "sum" -> <<BagS(Cfg, b), b.last # 0>>
             [] Cfg.agg = "last" -> <<b.last>>
             [] OTHER -> <<b.cnt>>
VBags(f) == [a \in Attrs(Cfg) |-> VBag(f[a])]
(* For the wide exponential configurations the ORDER of the measurements matters to  *)
(* an implementation (when it re-scales, what its bucket memory held before): there  *)
(* every operation sequence is a state of its own.                                   *)
View == <<st.k, st.reg, VBags(st.cur), st.prev, VBags(st.tot), VBags(st.totS), st.runV, VBags(st.runB),
          st.dstart, nops, nfault, st.prevF, IF Cfg.wide THEN hist ELSE <<>>>>
EmitEdge == act'.op = "Collect" => PrintT("EDGE " \o ToJson([path |-> hist, act |-> act', k |-> st'.k]))

(* the statement on the model, as an action property: evaluated on every explored   *)
(* edge, also those leading to a state whose view is already known                   *)
StepOK == [][st'.k > st.k => /\ CumEqualsRunningDelta(Cfg, st')
                             /\ Intervals(st, st')
                             /\ AsyncExact(Cfg, st, act'.obs, st')
                             /\ SyncCycle(Cfg, st, st')]_vars
=============================================================================
