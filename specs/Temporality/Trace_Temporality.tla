------------------------- MODULE Trace_Temporality -------------------------
(* C08, code -> spec: validates what a real MeterProvider with a delta and a      *)
(* cumulative ManualReader reported, cycle by cycle, against TemporalityModel.    *)
(* The same module validates the replay of the TLC edges (spec -> code): the       *)
(* harness only executes and projects, every expectation lives here.               *)
(*                                                                                 *)
(* Lines:  New{sc, C}                      fresh stream with configuration C       *)
(*         Cycle{sc, ops, obs, d, c}       ops applied since the last collection   *)
(*             point, obs = the table the callbacks read, d / c = projection of    *)
(*             what the delta / cumulative reader reported for this stream         *)
(*         Over{sc, ops, obs, x, p1, p2, q1, q2}   TWO collection points with       *)
(*             nothing in between at which reader x was collected by two           *)
(*             OVERLAPPING Collect calls (the other reader twice in a row).  The   *)
(*             SDK serialises the collections of one reader, so one of the two     *)
(*             serial orders must explain what the two calls returned: p1, p2 =    *)
(*             [d, c] projections of the two points in the order of the SDK's own  *)
(*             timestamps, q1, q2 = the same with x's two results swapped (the     *)
(*             structural time relations re-projected for that order)              *)
(*         Mid{sc, ops, obs, x, m, p1, p2}   see TMid                               *)
(*         Abort{sc}                         see TAbort                             *)
(*         Cycle lines carry of[a]: the set was observed by a callback that then   *)
(*             returned an error (obs = what was actually observed)                *)
(*         every line carries conc: the operations since the last collection point *)
(*             were issued by several goroutines at once (their order is unknown)  *)
(* Reader data: [has, temp, dt, junk, pts[a]];  point: [p, x, v, n, s, b, z, sc,   *)
(*   pos, neg, sle, sprev, sgap, scont, sfirst]  (see docs/notes/C08.md).  The      *)
(*   timestamps of the real points are projected by the harness onto STRUCTURAL    *)
(*   relations between timestamps the SDK itself reported (never the wall clock):  *)
(*   sle    StartTime <= Time of the same point                                     *)
(*   sprev  StartTime = the Time this reader reported for this stream in its         *)
(*          immediately preceding collection ("eq"/"ne"; "na" = nothing reported)   *)
(*   sgap   StartTime is not before any Time this reader reported (any stream) two   *)
(*          or more collections ago                                                  *)
(*   scont  StartTime = StartTime of the same attribute set in the preceding         *)
(*          collection of this reader ("na" = it was not reported then)              *)
(*   sfirst StartTime = the first StartTime this reader ever reported for the set    *)
(*                                                                                 *)
(* Two kinds of clauses are evaluated on the REAL data:                            *)
(*   absolute   the real point equals the model's point (sets, values, intervals)  *)
(*   relational the statement itself on real data only: real cumulative value =    *)
(*              running total of the real delta values (monitor variable mon)      *)
EXTENDS TemporalityModel, TraceKit

VARIABLES l, C, st, mon
vars == <<l, C, st, mon>>

C0 == WithTables([kind |-> "Counter", agg |-> "sum", na |-> 1, vals |-> <<1>>, unit |-> 1, bounds |-> <<>>, ncb |-> 1,
                  wide |-> FALSE, exps |-> <<>>])

(* sum not collected for the kind, or not exactly comparable (wide value range) *)
NoSum(cf) == cf.kind \in {"UpDownCounter", "ObsUpDownCounter", "Gauge", "ObsGauge"} \/ cf.wide

-----------------------------------------------------------------------------
(* exponential buckets as functions index -> count *)
BFun(seq) == [t \in {seq[q][1] : q \in DOMAIN seq} |->
                SumSet({q \in DOMAIN seq : seq[q][1] = t}, [q \in DOMAIN seq |-> seq[q][2]])]
Down(f, d) == [t \in {Shift(i, d) : i \in DOMAIN f} |-> SumSet({i \in DOMAIN f : Shift(i, d) = t}, f)]
Norm(f) == [t \in {i \in DOMAIN f : f[i] # 0} |-> f[t]]
Plus(f, g) == [t \in DOMAIN f \cup DOMAIN g |->
                 (IF t \in DOMAIN f THEN f[t] ELSE 0) + (IF t \in DOMAIN g THEN g[t] ELSE 0)]
SameAt(f, sf, g, sg) == LET m == Min(sf, sg) IN Norm(Down(f, sf - m)) = Norm(Down(g, sg - m))

ExpFun(cf, b, sg, m) == [t \in ExpoIdx(cf, b, sg, m) |-> ExpoCount(cf, b, sg, m, t)]

(* real exponential point R against the bag b: compared at scale min(R.sc, 0) *)
ExpoMatches(cf, R, b) ==
  LET m == Min(R.sc, 0) IN
  /\ Norm(Down(BFun(R.pos), R.sc - m)) = Norm(ExpFun(cf, b, 1, m))
  /\ Norm(Down(BFun(R.neg), R.sc - m)) = Norm(ExpFun(cf, b, -1, m))

-----------------------------------------------------------------------------
(* absolute clauses: real point R against the model's point E *)
BagClauses(cf, R, b) ==
  (IF R.n # BagN(cf, b) THEN {"count"} ELSE {})
  \cup (IF ~NoSum(cf) /\ R.s # BagS(cf, b) THEN {"sum"} ELSE {})
  \cup (IF cf.agg = "hist" /\ R.b # ExplicitCounts(cf, b) THEN {"buckets"} ELSE {})
  \cup (IF cf.agg = "expo" /\ R.z # ExpoZero(cf, b) THEN {"zero-count"} ELSE {})
  \cup (IF cf.agg = "expo" /\ ~ExpoMatches(cf, R, b) THEN {"buckets"} ELSE {})

(* adm: the admissible gauge values when the measurements of the cycle were made by   *)
(* several goroutines at once ({} = sequential cycle: exactly the model's last value)  *)
ValueClauses(cf, E, R, adm) ==
  IF cf.agg = "last" /\ adm # {} THEN (IF R.v \notin adm THEN {"value"} ELSE {})
  ELSE IF cf.agg \in {"sum", "last"} THEN (IF R.v # E.v /\ R.v # E.v2 THEN {"value"} ELSE {})
  ELSE LET c1 == BagClauses(cf, R, E.bag) IN
       IF c1 = {} THEN {} ELSE IF E.bag2 # E.bag /\ BagClauses(cf, R, E.bag2) = {} THEN {} ELSE c1

(* interval clauses.  Delta: adjacent (start = the reader's previous Time for the   *)
(* stream, when there is one) and non-overlapping (never before anything reported   *)
(* two or more collections ago); cumulative: one fixed start per attribute set      *)
(* (asynchronous sets that reappear after a gap may restart).  Gauges carry no       *)
(* temporality in the data model: only start <= time is required of them.            *)
TimeClauses(cf, rd, R) ==
  (IF ~R.sle THEN {"start-after-time"} ELSE {})
  \cup (IF cf.agg # "last" /\ rd = "d" /\ R.sprev = "ne" THEN {"delta-start-not-previous-time"} ELSE {})
  \cup (IF cf.agg # "last" /\ rd = "d" /\ ~R.sgap THEN {"delta-start-overlaps-earlier-collection"} ELSE {})
  \cup (IF cf.agg # "last" /\ rd = "c" /\ (R.scont = "ne" \/ (~Async(cf) /\ R.sfirst = "ne"))
        THEN {"cumulative-start-moved"} ELSE {})

(* a point that contributes nothing: the statement does not forbid a delta reader   *)
(* to report one for a set of a synchronous sum / histogram without measurement in  *)
(* the cycle (the running total is unchanged)                                        *)
ZeroPoint(cf, R) ==
  CASE cf.agg = "sum" -> R.v = 0
    [] cf.agg = "hist" -> R.n = 0 /\ (NoSum(cf) \/ R.s = 0) /\ \A i \in DOMAIN R.b : R.b[i] = 0
    [] cf.agg = "expo" -> R.n = 0 /\ (NoSum(cf) \/ R.s = 0) /\ R.z = 0 /\ R.pos = <<>> /\ R.neg = <<>>
    [] OTHER -> FALSE

(* a synchronous gauge a cumulative reader still reports in a cycle without a        *)
(* recording (E.o): the statement fixes no value for it                              *)
PtClauses(cf, rd, E, R, adm) ==
  IF ~R.p THEN (IF E.p /\ ~E.o THEN {"set-missing"} ELSE {})
  ELSE IF ~E.p THEN (IF rd = "d" /\ ~Async(cf) /\ ZeroPoint(cf, R) THEN TimeClauses(cf, rd, R) ELSE {"set-extra"})
  ELSE (IF ~R.x THEN {"inexact"} ELSE {})
       \cup (IF cf.agg = "last" /\ E.o THEN {} ELSE ValueClauses(cf, E, R, adm))
       \cup TimeClauses(cf, rd, R)

WantTemp(cf, rd) == IF cf.agg = "last" THEN "none" ELSE IF rd = "d" THEN "delta" ELSE "cumulative"
MetaClauses(cf, rd, D) ==
  IF ~D.has THEN {}
  ELSE (IF D.temp # WantTemp(cf, rd) THEN {"temporality"} ELSE {})
       \cup (IF D.dt # cf.agg THEN {"data-type"} ELSE {})
       \cup (IF D.junk # 0 THEN {"unknown-or-duplicate-points"} ELSE {})

ShapeOK(cf, D) == /\ Len(D.pts) = cf.na
                  /\ \A a \in 1..cf.na : D.pts[a].p /\ cf.agg = "hist" => Len(D.pts[a].b) = Len(cf.bounds) + 1

(* With concurrent recorders the content of a cycle is a MULTISET of measurements: sums, *)
(* counts and buckets do not depend on an order; of a gauge the statement's "last value  *)
(* recorded in the cycle" is only decidable as "one of the values recorded in the cycle". *)
GaugeAdm(cf, s1, conc) ==
  [a \in 1..cf.na |-> IF conc THEN {Val(cf, j) : j \in {q \in 1..NV(cf) : s1.cur[a].cnt[q] > 0}} ELSE {}]

AbsViols(cf, rd, O, D, G) ==
  {[rd |-> rd, a |-> 0, clause |-> c] : c \in MetaClauses(cf, rd, D)}
  \cup UNION {{[rd |-> rd, a |-> a, clause |-> c] : c \in PtClauses(cf, rd, O.pts[a], D.pts[a], G[a])} : a \in 1..cf.na}

-----------------------------------------------------------------------------
(* relational monitor: running totals of the REAL delta values per attribute set. *)
(* run never forgets; runS forgets a set in a cycle whose delta does not report it *)
(* (the statement's reading for asynchronous instruments).                          *)
ZeroRun(cf) == [v |-> 0, n |-> 0, s |-> 0, z |-> 0, b |-> [i \in 1..(Len(cf.bounds) + 1) |-> 0],
                sc |-> 99, pos |-> <<>>, neg |-> <<>>]
InitMon(cf) == [run |-> [a \in 1..cf.na |-> ZeroRun(cf)], runS |-> [a \in 1..cf.na |-> ZeroRun(cf)]]

AddRun(cf, r, R) ==
  LET m == Min(r.sc, R.sc) IN
  [v |-> r.v + R.v, n |-> r.n + R.n, s |-> r.s + R.s, z |-> r.z + R.z,
   b |-> IF cf.agg = "hist" /\ Len(R.b) = Len(r.b) THEN [i \in DOMAIN r.b |-> r.b[i] + R.b[i]] ELSE r.b,
   sc |-> IF cf.agg = "expo" THEN m ELSE r.sc,
   pos |-> IF cf.agg = "expo" THEN Plus(Down(r.pos, r.sc - m), Down(BFun(R.pos), R.sc - m)) ELSE r.pos,
   neg |-> IF cf.agg = "expo" THEN Plus(Down(r.neg, r.sc - m), Down(BFun(R.neg), R.sc - m)) ELSE r.neg]

NextMon(cf, m, D) ==
  [run |-> [a \in 1..cf.na |-> IF D.pts[a].p THEN AddRun(cf, m.run[a], D.pts[a]) ELSE m.run[a]],
   runS |-> [a \in 1..cf.na |-> IF D.pts[a].p THEN AddRun(cf, m.runS[a], D.pts[a]) ELSE ZeroRun(cf)]]

(* components of the real cumulative point R that differ from the running total r *)
RunDiff(cf, r, R) ==
  CASE cf.agg = "sum" -> (IF R.v # r.v THEN {"value"} ELSE {})
    [] cf.agg = "hist" -> (IF R.n # r.n THEN {"count"} ELSE {}) \cup (IF R.s # r.s THEN {"sum"} ELSE {})
                          \cup (IF R.b # r.b THEN {"buckets"} ELSE {})
    [] cf.agg = "expo" -> (IF R.n # r.n THEN {"count"} ELSE {}) \cup (IF R.s # r.s THEN {"sum"} ELSE {})
                          \cup (IF R.z # r.z THEN {"zero-count"} ELSE {})
                          \cup (IF SameAt(BFun(R.pos), R.sc, r.pos, r.sc) /\ SameAt(BFun(R.neg), R.sc, r.neg, r.sc)
                                THEN {} ELSE {"buckets"})
    [] OTHER -> {}

RelDiff(cf, m1, Dc, a) ==
  IF ~Dc.pts[a].p THEN {}
  ELSE IF ~Async(cf) THEN RunDiff(cf, m1.run[a], Dc.pts[a])
  ELSE IF cf.agg = "sum" THEN RunDiff(cf, m1.runS[a], Dc.pts[a])
  ELSE IF RunDiff(cf, m1.runS[a], Dc.pts[a]) = {} THEN {} ELSE RunDiff(cf, m1.run[a], Dc.pts[a])

RelViols(cf, m1, Dc) ==
  UNION {{[rd |-> "c", a |-> a, clause |-> "cumulative-ne-running-delta:" \o c] : c \in RelDiff(cf, m1, Dc, a)} :
           a \in 1..cf.na}

-----------------------------------------------------------------------------
Init == l = 1 /\ C = C0 /\ st = InitState(C0) /\ mon = InitMon(C0)

TNew == /\ l <= Len(Trace) /\ Trace[l].ev = "New"
        /\ C' = WithTables(Trace[l].C) /\ st' = InitState(Trace[l].C) /\ mon' = InitMon(Trace[l].C)
        /\ l' = l + 1

TCycle ==
  /\ l <= Len(Trace) /\ Trace[l].ev = "Cycle"
  /\ LET T == Trace[l]
         s1 == ApplyOps(C, st, T.ops)
         s2 == DoCollectF(C, s1, T.obs, T.of)
         m1 == NextMon(C, mon, T.d)
         shape == ShapeOK(C, T.d) /\ ShapeOK(C, T.c)
         viols == IF ~shape THEN {[rd |-> "?", a |-> 0, clause |-> "shape"]}
                  ELSE AbsViols(C, "d", s2.out.d, T.d, GaugeAdm(C, s1, T.conc))
                       \cup AbsViols(C, "c", s2.out.c, T.c, GaugeAdm(C, s1, T.conc))
                       \cup RelViols(C, m1, T.c)
     IN /\ st' = s2
        /\ mon' = IF shape THEN m1 ELSE mon
        /\ \A v \in viols : Viol([line |-> l, sc |-> T.sc, rd |-> v.rd, a |-> v.a, clause |-> v.clause])
  /\ l' = l + 1 /\ UNCHANGED C

(* the violations of one collection point with projections P = [d, c], model state s2, *)
(* monitor m1 = the monitor after P.d                                                  *)
PointViols(s2, m1, P, G) ==
  IF ~(ShapeOK(C, P.d) /\ ShapeOK(C, P.c)) THEN {[rd |-> "?", a |-> 0, clause |-> "shape"]}
  ELSE AbsViols(C, "d", s2.out.d, P.d, G) \cup AbsViols(C, "c", s2.out.c, P.c, G) \cup RelViols(C, m1, P.c)

TOver ==
  /\ l <= Len(Trace) /\ Trace[l].ev = "Over"
  /\ LET T == Trace[l]
         s1 == ApplyOps(C, st, T.ops)
         s2 == DoCollect(C, s1, T.obs)
         s3 == DoCollect(C, s2, T.obs)
         shape(P) == ShapeOK(C, P.d) /\ ShapeOK(C, P.c)
         mp1 == IF shape(T.p1) THEN NextMon(C, mon, T.p1.d) ELSE mon
         mp2 == IF shape(T.p2) THEN NextMon(C, mp1, T.p2.d) ELSE mp1
         mq1 == IF shape(T.q1) THEN NextMon(C, mon, T.q1.d) ELSE mon
         mq2 == IF shape(T.q2) THEN NextMon(C, mq1, T.q2.d) ELSE mq1
         g1 == GaugeAdm(C, s1, T.conc)
         g2 == GaugeAdm(C, s2, FALSE)
         vp == PointViols(s2, mp1, T.p1, g1) \cup PointViols(s3, mp2, T.p2, g2)
         vq == PointViols(s2, mq1, T.q1, g1) \cup PointViols(s3, mq2, T.q2, g2)
         useq == vp # {} /\ vq = {}
         viols == IF vp = {} \/ vq = {} THEN {} ELSE vp      \* neither serial order explains the pair
     IN /\ st' = s3
        /\ mon' = IF useq THEN mq2 ELSE mp2
        /\ \A v \in viols : Viol([line |-> l, sc |-> T.sc, rd |-> v.rd, a |-> v.a, clause |-> v.clause, over |-> T.x])
  /\ l' = l + 1 /\ UNCHANGED C

(* Mid: two collection points k, k+1 of a synchronous stream with ONE measurement m made  *)
(* WHILE reader x was collecting at point k (x was held inside the collection of this     *)
(* stream's exemplars; the other reader y had collected point k before, both collect      *)
(* k+1 right after).  Point k is not quiescent for x: m belongs to x's cycle k+1 (run A)  *)
(* or to its cycle k (run B) -- either explains x; for y it is after point k.  At the      *)
(* quiescent point k+1 every clause is exact again: the absolute ones and the relational   *)
(* one (a measurement lost in the window leaves cumulative # running delta for ever).      *)
TMid ==
  /\ l <= Len(Trace) /\ Trace[l].ev = "Mid"
  /\ LET T == Trace[l]
         x == T.x
         y == IF x = "d" THEN "c" ELSE "d"
         Of(P, r) == IF r = "d" THEN P.d ELSE P.c
         Out(s, r) == IF r = "d" THEN s.out.d ELSE s.out.c
         a0 == ApplyOps(C, st, T.ops)
         sA1 == DoCollect(C, a0, T.obs)
         aA == ApplyOps(C, sA1, T.m)
         sA2 == DoCollect(C, aA, T.obs)
         b0 == ApplyOps(C, a0, T.m)
         sB1 == DoCollect(C, b0, T.obs)
         sB2 == DoCollect(C, sB1, T.obs)
         gA1 == GaugeAdm(C, a0, T.conc)
         gA2 == GaugeAdm(C, aA, FALSE)
         gB1 == GaugeAdm(C, b0, T.conc)
         gB2 == GaugeAdm(C, sB1, FALSE)
         shape == ShapeOK(C, T.p1.d) /\ ShapeOK(C, T.p1.c) /\ ShapeOK(C, T.p2.d) /\ ShapeOK(C, T.p2.c)
         m2 == NextMon(C, NextMon(C, mon, T.p1.d), T.p2.d)
         vy == AbsViols(C, y, Out(sA1, y), Of(T.p1, y), gA1) \cup AbsViols(C, y, Out(sA2, y), Of(T.p2, y), gA2)
         vxa == AbsViols(C, x, Out(sA1, x), Of(T.p1, x), gA1) \cup AbsViols(C, x, Out(sA2, x), Of(T.p2, x), gA2)
         vxb == AbsViols(C, x, Out(sB1, x), Of(T.p1, x), gB1) \cup AbsViols(C, x, Out(sB2, x), Of(T.p2, x), gB2)
         viols == IF ~shape THEN {[rd |-> "?", a |-> 0, clause |-> "shape"]}
                  ELSE vy \cup RelViols(C, m2, T.p2.c) \cup (IF vxa = {} \/ vxb = {} THEN {} ELSE vxa)
     IN /\ st' = sA2
        /\ mon' = IF shape THEN m2 ELSE mon
        /\ \A v \in viols : Viol([line |-> l, sc |-> T.sc, rd |-> v.rd, a |-> v.a, clause |-> v.clause, over |-> "mid-" \o x])
  /\ l' = l + 1 /\ UNCHANGED C

(* Abort: a collection point whose Collect context was cancelled / expired (Collect     *)
(* returned the context's error).  It reports nothing and is no cycle of the statement:  *)
(* nothing changes, and the next healthy cycle is judged as always.                      *)
TAbort == /\ l <= Len(Trace) /\ Trace[l].ev = "Abort" /\ l' = l + 1 /\ UNCHANGED <<C, st, mon>>

TDone == l = Len(Trace) + 1 /\ Accepted(l) /\ UNCHANGED vars

Next == TNew \/ TCycle \/ TOver \/ TMid \/ TAbort \/ TDone
Spec == Init /\ [][Next]_vars

(* the statement holds on the model image of every real history, at every step *)
Inv == CumEqualsRunningDelta(C, st)
=============================================================================
