------------------------- MODULE TemporalityModel -------------------------
(* C08 -- reference model of ONE metric stream (one instrument, one aggregation)  *)
(* read by a DELTA reader and a CUMULATIVE reader at the same points of a         *)
(* measurement history.  Transcribed from the property statement and the OTel     *)
(* metrics data model, NOT from the aggregators of the Go SDK:                     *)
(*   - the state is what the statement talks about: the multiset of measurements  *)
(*     made for every attribute set in the open cycle / so far, the values the     *)
(*     callbacks observed in the preceding cycle, a logical clock;                 *)
(*   - every data point is a projection of a multiset ("bag") of measurements:     *)
(*     sum, last value, histogram count / sum / per-bucket counts.                 *)
(* Pure operators only; Temporality.tla (exhaustive exploration, edge export) and  *)
(* Trace_Temporality.tla (validation of real executions) both build on it.         *)
(*                                                                                 *)
(* Configuration record C:                                                         *)
(*   kind   "Counter" "UpDownCounter" "Histogram" "Gauge"                          *)
(*          "ObsCounter" "ObsUpDownCounter" "ObsGauge"                             *)
(*   agg    "sum" | "last" | "hist" (explicit buckets) | "expo" (base-2 exponential)*)
(*   na     attribute sets are 1..na                                               *)
(*   vals   sequence of the measurement values in use, integers in 1/unit          *)
(*   unit   1 (int64 instruments) or 4 (float64 instruments record k/4)            *)
(*   bounds explicit bucket boundaries (same unit), strictly increasing            *)
(*   ncb    callbacks 0..ncb-1; callback 0 is created with the instrument and is   *)
(*          always registered; attribute set a is observed by callback a % ncb     *)
(*   wide   TRUE for exponential-histogram streams over a WIDE value range: value j  *)
(*          is vals[j] (its sign: -1, 0, 1) times 2^exps[j], exponents up to +-300; *)
(*          the scale-0 index of 2^e is exactly e-1 (upper bounds inclusive) and,   *)
(*          base-2 buckets being nested, the index at any coarser scale is a floor  *)
(*          division of it -- which is what makes bucket counts reported at         *)
(*          DIFFERENT scales (the delta stream starts afresh every cycle, the       *)
(*          cumulative stream keeps re-scaling) exactly comparable.  Sums of such   *)
(*          values are not exact in float64 and are not part of the comparison.     *)
(*   exps   the exponents (<<>> unless wide)                                         *)
(*   bk, ix derived tables (WithTables): explicit bucket / scale-0 exponential index *)
(*          of every value of the alphabet                                          *)
EXTENDS Integers, Sequences, FiniteSets

Async(C) == C.kind \in {"ObsCounter", "ObsUpDownCounter", "ObsGauge"}
Attrs(C) == 1..C.na
NV(C) == Len(C.vals)
CbOf(C, a) == a % C.ncb
Val(C, j) == C.vals[j]

RECURSIVE SumF(_, _)
SumF(f, n) == IF n = 0 THEN 0 ELSE f[n] + SumF(f, n - 1)

RECURSIVE SumSet(_, _)
SumSet(S, f) == IF S = {} THEN 0 ELSE LET x == CHOOSE y \in S : TRUE IN f[x] + SumSet(S \ {x}, f)

RECURSIVE Pow2(_)
Pow2(n) == IF n <= 0 THEN 1 ELSE 2 * Pow2(n - 1)

Min(a, b) == IF a <= b THEN a ELSE b

-----------------------------------------------------------------------------
(* Bags of measurements over the value alphabet: cnt[j] = multiplicity of vals[j], *)
(* last = index of the most recent one (0 = the bag is empty).                      *)
EmptyBag(C) == [cnt |-> [j \in 1..NV(C) |-> 0], last |-> 0]
BagAdd1(b, j) == [cnt |-> [b.cnt EXCEPT ![j] = @ + 1], last |-> j]
BagUnion(b1, b2) == [cnt |-> [j \in DOMAIN b1.cnt |-> b1.cnt[j] + b2.cnt[j]],
                     last |-> IF b2.last # 0 THEN b2.last ELSE b1.last]
BagN(C, b) == SumF(b.cnt, NV(C))
BagS(C, b) == SumF([j \in 1..NV(C) |-> b.cnt[j] * Val(C, j)], NV(C))

(* Explicit buckets, OTel data model: bucket i (1-based) = (bounds[i-1], bounds[i]], *)
(* upper bound inclusive; bucket Len+1 = (last bound, +inf).                         *)
ExplicitBucket(C, v) == 1 + Cardinality({i \in 1..Len(C.bounds) : C.bounds[i] < v})
ExplicitCounts(C, b) ==
  [i \in 1..(Len(C.bounds) + 1) |->
     SumF([j \in 1..NV(C) |-> IF C.bk[j] = i THEN b.cnt[j] ELSE 0], NV(C))]

(* Base-2 exponential buckets, OTel data model: at scale 0 bucket i = (2^i, 2^(i+1)]; *)
(* at scale s < 0 the index is the scale-0 index shifted right by -s (floor), at      *)
(* scale s > 0 every scale-0 bucket is split, i.e. index_0 = index_s >> s.            *)
(* Idx0(C, w) for a positive magnitude w (in 1/unit): the i with 2^i < w/unit <= 2^(i+1) *)
Idx0(C, w) == CHOOSE i \in -3..20 : Pow2(i + 3) * C.unit < 8 * w /\ 8 * w <= Pow2(i + 4) * C.unit
Shift(i, d) == i \div Pow2(d)          \* arithmetic shift right by d >= 0 (floor)
Abs(v) == IF v < 0 THEN -v ELSE v

(* expected count of the bucket with index t of sign sg (1 / -1) at scale m <= 0 *)
ExpoCount(C, b, sg, m, t) ==
  SumF([j \in 1..NV(C) |->
          IF Val(C, j) * sg > 0 /\ Shift(C.ix[j], -m) = t THEN b.cnt[j] ELSE 0], NV(C))
ExpoIdx(C, b, sg, m) ==
  {Shift(C.ix[j], -m) : j \in {q \in 1..NV(C) : b.cnt[q] > 0 /\ Val(C, q) * sg > 0}}

(* the configuration extended with the per-value tables (computed once per stream) *)
WithTables(C) ==
  [kind |-> C.kind, agg |-> C.agg, na |-> C.na, vals |-> C.vals, unit |-> C.unit, bounds |-> C.bounds, ncb |-> C.ncb,
   wide |-> C.wide, exps |-> C.exps,
   bk |-> [j \in 1..Len(C.vals) |-> ExplicitBucket(C, C.vals[j])],
   ix |-> [j \in 1..Len(C.vals) |-> IF C.vals[j] = 0 THEN 0
                                    ELSE IF C.wide THEN C.exps[j] - 1
                                    ELSE Idx0(C, Abs(C.vals[j]))]]

ExpoZero(C, b) == SumF([j \in 1..NV(C) |-> IF Val(C, j) = 0 THEN b.cnt[j] ELSE 0], NV(C))

-----------------------------------------------------------------------------
(* State of the model.                                                          *)
(*   k      logical clock = number of collection points so far                   *)
(*   reg    registered callbacks                                                 *)
(*   cur    bag of measurements per attribute set in the open cycle (sync)       *)
(*   prev   value index observed per attribute set in the preceding cycle (0 = no)*)
(*   tot    bag of everything measured so far per attribute set                   *)
(*   totS   same, but forgotten when a cycle does not observe the set (async)     *)
(*   runV / runB  running total of the DELTA values reported so far (history      *)
(*          variables of the statement's first sentence; for asynchronous         *)
(*          instruments a set that is not observed in a cycle is forgotten)       *)
(*   dstart logical start of the delta reader's next interval                     *)
(*   out    what the two readers report at the last collection point              *)
(*   prevF  the set was observed in the preceding cycle by a callback that then       *)
(*          returned an error (see DoCollectF)                                         *)
NoPt(C) == [p |-> FALSE, o |-> FALSE, v |-> 0, v2 |-> 0, bag |-> EmptyBag(C), bag2 |-> EmptyBag(C)]
NoOut(C) == [start |-> 0, time |-> 0, pts |-> [a \in Attrs(C) |-> NoPt(C)]]

InitState(C) ==
  [k |-> 0, reg |-> {0},
   cur |-> [a \in Attrs(C) |-> EmptyBag(C)],
   prev |-> [a \in Attrs(C) |-> 0],
   prevF |-> [a \in Attrs(C) |-> FALSE],
   tot |-> [a \in Attrs(C) |-> EmptyBag(C)],
   totS |-> [a \in Attrs(C) |-> EmptyBag(C)],
   runV |-> [a \in Attrs(C) |-> 0],
   runB |-> [a \in Attrs(C) |-> EmptyBag(C)],
   dstart |-> 0,
   out |-> [d |-> NoOut(C), c |-> NoOut(C)]]

DoRec(C, st, a, j) == [st EXCEPT !.cur[a] = BagAdd1(@, j)]
DoReg(C, st, c) == [st EXCEPT !.reg = @ \cup {c}]
DoUnreg(C, st, c) == [st EXCEPT !.reg = @ \ {c}]

ApplyOp(C, st, o) ==
  CASE o.op = "Rec" -> DoRec(C, st, o.a, o.j)
    [] o.op = "Reg" -> DoReg(C, st, o.c)
    [] o.op = "Unreg" -> DoUnreg(C, st, o.c)

RECURSIVE ApplyOps(_, _, _)
ApplyOps(C, st, ops) == IF ops = <<>> THEN st ELSE ApplyOps(C, ApplyOp(C, st, Head(ops)), Tail(ops))

(* obs[a] = index of the value the callbacks' table holds for a (0 = nothing);   *)
(* a set is observed iff its callback is registered when the cycle runs          *)
Observed(C, st, obs, a) == Async(C) /\ obs[a] # 0 /\ CbOf(C, a) \in st.reg

(* the measurements that belong to the cycle closed by this collection point *)
CycleBag(C, st, obs, a) ==
  IF Async(C) THEN (IF Observed(C, st, obs, a) THEN BagAdd1(EmptyBag(C), obs[a]) ELSE EmptyBag(C))
  ELSE st.cur[a]

BagValue(C, b) == IF C.agg = "last" THEN (IF b.last = 0 THEN 0 ELSE Val(C, b.last)) ELSE BagS(C, b)

(* DELTA reader: exactly the sets measured / observed in the cycle; a precomputed *)
(* (asynchronous) sum reports observed - observed in the preceding cycle (0 if    *)
(* it was not observed then); everything else reports the aggregate of the cycle. *)
(* CALLBACK OUTCOMES.  obs holds what the callbacks actually observed; of[a] = the    *)
(* set was observed by a callback that afterwards returned an error.  The API docs   *)
(* say nothing about such observations: the point is optional (o) in that cycle; if   *)
(* reported it is exact.  In the next cycle the delta is taken against the value       *)
(* observed then (v) or, for an implementation that dropped it, against zero (v2).     *)
(* Anything else -- in particular leftovers of an earlier cycle ADDED to a new         *)
(* observation -- is never admitted.                                                   *)
DeltaPt(C, st, obs, of, a) ==
  LET cb == CycleBag(C, st, obs, a)
      pv == IF Async(C) /\ C.agg = "sum"
            THEN Val(C, obs[a]) - (IF st.prev[a] # 0 THEN Val(C, st.prev[a]) ELSE 0)
            ELSE BagValue(C, cb)
  IN IF cb.last = 0 THEN NoPt(C)
     ELSE [p |-> TRUE, o |-> (Async(C) /\ of[a]), v |-> pv,
           v2 |-> IF Async(C) /\ C.agg = "sum" /\ st.prevF[a] THEN Val(C, obs[a]) ELSE pv,
           bag |-> cb, bag2 |-> cb]

(* CUMULATIVE reader.  Synchronous: the aggregate of everything measured so far;  *)
(* a set measured in this cycle must be reported, a set measured only earlier may *)
(* be reported (statement silent: o = optional).  Asynchronous: exactly the sets  *)
(* observed in this cycle; sum / last value = the observed value; a histogram of  *)
(* observations = everything observed so far, or since the set reappeared (the    *)
(* statement leaves that choice: bag / bag2).                                     *)
CumPt(C, st, obs, of, a) ==
  LET cb == CycleBag(C, st, obs, a)
      t1 == BagUnion(st.tot[a], cb)
      t2 == BagUnion(st.totS[a], cb)
  IN IF Async(C)
     THEN (IF cb.last = 0 THEN NoPt(C)
           ELSE [p |-> TRUE, o |-> of[a],
                 v |-> IF C.agg \in {"sum", "last"} THEN Val(C, obs[a]) ELSE BagS(C, t1),
                 v2 |-> IF C.agg \in {"sum", "last"} THEN Val(C, obs[a]) ELSE BagS(C, t1),
                 bag |-> t1, bag2 |-> t2])
     ELSE (IF t1.last = 0 THEN NoPt(C)
           ELSE [p |-> TRUE, o |-> (cb.last = 0), v |-> BagValue(C, t1), v2 |-> BagValue(C, t1), bag |-> t1, bag2 |-> t1])

NoFail(C) == [a \in Attrs(C) |-> FALSE]

DoCollectF(C, st, obs, of) ==
  LET dp == [a \in Attrs(C) |-> DeltaPt(C, st, obs, of, a)]
      cp == [a \in Attrs(C) |-> CumPt(C, st, obs, of, a)]
      cyc == [a \in Attrs(C) |-> CycleBag(C, st, obs, a)]
      forget(a) == Async(C) /\ cyc[a].last = 0
  IN [k |-> st.k + 1, reg |-> st.reg,
      cur |-> [a \in Attrs(C) |-> EmptyBag(C)],
      prev |-> [a \in Attrs(C) |-> IF Observed(C, st, obs, a) THEN obs[a] ELSE 0],
      prevF |-> [a \in Attrs(C) |-> Observed(C, st, obs, a) /\ of[a]],
      tot |-> [a \in Attrs(C) |-> BagUnion(st.tot[a], cyc[a])],
      totS |-> [a \in Attrs(C) |-> IF forget(a) THEN EmptyBag(C) ELSE BagUnion(st.totS[a], cyc[a])],
      runV |-> [a \in Attrs(C) |-> IF forget(a) THEN 0 ELSE st.runV[a] + (IF dp[a].p THEN dp[a].v ELSE 0)],
      runB |-> [a \in Attrs(C) |-> BagUnion(st.runB[a], dp[a].bag)],
      dstart |-> st.k + 1,
      out |-> [d |-> [start |-> st.dstart, time |-> st.k + 1, pts |-> dp],
               c |-> [start |-> 0, time |-> st.k + 1, pts |-> cp]]]

DoCollect(C, st, obs) == DoCollectF(C, st, obs, NoFail(C))

-----------------------------------------------------------------------------
(* The statement, as predicates over (state before, state after) of a collection  *)
(* point of the MODEL (checked by TLC on every reachable state) -- the same        *)
(* clauses are evaluated on REAL data by Trace_Temporality.                        *)

(* every cumulative value equals the running total of the delta values reported so far *)
CumEqualsRunningDelta(C, st) ==
  \A a \in Attrs(C) :
    LET cp == st.out.c.pts[a] IN
    (cp.p /\ C.agg # "last") =>
       /\ (C.agg = "sum" => cp.v = st.runV[a])
       /\ (C.agg \in {"hist", "expo"} =>
             (BagN(C, cp.bag) = BagN(C, st.runB[a]) /\ BagS(C, cp.bag) = BagS(C, st.runB[a])
              /\ cp.bag.cnt = st.runB[a].cnt))

(* delta intervals adjacent and non-overlapping, cumulative start fixed, start <= time *)
Intervals(st0, st) ==
  st.k > st0.k =>
    /\ st.out.d.start = (IF st0.k = 0 THEN 0 ELSE st0.out.d.time)
    /\ st.out.d.start <= st.out.d.time
    /\ st.out.c.start = 0 /\ st.out.c.start <= st.out.c.time
    /\ st.out.d.time = st.out.c.time /\ st.out.d.time = st0.k + 1

(* asynchronous: exactly the observed sets; delta = observed - previously observed *)
AsyncExact(C, st0, obs, st) ==
  Async(C) =>
    \A a \in Attrs(C) :
      /\ st.out.d.pts[a].p = Observed(C, st0, obs, a)
      /\ st.out.c.pts[a].p = Observed(C, st0, obs, a)
      /\ (Observed(C, st0, obs, a) /\ C.agg = "sum") =>
            st.out.d.pts[a].v = Val(C, obs[a]) - (IF st0.out.c.pts[a].p /\ st0.k > 0 THEN st0.out.c.pts[a].v ELSE 0)
      /\ (Observed(C, st0, obs, a) /\ C.agg = "last") =>
            (st.out.d.pts[a].v = Val(C, obs[a]) /\ st.out.c.pts[a].v = Val(C, obs[a]))

(* a gauge reports the last value recorded in the cycle; synchronous delta forgets *)
SyncCycle(C, st0, st) ==
  ~Async(C) =>
    \A a \in Attrs(C) :
      /\ st.out.d.pts[a].p = (st0.cur[a].last # 0)
      /\ st0.cur[a].last # 0 => (st.out.c.pts[a].p /\ ~st.out.c.pts[a].o)
      /\ (C.agg = "last" /\ st0.cur[a].last # 0) =>
            (st.out.d.pts[a].v = Val(C, st0.cur[a].last) /\ st.out.c.pts[a].v = Val(C, st0.cur[a].last))
=============================================================================
