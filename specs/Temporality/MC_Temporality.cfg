SPECIFICATION Spec
CONSTANTS
  Cfg0 <- MCCfg
  MaxCycles = @MAXCYCLES@
  MaxOps = @MAXOPS@
  MaxFault = @MAXFAULT@
VIEW View
ACTION_CONSTRAINT EmitEdge
PROPERTY StepOK
CHECK_DEADLOCK FALSE
