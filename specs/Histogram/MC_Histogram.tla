----------------------------- MODULE MC_Histogram -----------------------------
EXTENDS Histogram
MCCBounds == @CBOUNDS@
MCRouteSet == @ROUTESET@
MCVals == @VALS@
=============================================================================
