SPECIFICATION Spec
CONSTANTS
  Bounds <- MCBounds
  Vals <- MCVals
  Cumulative = @CUMULATIVE@
  MaxSteps = @MAXSTEPS@
  NoSum = @NOSUM@
  NoMinMax = @NOMINMAX@
  OutVariant = "@VARIANT@"
VIEW View
INVARIANTS ReportIndep
CHECK_DEADLOCK FALSE
