---------------------------- MODULE ExpoHistogram ----------------------------
(* State machine for exhaustive exploration by TLC (C07, exponential part).    *)
(*                                                                             *)
(* Two descriptions of the same accumulator run side by side:                  *)
(*  - the declarative reference of ExpoModel (function of the recorded values) *)
(*  - `impl`: the accumulator of sdk/metric/internal/aggregate/                *)
(*    exponential_histogram.go transcribed step for step: record (accounting,  *)
(*    zero bucket, getBin, scaleChange loop, underflow guard, downscale of     *)
(*    both windows with the offset/steps merge loop, expoBuckets.record with   *)
(*    first / in-range / prepend / append).  getBin is the exact index (the    *)
(*    floating point side of getBin is covered by the harness' exact           *)
(*    projection, not by TLC).                                                 *)
(* TLC checks, for every sequence of <= MaxSteps operations over Vals, that    *)
(* the transcribed algorithm yields exactly the reference point (ImplIsRef),   *)
(* that the reference satisfies the contract (RefOK), and prints every edge;   *)
(* the harness replays each edge on the real SDK and compares the collected    *)
(* data point with `pt` (reference) and `ipt` (implementation-shaped).         *)
(*                                                                             *)
(* Named deviation D1 (present in the code unless FixD1): record() counts a    *)
(* measurement (count, min, max, sum) BEFORE the scale-underflow early return, *)
(* so a discarded measurement is still counted.                                *)
(*                                                                             *)
(* Output path (HistOutput): Collect names the class of destination memory it  *)
(* writes into; ReportIndep states, for every explored accumulator state and   *)
(* every previous occupant of the slot, that the reported point is the         *)
(* accumulator's and nothing else.                                             *)
EXTENDS ExpoModel, HistOutput, TLC, Json

CONSTANTS Vals,        \* sequence of abstract values (see ExpoModel)
          MaxSize,     \* AggregationBase2ExponentialHistogram.MaxSize
          MaxScale,    \* AggregationBase2ExponentialHistogram.MaxScale (>= -10 here)
          Cumulative,  \* reader temporality
          FixD1,       \* TRUE: accounting moved after the underflow check
          MaxSteps,
          NoSum,       \* the stream collects no sum (UpDownCounter / Gauge instrument kinds)
          NoMinMax,    \* AggregationBase2ExponentialHistogram.NoMinMax
          OutVariant   \* "code", or a named faulty output path (HistOutput)

VARIABLES hist,        \* indices into Vals recorded into the current point, in order
          impl,        \* implementation-shaped accumulator
          steps, act
vars == <<hist, impl, steps, act>>

HVals(h) == [i \in 1..Len(h) |-> Vals[h[i]]]

EmptyB == [off |-> 0, c |-> <<>>]
Fresh == [live |-> FALSE, scale |-> MaxScale, pos |-> EmptyB, neg |-> EmptyB, zero |-> 0,
          count |-> 0, min |-> -1, max |-> -1, sumq |-> 0]

-----------------------------------------------------------------------------
(* transcription of exponential_histogram.go *)

Account(st, v) ==          \* count++, min, max, sum
  [st EXCEPT !.count = @ + 1,
             !.min = IF @ = -1 \/ v.r < @ THEN v.r ELSE @,
             !.max = IF @ = -1 \/ v.r > @ THEN v.r ELSE @,
             !.sumq = @ + v.k]

RECURSIVE SCLoop(_, _, _)
SCLoop(low, high, cnt) ==  \* for high-low >= maxSize { low>>=1; high>>=1; count++; if count > 30 {return} }
  IF high >= low + MaxSize /\ cnt <= TopScale - MinScale      \* (no 32-bit overflow this way)
  THEN SCLoop(low \div 2, high \div 2, cnt + 1) ELSE cnt

ScaleChange(bin, bk) ==
  IF Len(bk.c) = 0 THEN 0
  ELSE IF bk.off >= bin THEN SCLoop(bin, bk.off + Len(bk.c) - 1, 0)
       ELSE SCLoop(bk.off, bin, 0)

RECURSIVE DSLoop(_, _, _, _)
DSLoop(c, i, offset, stp) ==   \* the in-place merge loop of expoBuckets.downscale (i is 0-based)
  IF i >= Len(c) THEN c
  ELSE LET idx == i + offset
           t == idx \div stp
       IN DSLoop(IF idx % stp = 0 THEN [c EXCEPT ![t + 1] = c[i + 1]]
                 ELSE [c EXCEPT ![t + 1] = @ + c[i + 1]], i + 1, offset, stp)

Downscale(bk, d) ==
  IF Len(bk.c) <= 1 THEN [off |-> bk.off \div Pow2(d), c |-> bk.c]
  ELSE LET stp == Pow2(d)
           offset == bk.off % stp
           merged == DSLoop(bk.c, 1, offset, stp)
           lastIdx == (Len(bk.c) - 1 + offset) \div stp
       IN [off |-> bk.off \div stp, c |-> SubSeq(merged, 1, lastIdx + 1)]

Zeros(n) == [t \in 1..n |-> 0]

Where(bk, bin) == IF Len(bk.c) = 0 THEN "first"
                  ELSE IF bin < bk.off THEN "prepend"
                  ELSE IF bin > bk.off + Len(bk.c) - 1 THEN "append"
                  ELSE "inrange"

BRecord(bk, bin) ==            \* expoBuckets.record
  CASE Where(bk, bin) = "first"   -> [off |-> bin, c |-> <<1>>]
    [] Where(bk, bin) = "inrange" -> [bk EXCEPT !.c[bin - bk.off + 1] = @ + 1]
    [] Where(bk, bin) = "prepend" -> [off |-> bin, c |-> <<1>> \o Zeros(bk.off - bin - 1) \o bk.c]
    [] Where(bk, bin) = "append"  -> [bk EXCEPT !.c = @ \o Zeros(bin - (bk.off + Len(bk.c) - 1) - 1) \o <<1>>]

BucketOf(st, v) == IF v.sg = 1 THEN st.pos ELSE st.neg

Plan(st, v) ==
  LET bin == Idx(v.b, st.scale)
      d == ScaleChange(bin, BucketOf(st, v))
  IN [d |-> d, under |-> d > 0 /\ st.scale - d < MinScale]

Rescaled(st, d) == IF d > 0 THEN [st EXCEPT !.scale = @ - d, !.pos = Downscale(@, d), !.neg = Downscale(@, d)]
                   ELSE st

PathOf(st, v) ==
  IF v.sg = 0 THEN "zero"
  ELSE LET p == Plan(st, v) IN
       IF p.under THEN "underflow"
       ELSE LET st1 == Rescaled(st, p.d)
                w == Where(BucketOf(st1, v), Idx(v.b, st1.scale))
            IN IF p.d > 0 THEN "down-" \o w ELSE w

StepRecord(st0, v) ==
  LET st == [st0 EXCEPT !.live = TRUE] IN
  IF v.sg = 0 THEN [Account(st, v) EXCEPT !.zero = @ + 1]
  ELSE LET p == Plan(st, v) IN
       IF p.under THEN (IF FixD1 THEN st ELSE Account(st, v))          \* D1
       ELSE LET st1 == Rescaled(st, p.d)
                bin1 == Idx(v.b, st1.scale)
                st2 == IF v.sg = 1 THEN [st1 EXCEPT !.pos = BRecord(@, bin1)]
                       ELSE [st1 EXCEPT !.neg = BRecord(@, bin1)]
            IN Account(st2, v)

-----------------------------------------------------------------------------
Init == hist = <<>> /\ impl = Fresh /\ steps = 0 /\ act = [op |-> "Init", i |-> 0, path |-> "", d |-> ""]

DoRec(i, L) == /\ steps < MaxSteps
               /\ impl' = StepRecord(impl, Vals[i])
               /\ hist' = Append(hist, i)
               /\ steps' = steps + 1
               /\ act' = [op |-> "Record", i |-> i, path |-> L, d |-> ""]

(* one action per path through record(), so that TLC's coverage shows which are exercised *)
RecZero == \E i \in 1..Len(Vals) : /\ PathOf(impl, Vals[i]) = "zero"
                                     /\ DoRec(i, "zero")
RecFirst == \E i \in 1..Len(Vals) : /\ PathOf(impl, Vals[i]) = "first"
                                      /\ DoRec(i, "first")
RecInRange == \E i \in 1..Len(Vals) : /\ PathOf(impl, Vals[i]) = "inrange"
                                        /\ DoRec(i, "inrange")
RecPrepend == \E i \in 1..Len(Vals) : /\ PathOf(impl, Vals[i]) = "prepend"
                                        /\ DoRec(i, "prepend")
RecAppend == \E i \in 1..Len(Vals) : /\ PathOf(impl, Vals[i]) = "append"
                                       /\ DoRec(i, "append")
RecDownInRange == \E i \in 1..Len(Vals) : /\ PathOf(impl, Vals[i]) = "down-inrange"
                                            /\ DoRec(i, "down-inrange")
RecDownPrepend == \E i \in 1..Len(Vals) : /\ PathOf(impl, Vals[i]) = "down-prepend"
                                            /\ DoRec(i, "down-prepend")
RecDownAppend == \E i \in 1..Len(Vals) : /\ PathOf(impl, Vals[i]) = "down-append"
                                           /\ DoRec(i, "down-append")
RecUnderflow == \E i \in 1..Len(Vals) : /\ PathOf(impl, Vals[i]) = "underflow"
                                          /\ DoRec(i, "underflow")

Collect == \E d \in ODestClasses :
           /\ steps < MaxSteps
           /\ steps' = steps + 1
           /\ act' = [op |-> "Collect", i |-> 0, path |-> "collect", d |-> d]
           /\ IF Cumulative THEN UNCHANGED <<hist, impl>>
              ELSE hist' = <<>> /\ impl' = Fresh        \* delta: the point is forgotten

Next == \/ RecZero \/ RecFirst \/ RecInRange \/ RecPrepend \/ RecAppend
        \/ RecDownInRange \/ RecDownPrepend \/ RecDownAppend \/ RecUnderflow \/ Collect
Spec == Init /\ [][Next]_vars

-----------------------------------------------------------------------------
Kept(h) == Keep(HVals(h), MaxSize)
Ref(h) == RefPoint(Kept(h), MaxScale, MaxSize)
ImplPt(st) ==
  IF ~st.live THEN Absent
  ELSE [present |-> TRUE, scale |-> st.scale,
        poff |-> IF st.pos.c = <<>> THEN 0 ELSE st.pos.off, pos |-> st.pos.c,
        noff |-> IF st.neg.c = <<>> THEN 0 ELSE st.neg.off, neg |-> st.neg.c,
        zero |-> st.zero, count |-> st.count, min |-> st.min, max |-> st.max, sumq |-> st.sumq]

(* what a reader reports for a point, given what the stream collects *)
Flag(p) == IF ~p.present THEN p
           ELSE [p EXCEPT !.min = IF NoMinMax THEN -2 ELSE @, !.max = IF NoMinMax THEN -2 ELSE @,
                          !.sumq = IF NoSum THEN 0 ELSE @]
Obs(p) == [sumz |-> p.sumq = 0] @@ Flag(p)

View == <<hist, impl, steps>>
EdgeState(h, st, n) == [hist |-> h, steps |-> n, pt |-> Flag(Ref(h)), ipt |-> Flag(ImplPt(st))]
EmitEdge == PrintT("EDGE " \o ToJson([from |-> EdgeState(hist, impl, steps), act |-> act',
                                      to |-> EdgeState(hist', impl', steps')]))

(* the transcribed algorithm computes the reference point; under D1 it differs exactly in the
   accounting of the discarded measurements *)
ImplIsRef ==
  LET H == HVals(hist)
      K == Kept(hist)
      r == Ref(hist)
  IN IF FixD1 \/ Len(K) = Len(H) THEN ImplPt(impl) = r
     ELSE ImplPt(impl) = [r EXCEPT !.count = Len(H), !.min = MinR(H), !.max = MaxR(H), !.sumq = SumK(H)]

(* the reference point satisfies the statement (consistency of the two halves of ExpoModel) *)
RefOK == ExpoClauses(Obs(Ref(hist)), HVals(hist), MaxScale, MaxSize, MaxScale, TRUE, NoSum, NoMinMax) = {}

(* the statement, on the implementation-shaped accumulator: fails under D1 (NoDeviation config) *)
ContractInv == ExpoClauses(Obs(ImplPt(impl)), HVals(hist), MaxScale, MaxSize, MaxScale, TRUE, NoSum, NoMinMax) = {}

(* the reported point is a function of the accumulator only, whatever the destination held;
   together with ImplIsRef: what is reported is the reference point *)
ReportIndep == OReportIndepE(impl, MaxSize, NoSum, NoMinMax, OutVariant)

ScaleMonotone == [][(act'.op = "Record" /\ impl.live) => impl'.scale <= impl.scale]_vars
SizeBound == Len(impl.pos.c) <= MaxSize /\ Len(impl.neg.c) <= MaxSize
=============================================================================
