------------------------------ MODULE ExpoModel ------------------------------
(* Base-2 exponential histogram data points (C07): WHAT a correct point holds. *)
(*                                                                             *)
(* A non-zero measurement v is abstracted to its sign and the EXACT index of   *)
(* |v| at scale 20:  b  with  2^(b/2^20) < |v| <= 2^((b+1)/2^20)   (upper      *)
(* inclusive, OTel data model).  Buckets of base 2^(2^-s) nest, so the exact   *)
(* index at any scale s <= 20 is  floor(b / 2^(20-s)) -- no logarithm needed.  *)
(* value record: [sg |-> 1 | -1 | 0 (zero), b, alt, r, k]                      *)
(*   alt : the other index acceptable when |v| lies within float-rounding      *)
(*         distance of an irrational bucket boundary (alt = b when decidable;  *)
(*         only honoured at positive scales, where the data model allows a     *)
(*         logarithm-based mapping; scales <= 0 and exact powers of two are    *)
(*         exactly decidable and checked strictly)                             *)
(*   r   : rank of v among the distinct values of the scenario (for min/max)   *)
(*   k   : v / quantum in quantised scenarios (exact sums), else 0             *)
EXTENDS Integers, Sequences, FiniteSets

MinScale == -10
TopScale == 20

P2 == <<1, 2, 4, 8, 16, 32, 64, 128, 256, 512, 1024, 2048, 4096, 8192, 16384, 32768, 65536,
        131072, 262144, 524288, 1048576, 2097152, 4194304, 8388608, 16777216, 33554432,
        67108864, 134217728, 268435456, 536870912, 1073741824>>
Pow2(n) == P2[n + 1]                      \* n \in 0..30

(* exact bucket index at scale s of a value with scale-20 index b (\div is floor) *)
Idx(b, s) == IF s >= MinScale THEN b \div Pow2(TopScale - s)
             ELSE (b \div Pow2(30)) \div Pow2(IF MinScale - s > 30 THEN 30 ELSE MinScale - s)

SetMax(S) == CHOOSE x \in S : \A y \in S : y <= x
SetMin(S) == CHOOSE x \in S : \A y \in S : x <= y

RECURSIVE SumSeq(_)
SumSeq(q) == IF q = <<>> THEN 0 ELSE Head(q) + SumSeq(Tail(q))

Pick(vals, sg) == {j \in 1..Len(vals) : vals[j].sg = sg}
IdxSet(vals, sg, s) == {Idx(vals[j].b, s) : j \in Pick(vals, sg)}
(* at most n buckets span the indices of one sign (written without a difference: TLC's
   integers are 32 bit and the index range at scale 20 is just under 2^31 wide) *)
FitsSign(vals, sg, s, n) == LET I == IdxSet(vals, sg, s) IN I = {} \/ SetMax(I) <= SetMin(I) + (n - 1)
FitsAt(vals, s, n) == FitsSign(vals, 1, s, n) /\ FitsSign(vals, -1, s, n)

(* A measurement that cannot be held together with the values already held even at  *)
(* the minimum scale cannot be represented by ANY point satisfying the statement    *)
(* (<= n buckets per sign, scale >= -10): the only consistent outcome is that it is *)
(* not part of the point at all.  Keep(H, n) = the measurements a point must hold.  *)
RECURSIVE KeepFrom(_, _, _)
KeepFrom(kept, rest, n) ==
  IF rest = <<>> THEN kept
  ELSE LET v == Head(rest)
           k2 == Append(kept, v)
       IN KeepFrom(IF v.sg = 0 \/ FitsAt(k2, MinScale, n) THEN k2 ELSE kept, Tail(rest), n)
Keep(H, n) == KeepFrom(<<>>, H, n)

EffMax(ms) == IF ms < MinScale THEN MinScale ELSE IF ms > TopScale THEN TopScale ELSE ms
   \* a maximum below -10 can only mean -10, one above 20 only 20 (the documented range of MaxScale)
(* parameters outside their documented ranges (MaxScale in -10..20, MaxSize > 0): no route has to accept them *)
ExpoOutOfRange(ms, n) == ms < MinScale \/ ms > TopScale \/ n <= 0

MinR(vals) == SetMin({vals[j].r : j \in 1..Len(vals)})
MaxR(vals) == SetMax({vals[j].r : j \in 1..Len(vals)})
RECURSIVE SumK(_)
SumK(vals) == IF vals = <<>> THEN 0 ELSE Head(vals).k + SumK(Tail(vals))

-----------------------------------------------------------------------------
(* Reference point: best resolution that fits (SDK spec: SHOULD), tight windows *)
Absent == [present |-> FALSE, scale |-> 0, poff |-> 0, pos |-> <<>>, noff |-> 0, neg |-> <<>>,
           zero |-> 0, count |-> 0, min |-> -1, max |-> -1, sumq |-> 0]

BestScale(K, ms, n) == SetMax({s \in MinScale..EffMax(ms) : FitsAt(K, s, n)})

Window(K, sg, s) ==
  LET I == IdxSet(K, sg, s) IN
  IF I = {} THEN [off |-> 0, c |-> <<>>]
  ELSE LET lo == SetMin(I)
           hi == SetMax(I)
       IN [off |-> lo,
           c |-> [t \in 1..(hi - lo + 1) |-> Cardinality({j \in Pick(K, sg) : Idx(K[j].b, s) = lo + t - 1})]]

RefPoint(K, ms, n) ==
  IF K = <<>> THEN Absent
  ELSE LET s == BestScale(K, ms, n)
           p == Window(K, 1, s)
           q == Window(K, -1, s)
       IN [present |-> TRUE, scale |-> s, poff |-> p.off, pos |-> p.c, noff |-> q.off, neg |-> q.c,
           zero |-> Cardinality(Pick(K, 0)), count |-> Len(K), min |-> MinR(K), max |-> MaxR(K),
           sumq |-> SumK(K)]

-----------------------------------------------------------------------------
(* The contract: clauses of the statement broken by an observed point o, given  *)
(* the measurements H recorded into it, the configuration and the scale it last *)
(* reported (prev).  Tolerant where the statement is silent: any scale within   *)
(* the limits that is not above prev, any window position (leading / trailing   *)
(* empty buckets count towards the size limit only), either neighbour for a     *)
(* value at float-rounding distance from an irrational boundary; min/max/sum of *)
(* an exponential point are not in the statement: checked as neighbouring       *)
(* behaviour, over the held values or over all recorded ones.  nominmax: the     *)
(* stream is configured not to collect extrema and must report none (-2);       *)
(* nosum: it collects no sum and reports the zero value (o.sumz).               *)
ObsCount(off, counts, i) == IF i >= off /\ i < off + Len(counts) THEN counts[i - off + 1] ELSE 0

IdxOf(v, s, useAlt) == Idx(IF useAlt THEN v.alt ELSE v.b, s)

PlacedSign(K, S, sg, s, off, counts) ==
  LET J == Pick(K, sg)
      dom == {IdxOf(K[j], s, j \in S) : j \in J}
               \cup {off + t - 1 : t \in {t \in 1..Len(counts) : counts[t] # 0}}
  IN \A i \in dom : ObsCount(off, counts, i) = Cardinality({j \in J : IdxOf(K[j], s, j \in S) = i})

Ambiguous(K, s) == IF s <= 0 THEN {}
                   ELSE {j \in 1..Len(K) : K[j].sg # 0 /\ Idx(K[j].alt, s) # Idx(K[j].b, s)}

(* cheap NECESSARY conditions of the search below (implied by it, so they change no verdict):  *)
(* per sign the totals agree, every index holds at least the values that can only be there   *)
(* and at most those that may be there.  A plainly wrong point is rejected by them without   *)
(* enumerating the subsets of the ambiguous values (2^n for n values near a boundary).        *)
MayBeAt(v, s, i) == Idx(v.b, s) = i \/ (s > 0 /\ Idx(v.alt, s) = i)
MustBeAt(v, s, i) == Idx(v.b, s) = i /\ (s <= 0 \/ Idx(v.alt, s) = i)
PlausibleSign(K, sg, s, off, counts) ==
  LET J == Pick(K, sg)
      dom == {Idx(K[j].b, s) : j \in J} \cup {Idx(K[j].alt, s) : j \in J}
               \cup {off + t - 1 : t \in {t \in 1..Len(counts) : counts[t] # 0}}
  IN /\ SumSeq(counts) = Cardinality(J)
     /\ \A i \in dom : LET c == ObsCount(off, counts, i) IN
            /\ Cardinality({j \in J : MustBeAt(K[j], s, i)}) <= c
            /\ c <= Cardinality({j \in J : MayBeAt(K[j], s, i)})

Placed(o, K) ==
  /\ PlausibleSign(K, 1, o.scale, o.poff, o.pos)
  /\ PlausibleSign(K, -1, o.scale, o.noff, o.neg)
  /\ \E S \in SUBSET Ambiguous(K, o.scale) :
        /\ PlacedSign(K, S, 1, o.scale, o.poff, o.pos)
        /\ PlacedSign(K, S, -1, o.scale, o.noff, o.neg)

ExpoClauses(o, H, ms, n, prev, quant, nosum, nominmax) ==
  LET K == Keep(H, n) IN
  IF H = <<>> THEN (IF o.present THEN {"present"} ELSE {})
  ELSE IF ~o.present THEN {"absent"}
  ELSE (IF o.scale < MinScale \/ o.scale > EffMax(ms) THEN {"scale-range"} ELSE {})
       \cup (IF o.scale > prev THEN {"scale-increased"} ELSE {})
       \cup (IF Len(o.pos) > n \/ Len(o.neg) > n THEN {"too-many-buckets"} ELSE {})
       \cup (IF o.count # o.zero + SumSeq(o.pos) + SumSeq(o.neg) THEN {"count-sum"} ELSE {})
       \cup (IF o.zero # Cardinality(Pick(K, 0)) THEN {"zero"} ELSE {})
       \cup (IF o.scale \in -40..TopScale /\ ~Placed(o, K) THEN {"placement"} ELSE {})
       \cup (IF o.count # Len(K) THEN {"count"} ELSE {})
       \cup (IF o.min \notin (IF nominmax THEN {-2} ELSE {MinR(K), MinR(H)}) THEN {"min"} ELSE {})
       \cup (IF o.max \notin (IF nominmax THEN {-2} ELSE {MaxR(K), MaxR(H)}) THEN {"max"} ELSE {})
       \cup (IF nosum THEN (IF ~o.sumz THEN {"sum"} ELSE {})
             ELSE IF quant THEN (IF o.sumq \notin {SumK(K), SumK(H)} THEN {"sum"} ELSE {})
             ELSE (IF Len(K) = Len(H) /\ ~o.sumok THEN {"sum"} ELSE {}))
=============================================================================
