------------------------------ MODULE HistOutput ------------------------------
(* C07, the OUTPUT PATH: how the state of an aggregator becomes the data point  *)
(* a reader reports.  Reader.Collect(ctx, rm) writes into memory supplied by    *)
(* the caller, and that memory is RE-USED between collections (documented for   *)
(* Collect, done by the periodic reader through its pool): the slot a stream    *)
(* writes to may hold whatever another stream, another reader or an earlier     *)
(* cycle left there.  The statement speaks about "every ... histogram point",   *)
(* i.e. about what is reported, so the reported point has to be a function of   *)
(* the aggregator state ONLY:                                                    *)
(*                                                                               *)
(*        Report(agg, dest)  is independent of  dest      for all dest.          *)
(*                                                                               *)
(* `dest` is modelled explicitly as an arbitrary previous occupant of the slot   *)
(* (OPrevH / OPrevE): nothing, the same aggregation kind with more / fewer /     *)
(* no / emptied buckets (Go slices: a backing array with stale contents, a       *)
(* length and a capacity), the other sign populated, one or two old data points  *)
(* (possibly beyond the length of the data point vector), another aggregation    *)
(* kind, the other number type.  OReportH / OReportE transcribe the output code  *)
(* of aggregate/histogram.go and aggregate/exponential_histogram.go (type        *)
(* assertion on *dest, reset(), copy(), slices.Clone, the noSum / noMinMax       *)
(* branches) over that memory model.  `V` selects the code as it is ("code") or  *)
(* a named faulty variant; the faulty variants exist to show that the invariant  *)
(* is sharp (TLC must find each of them, see checks/c07.py).                     *)
(*                                                                               *)
(* Every slice also carries who owns its backing array ("new": allocated by the  *)
(* collection, "dest": the destination's, "agg": the aggregator's own live       *)
(* memory).  A reported point must never alias memory the aggregator keeps       *)
(* updating (ONoAlias), otherwise it changes after it was reported.              *)
EXTENDS Integers, Sequences, FiniteSets

ONil == [mem |-> "nil", a |-> <<>>, n |-> 0]
OView(s) == SubSeq(s.a, 1, s.n)                       \* what a consumer of the slice sees
OCap(s) == Len(s.a)
OFill(c, x) == [t \in 1..c |-> x]
OMake(n, c, z) == [mem |-> "new", a |-> OFill(c, z), n |-> n]                 \* make([]T, n, c)
OReset(s, n, c, z) == IF OCap(s) < c THEN OMake(n, c, z) ELSE [s EXCEPT !.n = n]   \* aggregate.reset
OCopy(s, src) ==                                       \* copy(s, src): min(len(s), len(src)) elements
  [s EXCEPT !.a = [t \in 1..OCap(s) |-> IF t <= s.n /\ t <= Len(src) THEN src[t] ELSE s.a[t]]]
OClone(src) == [mem |-> "new", a |-> src, n |-> Len(src)]                     \* slices.Clone
OLend(src) == [mem |-> "agg", a |-> src, n |-> Len(src)]                      \* the aggregator's own slice
ODest(c, n, x) == [mem |-> "dest", a |-> OFill(c, x), n |-> n]                \* stale destination memory

(* a vector of data points in destination memory whose elements are `o` *)
ODpsShapes(olds) ==
  {ONil} \cup UNION {{[mem |-> "dest", a |-> <<o>>, n |-> 1],
                      [mem |-> "dest", a |-> <<o, o>>, n |-> 0],
                      [mem |-> "dest", a |-> <<o, o>>, n |-> 2]} : o \in olds}

OOtherKinds == {[kind |-> k, num |-> "f", dps |-> ONil] : k \in {"none", "sum", "gauge"}}

-----------------------------------------------------------------------------
(* explicit-bucket histogram.  val = HistModel!HistPoint (the accumulator `buckets`) *)
OZeroH == [count |-> 0, bounds |-> ONil, counts |-> ONil, sumq |-> 0, min |-> -2, max |-> -2]
OStaleH(cs) == [count |-> 77, bounds |-> IF OCap(cs) = 0 THEN ONil ELSE ODest(OCap(cs) - 1, IF cs.n = 0 THEN 0 ELSE OCap(cs) - 1, 50),
                counts |-> cs, sumq |-> 99, min |-> 98, max |-> 99]
(* L = number of buckets the stream needs *)
OCountShapes(L) == {ONil} \cup UNION {{ODest(c, 0, 7), ODest(c, c, 7)} : c \in {x \in {L - 1, L, L + 2} : x >= 1}}

OPrevH(L) ==
  OOtherKinds \cup {[kind |-> "expo", num |-> "f", dps |-> ONil]}
  \cup {[kind |-> "hist", num |-> "f", dps |-> v] : v \in ODpsShapes({OStaleH(cs) : cs \in OCountShapes(L)})}
  \cup {[kind |-> "hist", num |-> "i", dps |-> [mem |-> "dest", a |-> <<OStaleH(ODest(L + 2, L + 2, 7))>>, n |-> 1]]}

OReportH(val, bounds, d, cum, noSum, noMinMax, V) ==
  LET h == IF d.kind = "hist" /\ d.num = "f" THEN d.dps ELSE ONil     \* h, _ := (*dest).(metricdata.Histogram[N])
      n == IF val.present THEN 1 ELSE 0
      dps == OReset(h, n, n, OZeroH)
  IN IF n = 0 THEN [present |-> FALSE, dp |-> OZeroH]                 \* pipeline: n = 0 -> the metric is not reported
     ELSE LET old == dps.a[1]
              L == Len(val.counts)
              cnt == IF V = "lend_cumulative" \/ ~cum THEN OLend(val.counts)   \* delta: the stream forgets the point
                     ELSE IF V = "copy_noreslice"
                          THEN OCopy(IF OCap(old.counts) < L THEN OMake(L, L, 0) ELSE old.counts, val.counts)
                          ELSE OClone(val.counts)
              bnd == IF V = "reuse_bounds" /\ old.bounds.mem # "nil" THEN old.bounds ELSE OClone(bounds)
              keep == V = "keep_unset"
          IN [present |-> TRUE,
              dp |-> [count |-> val.count, bounds |-> bnd, counts |-> cnt,
                      sumq |-> IF noSum THEN (IF keep THEN old.sumq ELSE 0) ELSE val.sumq,
                      min |-> IF noMinMax THEN (IF keep THEN old.min ELSE -2) ELSE val.min,
                      max |-> IF noMinMax THEN (IF keep THEN old.max ELSE -2) ELSE val.max]]

OProjH(r) == IF ~r.present THEN [present |-> FALSE]
             ELSE [present |-> TRUE, bounds |-> OView(r.dp.bounds), counts |-> OView(r.dp.counts),
                   count |-> r.dp.count, min |-> r.dp.min, max |-> r.dp.max, sumq |-> r.dp.sumq]
OWantH(val, bounds, noSum, noMinMax) ==
  IF ~val.present THEN [present |-> FALSE]
  ELSE [present |-> TRUE, bounds |-> bounds, counts |-> val.counts, count |-> val.count,
        min |-> IF noMinMax THEN -2 ELSE val.min, max |-> IF noMinMax THEN -2 ELSE val.max,
        sumq |-> IF noSum THEN 0 ELSE val.sumq]
(* the stream keeps the accumulator exactly when it is cumulative *)
ONoAliasH(r, cum) == r.present => /\ r.dp.bounds.mem # "agg"
                                   /\ (r.dp.counts.mem = "agg" => ~cum)

OReportIndepH(val, bounds, noSum, noMinMax, V) ==
  \A d \in OPrevH(Len(bounds) + 1), cum \in BOOLEAN :
     LET r == OReportH(val, bounds, d, cum, noSum, noMinMax, V)
     IN OProjH(r) = OWantH(val, bounds, noSum, noMinMax) /\ ONoAliasH(r, cum)

-----------------------------------------------------------------------------
(* exponential histogram.  st = the accumulator of ExpoHistogram.tla:                     *)
(* [live, scale, pos |-> [off, c], neg |-> [off, c], zero, count, min, max, sumq].        *)
(* delta() and cumulative() differ only in the temporality stamp and in forgetting the    *)
(* accumulator afterwards, so one transcription serves both.                              *)
OZeroB == [off |-> 0, counts |-> ONil]
OZeroE == [scale |-> 0, zero |-> 0, count |-> 0, sumq |-> 0, min |-> -2, max |-> -2, pos |-> OZeroB, neg |-> OZeroB]
OStaleE(ps, ns) == [scale |-> 13, zero |-> 66, count |-> 77, sumq |-> 99, min |-> 98, max |-> 99,
                    pos |-> [off |-> 55, counts |-> ps], neg |-> [off |-> -55, counts |-> ns]]
(* M = configured MaxSize *)
OBucketPairs(M) ==
  LET one == ODest(1, 1, 7)
      big == ODest(M + 2, M + 2, 7)
      emptied == ODest(M + 2, 0, 7)
  IN {<<x, x>> : x \in {ONil, one, big, emptied, ODest(1, 0, 7)}}
     \cup {<<ONil, big>>, <<big, ONil>>, <<emptied, one>>, <<one, emptied>>}

OPrevE(M) ==
  OOtherKinds \cup {[kind |-> "hist", num |-> "f", dps |-> ONil]}
  \cup {[kind |-> "expo", num |-> "f", dps |-> v] : v \in ODpsShapes({OStaleE(p[1], p[2]) : p \in OBucketPairs(M)})}
  \cup {[kind |-> "expo", num |-> "i", dps |-> [mem |-> "dest", a |-> <<OStaleE(ODest(M + 2, M + 2, 7), ODest(M + 2, M + 2, 7))>>, n |-> 1]]}

OReportE(st, d, noSum, noMinMax, V) ==
  LET h == IF d.kind = "expo" /\ d.num = "f" THEN d.dps ELSE ONil     \* h, _ := (*dest).(metricdata.ExponentialHistogram[N])
      n == IF st.live THEN 1 ELSE 0
      dps == OReset(h, n, n, OZeroE)
  IN IF n = 0 THEN [present |-> FALSE, dp |-> OZeroE]
     ELSE LET old == dps.a[1]
              Bk(ob, b) ==
                IF V = "skip_empty_sign" /\ Len(b.c) = 0 THEN [off |-> b.off, counts |-> ob.counts]
                ELSE IF V = "lend_buckets" THEN [off |-> b.off, counts |-> OLend(b.c)]
                ELSE [off |-> b.off, counts |-> OCopy(OReset(ob.counts, Len(b.c), Len(b.c), 0), b.c)]
              keep == V = "keep_unset"
          IN [present |-> TRUE,
              dp |-> [scale |-> IF V = "scale_if_buckets" /\ Len(st.pos.c) = 0 /\ Len(st.neg.c) = 0 THEN old.scale ELSE st.scale,
                      zero |-> st.zero, count |-> st.count,
                      pos |-> Bk(old.pos, st.pos), neg |-> Bk(old.neg, st.neg),
                      sumq |-> IF noSum THEN (IF keep THEN old.sumq ELSE 0) ELSE st.sumq,
                      min |-> IF noMinMax THEN (IF keep THEN old.min ELSE -2) ELSE st.min,
                      max |-> IF noMinMax THEN (IF keep THEN old.max ELSE -2) ELSE st.max]]

OProjE(r) ==
  IF ~r.present THEN [present |-> FALSE]
  ELSE LET p == OView(r.dp.pos.counts)
           q == OView(r.dp.neg.counts)
       IN [present |-> TRUE, scale |-> r.dp.scale,
           poff |-> IF p = <<>> THEN 0 ELSE r.dp.pos.off, pos |-> p,
           noff |-> IF q = <<>> THEN 0 ELSE r.dp.neg.off, neg |-> q,
           zero |-> r.dp.zero, count |-> r.dp.count, min |-> r.dp.min, max |-> r.dp.max, sumq |-> r.dp.sumq]
OWantE(st, noSum, noMinMax) ==
  IF ~st.live THEN [present |-> FALSE]
  ELSE [present |-> TRUE, scale |-> st.scale,
        poff |-> IF st.pos.c = <<>> THEN 0 ELSE st.pos.off, pos |-> st.pos.c,
        noff |-> IF st.neg.c = <<>> THEN 0 ELSE st.neg.off, neg |-> st.neg.c,
        zero |-> st.zero, count |-> st.count,
        min |-> IF noMinMax THEN -2 ELSE st.min, max |-> IF noMinMax THEN -2 ELSE st.max,
        sumq |-> IF noSum THEN 0 ELSE st.sumq]
ONoAliasE(r) == r.present => r.dp.pos.counts.mem # "agg" /\ r.dp.neg.counts.mem # "agg"

OReportIndepE(st, maxSize, noSum, noMinMax, V) ==
  \A d \in OPrevE(maxSize) :
     LET r == OReportE(st, d, noSum, noMinMax, V)
     IN OProjE(r) = OWantE(st, noSum, noMinMax) /\ ONoAliasE(r)

(* how the destination of a replayed Collect is chosen (the harness produces the previous    *)
(* occupant with the real SDK: a donor provider collected into the same ResourceMetrics)      *)
ODestClasses == {"fresh", "own", "same", "other"}
=============================================================================
