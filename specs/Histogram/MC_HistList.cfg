SPECIFICATION Spec
CONSTANTS
  CBounds <- MCCBounds
  RouteSet <- MCRouteSet
  ListVariant = "@LISTVARIANT@"
  Vals <- MCVals
  Cumulative = @CUMULATIVE@
  MaxSteps = @MAXSTEPS@
  NoSum = @NOSUM@
  NoMinMax = @NOMINMAX@
  OutVariant = "@VARIANT@"
VIEW View
INVARIANTS ListInv
CHECK_DEADLOCK FALSE
