SPECIFICATION Spec
CONSTANTS
  Vals <- MCVals
  MaxSize = @MAXSIZE@
  MaxScale <- MCMaxScale
  Cumulative = @CUMULATIVE@
  FixD1 = @FIXD1@
  MaxSteps = @MAXSTEPS@
  NoSum = @NOSUM@
  NoMinMax = @NOMINMAX@
  OutVariant = "@VARIANT@"
VIEW View
INVARIANTS ContractInv
CHECK_DEADLOCK FALSE
