----------------------------- MODULE Trace_Hist -----------------------------
(* code -> spec: validates data points collected from the real SDK against     *)
(* the contracts of ExpoModel / HistModel.  One scenario = the history of ONE   *)
(* stream as seen by ONE reader (one attribute set); the harness de-interleaves *)
(* richer executions (several readers, instruments, meters, attribute sets,     *)
(* shared and re-used destinations) into such scenarios.  Lines:                *)
(*   New{sc,cfg}   new scenario; cfg = [kind "expo"|"expl", maxsize, maxscale,   *)
(*                 cum, quant, bounds (ranks), nosum, nominmax]                  *)
(*   Rec{sc,vals}  abstract values of the measurements recorded since the last   *)
(*                 line                                                          *)
(*   Col{sc,obs,dest,fp}  projection of the data point a collection reported;    *)
(*                 dest = what the destination memory held before (information   *)
(*                 only: the contract must hold WHATEVER it held -- HistOutput's *)
(*                 ReportIndep on the real code); fp = fingerprint of the        *)
(*                 concrete point as reported                                    *)
(*   Chk{sc,k,fp}  fingerprint of the still live point object the k-th Col of the  *)
(*                 scenario reported, taken later (after further measurements    *)
(*                 and collections into OTHER destinations): a reported point    *)
(*                 never changes unless its own destination is handed to a       *)
(*                 collection again                                              *)
EXTENDS ExpoModel, HistModel, TraceKit

VARIABLES l, cfg, H, prev, fps
vars == <<l, cfg, H, prev, fps>>

Init == /\ l = 1
        /\ cfg = [kind |-> "none", maxsize |-> 1, maxscale |-> 20, cum |-> TRUE, quant |-> FALSE, bounds |-> <<>>,
                  nosum |-> FALSE, nominmax |-> FALSE]
        /\ H = <<>> /\ prev = 20 /\ fps = <<>>

TNew == /\ l <= Len(Trace) /\ Trace[l].ev = "New"
        /\ cfg' = Trace[l].cfg /\ H' = <<>> /\ prev' = EffMax(Trace[l].cfg.maxscale)
        /\ fps' = <<>>
        /\ l' = l + 1

TRec == /\ l <= Len(Trace) /\ Trace[l].ev = "Rec"
        /\ H' = H \o Trace[l].vals
        /\ l' = l + 1 /\ UNCHANGED <<cfg, prev, fps>>

TCol == /\ l <= Len(Trace) /\ Trace[l].ev = "Col"
        /\ LET o == Trace[l].obs
               \* MaxScale < -10 is outside the documented range: refusing the configuration
               \* (shape "rejected") conforms, and so does treating it as -10 (EffMax)
               refused == cfg.kind = "expo" /\ cfg.maxscale < MinScale /\ o.shape = "rejected"
               bad == IF refused THEN {}
                      ELSE IF cfg.kind = "expo"
                      THEN ExpoClauses(o, H, cfg.maxscale, cfg.maxsize, prev, cfg.quant, cfg.nosum, cfg.nominmax)
                      ELSE HistClauses(o, H, cfg.bounds, cfg.quant, cfg.nosum, cfg.nominmax)
               shape == IF o.shape # "ok" /\ ~refused THEN {"shape"} ELSE {}
           IN /\ (bad \cup shape # {}) =>
                    Viol([line |-> l, sc |-> Trace[l].sc, kind |-> cfg.kind, why |-> bad \cup shape,
                          dest |-> Trace[l].dest,
                          dropped |-> IF cfg.kind = "expo" THEN Len(H) - Len(Keep(H, cfg.maxsize)) ELSE 0,
                          excess |-> IF cfg.kind = "expo" /\ o.present
                                     THEN o.count - (o.zero + SumSeq(o.pos) + SumSeq(o.neg)) ELSE 0,
                          nvals |-> Len(H)])
              /\ prev' = IF cfg.kind = "expo" /\ cfg.cum /\ o.present THEN o.scale ELSE EffMax(cfg.maxscale)
        /\ fps' = Append(fps, Trace[l].fp)
        /\ H' = IF cfg.cum THEN H ELSE <<>>
        /\ l' = l + 1 /\ UNCHANGED cfg

TChk == /\ l <= Len(Trace) /\ Trace[l].ev = "Chk"
        /\ (Trace[l].k \notin 1..Len(fps) \/ Trace[l].fp # fps[Trace[l].k]) =>
              Viol([line |-> l, sc |-> Trace[l].sc, kind |-> cfg.kind, why |-> {"changed-after-report"},
                    dest |-> Trace[l].dest, dropped |-> 0, excess |-> 0, nvals |-> Len(H)])
        /\ l' = l + 1 /\ UNCHANGED <<cfg, H, prev, fps>>

TDone == l = Len(Trace) + 1 /\ Accepted(l) /\ UNCHANGED vars

Next == TNew \/ TRec \/ TCol \/ TChk \/ TDone
Spec == Init /\ [][Next]_vars
=============================================================================
