----------------------------- MODULE Trace_Hist -----------------------------
(* code -> spec: validates data points collected from the real SDK against     *)
(* the contracts of ExpoModel / HistModel.  One scenario = the history of ONE   *)
(* stream as seen by ONE reader (one attribute set); the harness de-interleaves *)
(* richer executions (several readers, instruments, meters, attribute sets,     *)
(* shared and re-used destinations) into such scenarios.  Lines:                *)
(*   New{sc,cfg}   new scenario; cfg = [kind "expo"|"expl", maxsize, maxscale,   *)
(*                 cum, quant, bounds (ranks), nosum, nominmax]                  *)
(*   Rec{sc,vals}  abstract values of the measurements recorded since the last   *)
(*                 line                                                          *)
(*   Col{sc,obs,dest,fp}  projection of the data point a collection reported;    *)
(*                 dest = what the destination memory held before (information   *)
(*                 only: the contract must hold WHATEVER it held -- HistOutput's *)
(*                 ReportIndep on the real code); fp = fingerprint of the        *)
(*                 concrete point as reported                                    *)
(*   Chk{sc,k,fp}  fingerprint of the still live point object the k-th Col of the  *)
(*                 scenario reported, taken later (after further measurements    *)
(*                 and collections into OTHER destinations): a reported point    *)
(*                 never changes unless its own destination is handed to a       *)
(*                 collection again                                              *)
EXTENDS ExpoModel, HistModel, TraceKit

VARIABLES l, cfg, H, prev, fps
vars == <<l, cfg, H, prev, fps>>

Init == /\ l = 1
        /\ cfg = [kind |-> "none", maxsize |-> 1, maxscale |-> 20, cum |-> TRUE, quant |-> FALSE, bounds |-> <<>>,
                  nosum |-> FALSE, nominmax |-> FALSE]
        /\ H = <<>> /\ prev = 20 /\ fps = <<>>

TNew == /\ l <= Len(Trace) /\ Trace[l].ev = "New"
        /\ cfg' = Trace[l].cfg /\ H' = <<>> /\ prev' = EffMax(Trace[l].cfg.maxscale)
        /\ fps' = <<>>
        /\ l' = l + 1

TRec == /\ l <= Len(Trace) /\ Trace[l].ev = "Rec"
        /\ H' = H \o Trace[l].vals
        /\ l' = l + 1 /\ UNCHANGED <<cfg, prev, fps>>

TCol == /\ l <= Len(Trace) /\ Trace[l].ev = "Col"
        /\ LET o == Trace[l].obs
               \* MaxScale < -10 is outside the documented range: refusing the configuration
               \* (shape "rejected") conforms, and so does treating it as -10 (EffMax)
               \* (the same for every parameter outside its documented range, whatever the route: ExpoOutOfRange)
               refused == cfg.kind = "expo" /\ ExpoOutOfRange(cfg.maxscale, cfg.maxsize) /\ o.shape = "rejected"
               \* explicit boundaries: the list AS CONFIGURED (any order; cfg.bounds in the older families, which only
               \* configure increasing lists), the route it took, the boundaries the reader falls back to
               cb == IF "cbounds" \in DOMAIN cfg THEN cfg.cbounds ELSE cfg.bounds
               fb == IF "fallback" \in DOMAIN cfg THEN cfg.fallback ELSE <<-1>>
               \* a list that is not strictly increasing may be refused (nothing reported / creation error)
               may == MayRefuse(IF "route" \in DOMAIN cfg THEN cfg.route ELSE "view", cb)
               refusedL == cfg.kind = "expl" /\ may /\ o.shape = "rejected"
               bad == IF refused \/ refusedL THEN {}
                      ELSE IF cfg.kind = "expo" /\ cfg.maxsize <= 0    \* accepted although no bucket may be held
                      THEN (IF o.present /\ Len(o.pos) + Len(o.neg) > 0 THEN {"too-many-buckets"} ELSE {})
                      ELSE IF cfg.kind = "expo"
                      THEN ExpoClauses(o, H, cfg.maxscale, cfg.maxsize, prev, cfg.quant, cfg.nosum, cfg.nominmax)
                      ELSE IF "bounds" \in DOMAIN o
                      THEN HistClausesL(o, H, cb, fb, may, cfg.quant, cfg.nosum, cfg.nominmax)
                      ELSE HistClauses(o, H, cfg.bounds, cfg.quant, cfg.nosum, cfg.nominmax)
               shape == IF o.shape # "ok" /\ ~refused /\ ~refusedL THEN {"shape"} ELSE {}
           IN /\ (bad \cup shape # {}) =>
                    Viol([line |-> l, sc |-> Trace[l].sc, kind |-> cfg.kind, why |-> bad \cup shape,
                          dest |-> Trace[l].dest,
                          route |-> IF "route" \in DOMAIN cfg THEN cfg.route ELSE "view",
                          list |-> IF cfg.kind = "expl" THEN ListClass(cb) ELSE "",
                          dropped |-> IF cfg.kind = "expo" THEN Len(H) - Len(Keep(H, cfg.maxsize)) ELSE 0,
                          excess |-> IF cfg.kind = "expo" /\ o.present
                                     THEN o.count - (o.zero + SumSeq(o.pos) + SumSeq(o.neg)) ELSE 0,
                          nvals |-> Len(H)])
              /\ prev' = IF cfg.kind = "expo" /\ cfg.cum /\ o.present THEN o.scale ELSE EffMax(cfg.maxscale)
        /\ fps' = Append(fps, Trace[l].fp)
        /\ H' = IF cfg.cum THEN H ELSE <<>>
        /\ l' = l + 1 /\ UNCHANGED cfg

TChk == /\ l <= Len(Trace) /\ Trace[l].ev = "Chk"
        /\ (Trace[l].k \notin 1..Len(fps) \/ Trace[l].fp # fps[Trace[l].k]) =>
              Viol([line |-> l, sc |-> Trace[l].sc, kind |-> cfg.kind, why |-> {"changed-after-report"},
                    dest |-> Trace[l].dest, dropped |-> 0, excess |-> 0, nvals |-> Len(H)])
        /\ l' = l + 1 /\ UNCHANGED <<cfg, H, prev, fps>>

TDone == l = Len(Trace) + 1 /\ Accepted(l) /\ UNCHANGED vars

Next == TNew \/ TRec \/ TCol \/ TChk \/ TDone
Spec == Init /\ [][Next]_vars
=============================================================================
