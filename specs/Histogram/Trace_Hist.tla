----------------------------- MODULE Trace_Hist -----------------------------
(* code -> spec: validates data points collected from the real SDK against     *)
(* the contracts of ExpoModel / HistModel.  Lines:                              *)
(*   New{sc,cfg}   fresh MeterProvider; cfg = [kind "expo"|"expl", maxsize,      *)
(*                 maxscale, cum, quant, bounds (ranks)]                         *)
(*   Rec{sc,vals}  abstract values of the measurements recorded since the last   *)
(*                 line                                                          *)
(*   Col{sc,obs}   projection of the data point returned by reader.Collect       *)
EXTENDS ExpoModel, HistModel, TraceKit

VARIABLES l, cfg, H, prev
vars == <<l, cfg, H, prev>>

Init == /\ l = 1
        /\ cfg = [kind |-> "none", maxsize |-> 1, maxscale |-> 20, cum |-> TRUE, quant |-> FALSE, bounds |-> <<>>]
        /\ H = <<>> /\ prev = 20

TNew == /\ l <= Len(Trace) /\ Trace[l].ev = "New"
        /\ cfg' = Trace[l].cfg /\ H' = <<>> /\ prev' = EffMax(Trace[l].cfg.maxscale)
        /\ l' = l + 1

TRec == /\ l <= Len(Trace) /\ Trace[l].ev = "Rec"
        /\ H' = H \o Trace[l].vals
        /\ l' = l + 1 /\ UNCHANGED <<cfg, prev>>

TCol == /\ l <= Len(Trace) /\ Trace[l].ev = "Col"
        /\ LET o == Trace[l].obs
               \* MaxScale < -10 is outside the documented range: refusing the configuration
               \* (shape "rejected") conforms, and so does treating it as -10 (EffMax)
               refused == cfg.kind = "expo" /\ cfg.maxscale < MinScale /\ o.shape = "rejected"
               bad == IF refused THEN {}
                      ELSE IF cfg.kind = "expo"
                      THEN ExpoClauses(o, H, cfg.maxscale, cfg.maxsize, prev, cfg.quant)
                      ELSE HistClauses(o, H, cfg.bounds, cfg.quant)
               shape == IF o.shape # "ok" /\ ~refused THEN {"shape"} ELSE {}
           IN /\ (bad \cup shape # {}) =>
                    Viol([line |-> l, sc |-> Trace[l].sc, kind |-> cfg.kind, why |-> bad \cup shape,
                          dropped |-> IF cfg.kind = "expo" THEN Len(H) - Len(Keep(H, cfg.maxsize)) ELSE 0,
                          excess |-> IF cfg.kind = "expo" /\ o.present
                                     THEN o.count - (o.zero + SumSeq(o.pos) + SumSeq(o.neg)) ELSE 0,
                          nvals |-> Len(H)])
              /\ prev' = IF cfg.kind = "expo" /\ cfg.cum /\ o.present THEN o.scale ELSE EffMax(cfg.maxscale)
        /\ H' = IF cfg.cum THEN H ELSE <<>>
        /\ l' = l + 1 /\ UNCHANGED cfg

TDone == l = Len(Trace) + 1 /\ Accepted(l) /\ UNCHANGED vars

Next == TNew \/ TRec \/ TCol \/ TDone
Spec == Init /\ [][Next]_vars
=============================================================================
