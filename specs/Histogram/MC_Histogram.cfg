SPECIFICATION Spec
CONSTANTS
  CBounds <- MCCBounds
  RouteSet <- MCRouteSet
  ListVariant = "@LISTVARIANT@"
  Vals <- MCVals
  Cumulative = @CUMULATIVE@
  MaxSteps = @MAXSTEPS@
  NoSum = @NOSUM@
  NoMinMax = @NOMINMAX@
  OutVariant = "@VARIANT@"
VIEW View
ACTION_CONSTRAINT EmitEdge
INVARIANTS Inv ListInv ReportIndep
PROPERTIES CountsGrow
CHECK_DEADLOCK FALSE
