SPECIFICATION Spec
CONSTANTS
  Bounds <- MCBounds
  Vals <- MCVals
  Cumulative = @CUMULATIVE@
  MaxSteps = @MAXSTEPS@
  NoSum = @NOSUM@
  NoMinMax = @NOMINMAX@
  OutVariant = "@VARIANT@"
VIEW View
ACTION_CONSTRAINT EmitEdge
INVARIANTS Inv ReportIndep
PROPERTIES CountsGrow
CHECK_DEADLOCK FALSE
