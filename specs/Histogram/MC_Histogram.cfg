SPECIFICATION Spec
CONSTANTS
  Bounds <- MCBounds
  Vals <- MCVals
  Cumulative = @CUMULATIVE@
  MaxSteps = @MAXSTEPS@
VIEW View
ACTION_CONSTRAINT EmitEdge
INVARIANT Inv
PROPERTIES CountsGrow
CHECK_DEADLOCK FALSE
