-------------------------- MODULE MC_ExpoHistogram --------------------------
EXTENDS ExpoHistogram
MCVals == @VALS@
MCMaxScale == @MAXSCALE@      \* may be negative: not expressible in a cfg file
=============================================================================
