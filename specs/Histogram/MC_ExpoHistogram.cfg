SPECIFICATION Spec
CONSTANTS
  Vals <- MCVals
  MaxSize = @MAXSIZE@
  MaxScale = @MAXSCALE@
  Cumulative = @CUMULATIVE@
  FixD1 = @FIXD1@
  MaxSteps = @MAXSTEPS@
VIEW View
ACTION_CONSTRAINT EmitEdge
INVARIANTS ImplIsRef RefOK SizeBound
PROPERTIES ScaleMonotone
CHECK_DEADLOCK FALSE
