SPECIFICATION Spec
CONSTANTS
  Vals <- MCVals
  MaxSize = @MAXSIZE@
  MaxScale <- MCMaxScale
  Cumulative = @CUMULATIVE@
  FixD1 = @FIXD1@
  MaxSteps = @MAXSTEPS@
  NoSum = @NOSUM@
  NoMinMax = @NOMINMAX@
  OutVariant = "@VARIANT@"
VIEW View
ACTION_CONSTRAINT EmitEdge
INVARIANTS ImplIsRef RefOK SizeBound ReportIndep
PROPERTIES ScaleMonotone
CHECK_DEADLOCK FALSE
