------------------------------ MODULE HistModel ------------------------------
(* Explicit-bucket histogram data points (C07): WHAT a correct point holds.    *)
(* Boundaries and measurements are abstracted order-isomorphically to integer  *)
(* ranks (the harness ranks all distinct boundaries and values of a scenario   *)
(* with exact comparisons), which is exact for everything the statement says   *)
(* about placement, minimum and maximum.  value record: [r |-> rank, p |-> rank *)
(* used for placement (= r; for an int64 measurement the rank of its float64   *)
(* conversion, boundaries being doubles), k |-> v / quantum in quantised       *)
(* scenarios (exact sum), else 0].                                             *)
EXTENDS Integers, Sequences, FiniteSets

HSetMax(S) == CHOOSE x \in S : \A y \in S : y <= x
HSetMin(S) == CHOOSE x \in S : \A y \in S : x <= y
RECURSIVE HSumSeq(_)
HSumSeq(q) == IF q = <<>> THEN 0 ELSE Head(q) + HSumSeq(Tail(q))
RECURSIVE HSumK(_)
HSumK(vals) == IF vals = <<>> THEN 0 ELSE Head(vals).k + HSumK(Tail(vals))

(* bounds: strictly increasing sequence of ranks.  Buckets (1-based):            *)
(*   1: (-inf, bounds[1]]   t: (bounds[t-1], bounds[t]]   Len+1: (bounds[Len], +inf) *)
Bucket(bounds, r) == Cardinality({j \in 1..Len(bounds) : bounds[j] < r}) + 1

(* the statement's wording of the same thing, used to cross-check Bucket *)
InBucket(bounds, r, t) == /\ (t = 1 \/ bounds[t - 1] < r)
                          /\ (t = Len(bounds) + 1 \/ r <= bounds[t])

HAbsent == [present |-> FALSE, nb |-> 0, counts |-> <<>>, count |-> 0, min |-> -1, max |-> -1, sumq |-> 0]

HistPoint(H, bounds) ==
  IF H = <<>> THEN HAbsent
  ELSE [present |-> TRUE, nb |-> Len(bounds),
        counts |-> [t \in 1..(Len(bounds) + 1) |-> Cardinality({j \in 1..Len(H) : Bucket(bounds, H[j].p) = t})],
        count |-> Len(H),
        min |-> HSetMin({H[j].r : j \in 1..Len(H)}),
        max |-> HSetMax({H[j].r : j \in 1..Len(H)}),
        sumq |-> HSumK(H)]

(* clauses of the statement broken by an observed point o (o.nb = number of boundaries the
   point reports, o.boundsok = they are the configured ones).  A stream configured not to
   collect extrema (NoMinMax) must report none (-2 = not reported: a reported minimum has to be
   the exact minimum); one that collects no sum (instrument kinds that may record negative
   values) reports the zero value (o.sumz). *)
HistClauses(o, H, bounds, quant, nosum, nominmax) ==
  IF H = <<>> THEN (IF o.present THEN {"present"} ELSE {})
  ELSE IF ~o.present THEN {"absent"}
  ELSE LET p == HistPoint(H, bounds) IN
       (IF Len(o.counts) # o.nb + 1 THEN {"buckets-len"} ELSE {})
       \cup (IF ~o.boundsok THEN {"bounds"} ELSE {})
       \cup (IF o.count # HSumSeq(o.counts) THEN {"count-sum"} ELSE {})
       \cup (IF o.counts # p.counts THEN {"placement"} ELSE {})
       \cup (IF o.count # p.count THEN {"count"} ELSE {})
       \cup (IF o.min # (IF nominmax THEN -2 ELSE p.min) THEN {"min"} ELSE {})
       \cup (IF o.max # (IF nominmax THEN -2 ELSE p.max) THEN {"max"} ELSE {})
       \cup (IF nosum THEN (IF ~o.sumz THEN {"sum"} ELSE {})
             ELSE IF quant THEN (IF o.sumq # p.sumq THEN {"sum"} ELSE {})
             ELSE (IF ~o.sumok THEN {"sum"} ELSE {}))
(* ---- boundary LISTS and configuration ROUTES (an input class of its own) -------------------- *)
(* The statement quantifies over "all boundary lists"; only some routes by which a list reaches   *)
(* the aggregator validate it (NewView mask, the reader's aggregation selector, the instrument's  *)
(* advisory boundaries); a hand-written view function and aggregate.Builder hand it over as it    *)
(* is.  Whatever the route and the order of the configured list cb, the clauses hold for the      *)
(* boundaries AS REPORTED in the point (o.bounds, ranks): they are ordered (otherwise the         *)
(* buckets (lower, upper] overlap and "the bucket of a value" is not defined), they are the       *)
(* configured boundaries (each at most as often as configured: keeping or dropping a duplicate    *)
(* are both fine), and every value is counted in the bucket they define.                          *)
NonDecreasing(b) == \A j \in 1..(Len(b) - 1) : b[j] <= b[j + 1]
StrictlyIncreasing(b) == \A j \in 1..(Len(b) - 1) : b[j] < b[j + 1]
BRange(b) == {b[j] : j \in 1..Len(b)}
BMult(b, x) == Cardinality({j \in 1..Len(b) : b[j] = x})
RECURSIVE SortFrom(_, _)
SortFrom(b, S) == IF S = {} THEN <<>>
                  ELSE LET m == HSetMin(S) IN [j \in 1..BMult(b, m) |-> m] \o SortFrom(b, S \ {m})
SortSeq(b) == SortFrom(b, BRange(b))          \* the non-decreasing arrangement, multiplicities kept
ListClass(b) == IF StrictlyIncreasing(b) THEN "increasing"
                ELSE IF Cardinality(BRange(b)) < Len(b) THEN (IF NonDecreasing(b) THEN "duplicates" ELSE "duplicates-unordered")
                ELSE IF \A j \in 1..(Len(b) - 1) : b[j] > b[j + 1] THEN "reversed" ELSE "shuffled"

Routes == {"view", "viewfunc", "selector", "advisory"}   \* (+ aggregate.Builder, which "viewfunc" reaches unmodified)
Validating(rt) == rt # "viewfunc"
(* a validating route documents that it does not use a list that is not strictly increasing (the  *)
(* stream then gets the reader's default aggregation: fb, the default boundaries)                 *)
Refuses(rt, cb) == Validating(rt) /\ ~StrictlyIncreasing(cb)

BoundsKept(ob, cb) == /\ BRange(ob) = BRange(cb)
                      /\ \A x \in BRange(cb) : BMult(ob, x) <= BMult(cb, x)
(* refusing a list that is not strictly increasing is a conforming answer on every route; advisory *)
(* boundaries are a hint, and an empty hint may be read as no hint                                *)
MayRefuse(rt, cb) == ~StrictlyIncreasing(cb) \/ (rt = "advisory" /\ cb = <<>>)

(* HistClauses for a point that carries its boundaries (o.bounds) and a configuration given as the *)
(* list as configured (cb): placement is judged against the REPORTED boundaries when they are      *)
(* ordered, else against the configured ones in order.  A refused configuration (may) is refused   *)
(* as a whole: the stream then has the reader's default aggregation (boundaries fb, extrema        *)
(* collected).                                                                                    *)
HistClausesL(o, H, cb, fb, may, quant, nosum, nominmax) ==
  LET ord == NonDecreasing(o.bounds)
      kept == BoundsKept(o.bounds, cb)
      fell == ~kept /\ may /\ o.bounds = fb
      o2 == [o EXCEPT !.nb = Len(o.bounds), !.boundsok = kept \/ fell]
  IN HistClauses(o2, H, IF ord THEN o.bounds ELSE SortSeq(cb), quant, nosum, nominmax /\ ~fell)
       \cup (IF H # <<>> /\ o.present /\ ~ord THEN {"bounds-order"} ELSE {})
=============================================================================
