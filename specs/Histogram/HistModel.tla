------------------------------ MODULE HistModel ------------------------------
(* Explicit-bucket histogram data points (C07): WHAT a correct point holds.    *)
(* Boundaries and measurements are abstracted order-isomorphically to integer  *)
(* ranks (the harness ranks all distinct boundaries and values of a scenario   *)
(* with exact comparisons), which is exact for everything the statement says   *)
(* about placement, minimum and maximum.  value record: [r |-> rank, p |-> rank *)
(* used for placement (= r; for an int64 measurement the rank of its float64   *)
(* conversion, boundaries being doubles), k |-> v / quantum in quantised       *)
(* scenarios (exact sum), else 0].                                             *)
EXTENDS Integers, Sequences, FiniteSets

HSetMax(S) == CHOOSE x \in S : \A y \in S : y <= x
HSetMin(S) == CHOOSE x \in S : \A y \in S : x <= y
RECURSIVE HSumSeq(_)
HSumSeq(q) == IF q = <<>> THEN 0 ELSE Head(q) + HSumSeq(Tail(q))
RECURSIVE HSumK(_)
HSumK(vals) == IF vals = <<>> THEN 0 ELSE Head(vals).k + HSumK(Tail(vals))

(* bounds: strictly increasing sequence of ranks.  Buckets (1-based):            *)
(*   1: (-inf, bounds[1]]   t: (bounds[t-1], bounds[t]]   Len+1: (bounds[Len], +inf) *)
Bucket(bounds, r) == Cardinality({j \in 1..Len(bounds) : bounds[j] < r}) + 1

(* the statement's wording of the same thing, used to cross-check Bucket *)
InBucket(bounds, r, t) == /\ (t = 1 \/ bounds[t - 1] < r)
                          /\ (t = Len(bounds) + 1 \/ r <= bounds[t])

HAbsent == [present |-> FALSE, nb |-> 0, counts |-> <<>>, count |-> 0, min |-> -1, max |-> -1, sumq |-> 0]

HistPoint(H, bounds) ==
  IF H = <<>> THEN HAbsent
  ELSE [present |-> TRUE, nb |-> Len(bounds),
        counts |-> [t \in 1..(Len(bounds) + 1) |-> Cardinality({j \in 1..Len(H) : Bucket(bounds, H[j].p) = t})],
        count |-> Len(H),
        min |-> HSetMin({H[j].r : j \in 1..Len(H)}),
        max |-> HSetMax({H[j].r : j \in 1..Len(H)}),
        sumq |-> HSumK(H)]

(* clauses of the statement broken by an observed point o (o.nb = number of boundaries the
   point reports, o.boundsok = they are the configured ones).  A stream configured not to
   collect extrema (NoMinMax) must report none (-2 = not reported: a reported minimum has to be
   the exact minimum); one that collects no sum (instrument kinds that may record negative
   values) reports the zero value (o.sumz). *)
HistClauses(o, H, bounds, quant, nosum, nominmax) ==
  IF H = <<>> THEN (IF o.present THEN {"present"} ELSE {})
  ELSE IF ~o.present THEN {"absent"}
  ELSE LET p == HistPoint(H, bounds) IN
       (IF Len(o.counts) # o.nb + 1 THEN {"buckets-len"} ELSE {})
       \cup (IF ~o.boundsok THEN {"bounds"} ELSE {})
       \cup (IF o.count # HSumSeq(o.counts) THEN {"count-sum"} ELSE {})
       \cup (IF o.counts # p.counts THEN {"placement"} ELSE {})
       \cup (IF o.count # p.count THEN {"count"} ELSE {})
       \cup (IF o.min # (IF nominmax THEN -2 ELSE p.min) THEN {"min"} ELSE {})
       \cup (IF o.max # (IF nominmax THEN -2 ELSE p.max) THEN {"max"} ELSE {})
       \cup (IF nosum THEN (IF ~o.sumz THEN {"sum"} ELSE {})
             ELSE IF quant THEN (IF o.sumq # p.sumq THEN {"sum"} ELSE {})
             ELSE (IF ~o.sumok THEN {"sum"} ELSE {}))
=============================================================================
