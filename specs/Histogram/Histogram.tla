------------------------------ MODULE Histogram ------------------------------
(* State machine over HistModel for exhaustive exploration by TLC (C07,        *)
(* explicit-bucket part): every sequence of <= MaxSteps Record / Collect       *)
(* operations over Vals for the boundary list Bounds.  Every edge is printed   *)
(* and replayed on the real SDK (several concretizations of the ranks).        *)
(* Collect names the class of destination memory it writes into (HistOutput):  *)
(* the reported point must not depend on it (ReportIndep, checked for every     *)
(* explored accumulator state x every previous occupant of the slot).           *)
EXTENDS HistModel, HistOutput, TLC, Json

CONSTANTS Bounds,      \* strictly increasing sequence of ranks
          Vals,        \* sequence of abstract values [r, p, k]
          Cumulative, MaxSteps,
          NoSum,       \* the stream collects no sum (UpDownCounter / Gauge instrument kinds)
          NoMinMax,    \* AggregationExplicitBucketHistogram.NoMinMax
          OutVariant   \* "code", or a named faulty output path (HistOutput)

VARIABLES hist, steps, act
vars == <<hist, steps, act>>

HVals(h) == [i \in 1..Len(h) |-> Vals[h[i]]]
Raw(h) == HistPoint(HVals(h), Bounds)
(* what a reader reports for the accumulator, given what the stream collects *)
Flag(p) == IF ~p.present THEN p
           ELSE [p EXCEPT !.min = IF NoMinMax THEN -2 ELSE @, !.max = IF NoMinMax THEN -2 ELSE @,
                          !.sumq = IF NoSum THEN 0 ELSE @]
Pt(h) == Flag(Raw(h))

Init == hist = <<>> /\ steps = 0 /\ act = [op |-> "Init", i |-> 0, d |-> ""]

Record == \E i \in 1..Len(Vals) :
            /\ steps < MaxSteps
            /\ hist' = Append(hist, i)
            /\ steps' = steps + 1
            /\ act' = [op |-> "Record", i |-> i, d |-> ""]

Collect == \E d \in ODestClasses :
           /\ steps < MaxSteps
           /\ steps' = steps + 1
           /\ act' = [op |-> "Collect", i |-> 0, d |-> d]
           /\ hist' = IF Cumulative THEN hist ELSE <<>>

Next == Record \/ Collect
Spec == Init /\ [][Next]_vars

View == <<hist, steps>>
EdgeState(h, n) == [hist |-> h, steps |-> n, pt |-> Pt(h)]
EmitEdge == PrintT("EDGE " \o ToJson([from |-> EdgeState(hist, steps), act |-> act', to |-> EdgeState(hist', steps')]))

(* the statement on the model point *)
Inv == LET p == Pt(hist) H == HVals(hist) IN
       /\ HistClauses(p @@ [boundsok |-> TRUE, sumz |-> p.sumq = 0], H, Bounds, TRUE, NoSum, NoMinMax) = {}
       /\ p.present =>
            /\ Len(p.counts) = Len(Bounds) + 1
            /\ HSumSeq(p.counts) = p.count
            /\ \A j \in 1..Len(H) : InBucket(Bounds, H[j].p, Bucket(Bounds, H[j].p))
            /\ \A j \in 1..Len(H) : \A t \in 1..(Len(Bounds) + 1) :
                   InBucket(Bounds, H[j].p, t) => t = Bucket(Bounds, H[j].p)
            /\ ~NoMinMax => \A j \in 1..Len(H) : p.min <= H[j].r /\ H[j].r <= p.max
(* the reported point is a function of the accumulator only, whatever the destination held *)
ReportIndep == OReportIndepH(Raw(hist), Bounds, NoSum, NoMinMax, OutVariant)
CountsGrow == [][(act'.op = "Record" /\ hist # <<>>) =>
                   \A t \in 1..(Len(Bounds) + 1) : Pt(hist').counts[t] >= Pt(hist).counts[t]]_vars
=============================================================================
