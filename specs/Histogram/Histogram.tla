------------------------------ MODULE Histogram ------------------------------
(* State machine over HistModel for exhaustive exploration by TLC (C07,        *)
(* explicit-bucket part): every sequence of <= MaxSteps Record / Collect       *)
(* operations over Vals for the boundary list Bounds.  Every edge is printed   *)
(* and replayed on the real SDK (several concretizations of the ranks).        *)
(* Collect names the class of destination memory it writes into (HistOutput):  *)
(* the reported point must not depend on it (ReportIndep, checked for every     *)
(* explored accumulator state x every previous occupant of the slot).           *)
EXTENDS HistModel, HistOutput, TLC, Json

CONSTANTS CBounds,     \* the boundary list AS CONFIGURED: ranks in any order, duplicates allowed
          RouteSet,    \* the routes (HistModel!Routes) by which the list reaches the aggregator in this run
          ListVariant, \* "code" (histogram.go: private sorted copy), or the named faulty "nosort"
          Vals,        \* sequence of abstract values [r, p, k]
          Cumulative, MaxSteps,
          NoSum,       \* the stream collects no sum (UpDownCounter / Gauge instrument kinds)
          NoMinMax,    \* AggregationExplicitBucketHistogram.NoMinMax
          OutVariant   \* "code", or a named faulty output path (HistOutput)

VARIABLES hist, steps, route, act
vars == <<hist, steps, route, act>>

ASSUME /\ RouteSet \subseteq Routes
       /\ \A rt \in RouteSet : ~Refuses(rt, CBounds)   \* refused lists: judged by trace validation only
(* what every route that accepts the list has to aggregate by *)
Bounds == SortSeq(CBounds)

(* histogram.go next to the reference: newHistValues keeps a private copy of the list (sorted), *)
(* measure() finds the bucket with sort.SearchFloat64s (binary search for the first boundary    *)
(* >= value), the point reports the copy.                                                       *)
Used == IF ListVariant = "nosort" THEN CBounds ELSE SortSeq(CBounds)
RECURSIVE BSearch(_, _, _, _)
BSearch(b, r, i, j) == IF i >= j THEN i
                       ELSE LET h == (i + j) \div 2 IN
                            IF ~(b[h + 1] >= r) THEN BSearch(b, r, h + 1, j) ELSE BSearch(b, r, i, h)
ImplBucket(r) == BSearch(Used, r, 0, Len(Used)) + 1

HVals(h) == [i \in 1..Len(h) |-> Vals[h[i]]]
Raw(h) == HistPoint(HVals(h), Bounds)
(* what a reader reports for the accumulator, given what the stream collects *)
Flag(p) == IF ~p.present THEN p
           ELSE [p EXCEPT !.min = IF NoMinMax THEN -2 ELSE @, !.max = IF NoMinMax THEN -2 ELSE @,
                          !.sumq = IF NoSum THEN 0 ELSE @]
Pt(h) == Flag(Raw(h))

Init == hist = <<>> /\ steps = 0 /\ route = "none" /\ act = [op |-> "Init", i |-> 0, d |-> "", rt |-> ""]

(* the provider is built: the aggregation reaches the stream by one of the routes *)
Configure == \E rt \in RouteSet :
            /\ route = "none"
            /\ route' = rt
            /\ act' = [op |-> "Configure", i |-> 0, d |-> "", rt |-> rt]
            /\ UNCHANGED <<hist, steps>>

Record == \E i \in 1..Len(Vals) :
            /\ steps < MaxSteps /\ route # "none"
            /\ hist' = Append(hist, i)
            /\ steps' = steps + 1
            /\ act' = [op |-> "Record", i |-> i, d |-> "", rt |-> ""]
            /\ UNCHANGED route

Collect == \E d \in ODestClasses :
           /\ steps < MaxSteps /\ route # "none"
           /\ steps' = steps + 1
           /\ act' = [op |-> "Collect", i |-> 0, d |-> d, rt |-> ""]
           /\ hist' = IF Cumulative THEN hist ELSE <<>>
           /\ UNCHANGED route

Next == Configure \/ Record \/ Collect
Spec == Init /\ [][Next]_vars

View == <<hist, steps, route>>
EdgeState(h, n, rt) == [hist |-> h, steps |-> n, route |-> rt, pt |-> Pt(h)]
EmitEdge == PrintT("EDGE " \o ToJson([from |-> EdgeState(hist, steps, route), act |-> act',
                                      to |-> EdgeState(hist', steps', route')]))

(* the statement on the model point *)
Inv == LET p == Pt(hist) H == HVals(hist) IN
       /\ HistClauses(p @@ [boundsok |-> TRUE, sumz |-> p.sumq = 0], H, Bounds, TRUE, NoSum, NoMinMax) = {}
       /\ p.present =>
            /\ Len(p.counts) = Len(Bounds) + 1
            /\ HSumSeq(p.counts) = p.count
            /\ \A j \in 1..Len(H) : InBucket(Bounds, H[j].p, Bucket(Bounds, H[j].p))
            /\ \A j \in 1..Len(H) : \A t \in 1..(Len(Bounds) + 1) :
                   InBucket(Bounds, H[j].p, t) => t = Bucket(Bounds, H[j].p)
            /\ ~NoMinMax => \A j \in 1..Len(H) : p.min <= H[j].r /\ H[j].r <= p.max
(* the statement on what histogram.go computes for the list AS CONFIGURED (any order, duplicates), whatever the route:
   the point reports the boundaries it used, ordered, and they are the configured ones; binary search over them puts every
   value into its (lower, upper] bucket *)
ImplObs == LET H == HVals(hist) p == Pt(hist) IN
           IF ~p.present THEN p @@ [bounds |-> <<>>, boundsok |-> TRUE, sumz |-> TRUE]
           ELSE [p EXCEPT !.counts = [t \in 1..(Len(Used) + 1) |-> Cardinality({j \in 1..Len(H) : ImplBucket(H[j].p) = t})]]
                  @@ [bounds |-> Used, boundsok |-> TRUE, sumz |-> p.sumq = 0]
ListInv == HistClausesL(ImplObs, HVals(hist), CBounds, <<>>, FALSE, TRUE, NoSum, NoMinMax) = {}
(* the reported point is a function of the accumulator only, whatever the destination held *)
ReportIndep == OReportIndepH(Raw(hist), Bounds, NoSum, NoMinMax, OutVariant)
CountsGrow == [][(act'.op = "Record" /\ hist # <<>>) =>
                   \A t \in 1..(Len(Bounds) + 1) : Pt(hist').counts[t] >= Pt(hist).counts[t]]_vars
=============================================================================
