-------------------------------- MODULE SSP --------------------------------
(* Simple span processor (sdk/trace/simple_span_processor.go): growth of the   *)
(* C01 family beyond the batch processor.  OnEnd exports synchronously under   *)
(* exporterMu; Shutdown (sync.Once) takes the exporter away under the same     *)
(* lock and shuts it down outside the lock.  The same API-level contract as    *)
(* the batch processor applies (BSPContract with cfg.kind = "simple").         *)
EXTENDS Naturals, Sequences, FiniteSets, TLC

CONSTANTS Producers, SpansPer, Stoppers

VARIABLES mu,        \* exporterMu holder or "none"
          exporter,  \* "set" | "nil"
          pc, pidx, mon
vars == <<mu, exporter, pc, pidx, mon>>
Ids == Producers \X (1..SpansPer)
Procs == Producers \cup Stoppers

Init == /\ mu = "none" /\ exporter = "set"
        /\ pc = [x \in Procs |-> "idle"] /\ pidx = [p \in Producers |-> 1]
        /\ mon = [handed |-> [id \in Ids |-> 0], inflight |-> 0, returnedEnd |-> {}, raced |-> {},
                  snapS |-> [s \in Stoppers |-> {}], sdCalled |-> FALSE, sdRet |-> FALSE,
                  expShutdowns |-> 0, bad |-> {}]
Go(x, l) == pc' = [pc EXCEPT ![x] = l]

PCall(p) == pc[p] = "idle" /\ pidx[p] <= SpansPer /\ Go(p, "lock") /\ UNCHANGED <<mu, exporter, pidx, mon>>
PLock(p) == /\ pc[p] = "lock" /\ mu = "none" /\ mu' = p
            /\ IF exporter = "set"
                 THEN /\ Go(p, "exporting")
                      /\ mon' = [mon EXCEPT !.handed[<<p, pidx[p]>>] = @ + 1, !.inflight = @ + 1,
                                   !.bad = @ \cup (IF mon.inflight > 0 THEN {"concurrent-export"} ELSE {})
                                             \cup (IF mon.sdRet THEN {"export-after-shutdown"} ELSE {})]
                 ELSE Go(p, "unlock") /\ UNCHANGED mon
            /\ UNCHANGED <<exporter, pidx>>
PExpEnd(p) == pc[p] = "exporting" /\ Go(p, "unlock") /\ mon' = [mon EXCEPT !.inflight = @ - 1]
              /\ UNCHANGED <<mu, exporter, pidx>>
PUnlock(p) == pc[p] = "unlock" /\ mu' = "none" /\ Go(p, "ret") /\ UNCHANGED <<exporter, pidx, mon>>
PRet(p) == /\ pc[p] = "ret" /\ Go(p, "idle") /\ pidx' = [pidx EXCEPT ![p] = @ + 1]
           /\ mon' = [mon EXCEPT !.returnedEnd = @ \cup {<<p, pidx[p]>>},
                                 !.raced = IF mon.sdCalled THEN @ \cup {<<p, pidx[p]>>} ELSE @]
           /\ UNCHANGED <<mu, exporter>>

SCall(s) == /\ pc[s] = "idle"
            /\ mon' = [mon EXCEPT !.snapS[s] = mon.returnedEnd, !.sdCalled = TRUE]
            /\ Go(s, IF \E o \in Stoppers : pc[o] \notin {"idle", "oncewait"} THEN "oncewait" ELSE "lock")
            /\ UNCHANGED <<mu, exporter, pidx>>
SLock(s) == pc[s] = "lock" /\ mu = "none" /\ mu' = s /\ Go(s, "take") /\ UNCHANGED <<exporter, pidx, mon>>
STake(s) == pc[s] = "take" /\ exporter' = "nil" /\ mu' = "none" /\ Go(s, "expshut") /\ UNCHANGED <<pidx, mon>>
SExpShut(s) == /\ pc[s] = "expshut" /\ Go(s, "ret")
               /\ mon' = [mon EXCEPT !.expShutdowns = @ + 1,
                                     !.bad = @ \cup (IF mon.inflight > 0 THEN {"exporter-shutdown-during-export"} ELSE {})]
               /\ UNCHANGED <<mu, exporter, pidx>>
SOnceWait(s) == pc[s] = "oncewait" /\ (\E o \in Stoppers : pc[o] = "done") /\ Go(s, "ret")
                /\ UNCHANGED <<mu, exporter, pidx, mon>>
(* spans whose End returned after a Shutdown call had begun may have found the exporter gone: they are
   legitimately ignored, so only spans ended before ANY Shutdown call are owed to a later caller *)
SRet(s) == /\ pc[s] = "ret" /\ Go(s, "done")
           /\ mon' = [mon EXCEPT !.sdRet = TRUE,
                 !.bad = @ \cup (IF {id \in mon.snapS[s] \ mon.raced : mon.handed[id] = 0} # {} THEN {"shutdown-missed"} ELSE {})]
           /\ UNCHANGED <<mu, exporter, pidx>>

Next == \/ \E p \in Producers : PCall(p) \/ PLock(p) \/ PExpEnd(p) \/ PUnlock(p) \/ PRet(p)
        \/ \E s \in Stoppers : SCall(s) \/ SLock(s) \/ STake(s) \/ SExpShut(s) \/ SOnceWait(s) \/ SRet(s)
Spec == Init /\ [][Next]_vars
FairSpec == Spec /\ \A p \in Producers : WF_vars(PLock(p) \/ PExpEnd(p) \/ PUnlock(p) \/ PRet(p))
                 /\ \A s \in Stoppers : WF_vars(SLock(s) \/ STake(s) \/ SExpShut(s) \/ SOnceWait(s) \/ SRet(s))

NoDup == \A id \in Ids : mon.handed[id] <= 1
Contract == mon.bad = {}
ExporterShutdownOnce == mon.expShutdowns <= 1
(* a span whose End returned before any Shutdown call began was exported (synchronous export) *)
EndedIsExported == \A id \in mon.returnedEnd \ mon.raced : mon.handed[id] = 1
Termination == /\ \A p \in Producers : (pc[p] = "lock") ~> (pc[p] = "idle")
               /\ \A s \in Stoppers : (pc[s] \in {"lock", "oncewait"}) ~> (pc[s] = "done")
=============================================================================
