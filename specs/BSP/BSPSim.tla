------------------------------- MODULE BSPSim -------------------------------
(* spec -> code: TLC -simulate over BSP with a history of gate releases.         *)
(* A real goroutine that has performed an action waits at the instrumentation    *)
(* point that follows it (a verif hook, the exporter entry, or the harness gate  *)
(* before a call) until the scheduler lets it pass; what it does next is its     *)
(* next action.  So each simulated action of process P appends the key of the    *)
(* gate P is currently waiting at (last[P]) -- "release P now" -- and records    *)
(* the gate P will reach after the action.  The Go harness replays the key       *)
(* sequence with vh.Sched.  Steps without a gate in front of them (last = "")    *)
(* cannot be steered and happen when the Go scheduler pleases.                   *)
(*                                                                               *)
(* Environment actions are part of the script: the k-th ExportSpans call answers *)
(* outs[k] (the recording exporter of the harness is told the list), and         *)
(* CtxExpire(c) is the entry "c@ctx.expire/<gate c waits at>" executed by a      *)
(* canceller goroutine of the harness once c has arrived at that gate.           *)
(* The batch timer is not a gate (Go's select chooses): with TimerSim the        *)
(* harness runs a tiny BatchTimeout and WTimer is taken only while the queue is  *)
(* empty, where the real worker has nothing else to do until the timer fires --  *)
(* the timer-triggered export then shows up at the exporter's natural gate.      *)
EXTENDS BSP, Json

CONSTANT TimerSim
VARIABLES hist, last, outs, fin
svars == <<vars, hist, last, outs, fin>>

H(f) == "h" \o f                  \* the export helper goroutine of flusher f
HS == "hs"                        \* the helper goroutine of the Shutdown body
SimProcs == Procs \cup {H(f) : f \in Flushers} \cup {HS}

SK(p) == p \o ":" \o ToString(pidx[p])
SKn(p) == p \o ":" \o ToString(pidx[p] + 1)
IdK(id) == id[1] \o ":" \o ToString(id[2])
(* release x from its current gate; afterwards it will wait at `after` ("" = no gate) *)
Rel(x, after) == /\ hist' = (IF last[x] = "" THEN hist ELSE Append(hist, last[x]))
                 /\ last' = [last EXCEPT ![x] = after]
                 /\ UNCHANGED <<fin, outs>>
(* a helper goroutine h takes its first step: its parent x must have been released from its gate *)
Rel2(x, h, after) == /\ hist' = (IF last[x] = "" THEN hist ELSE Append(hist, last[x]))
                     /\ last' = [last EXCEPT ![x] = "", ![h] = after]
                     /\ UNCHANGED <<fin, outs>>
(* the exporter returns: release it from its gate and fix the answer of this export *)
RelOut(x, o) == /\ hist' = (IF last[x] = "" THEN hist ELSE Append(hist, last[x]))
                /\ last' = [last EXCEPT ![x] = ""]
                /\ outs' = Append(outs, o) /\ UNCHANGED fin
Keep == UNCHANGED <<hist, last, outs, fin>>

PEnqKey(p) == IF queue' # queue THEN "@bsp.enq.sent" ELSE IF dropped' # dropped THEN "@bsp.enq.dropped" ELSE "@bsp.enq.stopped"
FEnqKey(f) == IF queue' # queue THEN f \o "@bsp.ff.marker" ELSE IF pc'[f] = "ret" THEN f \o "@bsp.ff.stopch" ELSE ""

SimNext ==
  \/ \E p \in Producers :
        \/ PCall(p) /\ Keep
        \/ PCheck(p) /\ Rel(p, SK(p) \o (IF stopped THEN "@bsp.onend.ignored" ELSE "@bsp.onend.checked"))
        \/ PEnq(p) /\ Rel(p, SK(p) \o PEnqKey(p))
        \/ PRet(p) /\ Rel(p, SKn(p) \o "@call")
  \/ WStop /\ Rel("w", "")
  \/ TimerSim /\ queue = <<>> /\ WTimer /\ Rel("w", "")
  \/ WDeq /\ (IF Head(queue).t = "marker" THEN Rel("w", "")
              ELSE Rel("w", (IF pc["w"] = "select" THEN "w@bsp.worker.dequeued:" ELSE "w@bsp.drain.dequeued:") \o IdK(Head(queue).id)))
  \/ WAppend /\ Rel("w", IF pc["w"] = "append" THEN "w@bsp.worker.appended:" \o IdK(wtmp) ELSE "")
  \/ WDrainEmpty /\ Rel("w", "w@bsp.drain.empty")
  \/ WExpLock /\ Rel("w", IF batch = <<>> THEN "" ELSE "x@exp.begin")
  \/ \E o \in Outcomes : WExpEnd(o) /\ RelOut("w", o)
  \/ \E f \in Flushers :
        \/ FCall(f) /\ Keep
        \/ FCheck(f) /\ Rel(f, IF f \in expired THEN "" ELSE f \o (IF stopped THEN "@bsp.ff.stopped" ELSE "@bsp.ff.checked"))
        \/ FEnq(f) /\ Rel(f, FEnqKey(f))
        \/ FWaitStop(f) /\ Rel(f, f \o "@bsp.ff.stopch")
        \/ FWaitFlushed(f) /\ Rel(f, f \o "@bsp.ff.flushed")
        \/ FWaitCtx(f) /\ Rel(f, "")
        \/ HExpLock(f) /\ Rel2(f, H(f), IF batch = <<>> THEN "" ELSE "x@exp.begin")
        \/ \E o \in Outcomes : HExpEnd(f, o) /\ RelOut(H(f), o)
        \/ FExpDone(f) /\ Rel(f, "")
        \/ FExpCtx(f) /\ Rel(f, "")
        \/ FRet(f) /\ Rel(f, "")
  \/ \E s \in Stoppers :
        \/ SCall(s) /\ Keep                 \* (model only: the real call is made when s is released from s@call)
        \/ SOnce(s) /\ (IF pc'[s] = "oncewait"
                          THEN Rel(s, "")      \* a later caller really calls now and blocks in sync.Once
                          ELSE Keep)           \* the caller that runs the body: call, Once and SSet are one real step
        \/ SSet(s) /\ Rel(s, s \o "@bsp.sd.stopped")
        \/ HClose /\ pc[s] \notin {"idle", "once", "set", "oncewait"} /\ hs = "close" /\ Rel2(s, HS, s \o "@bsp.sd.closed")
        \/ SWait(s) /\ Rel(s, "")
        \/ SCtx(s) /\ hs # "close" /\ Rel(s, "")   \* (the helper is started by the release that precedes SCtx)
        \/ SOnceWait(s) /\ Keep
        \/ SRet(s) /\ Keep
  \/ HWait /\ Rel(HS, "")
  \/ \E c \in Callers : CtxExpire(c) /\ hist' = Append(hist, c \o "@ctx.expire/" \o last[c])
                                     /\ UNCHANGED <<last, outs, fin>>

Finish == /\ ~fin /\ (AllDone \/ ~ENABLED Next)
          /\ PrintT("BEHAVIOUR " \o ToJson([script |-> hist, outcomes |-> outs, alldone |-> AllDone, bad |-> mon.bad]))
          /\ fin' = TRUE /\ UNCHANGED <<vars, hist, last, outs>>

SimInit == /\ Init /\ hist = <<>> /\ outs = <<>> /\ fin = FALSE
           /\ last = [x \in SimProcs |-> IF x \in Producers THEN x \o ":1@call"
                                         ELSE IF x \in Callers THEN x \o "@call" ELSE ""]
SimSpec == SimInit /\ [][(~fin /\ SimNext) \/ Finish]_svars
=============================================================================
