------------------------------- MODULE BSPSim -------------------------------
(* spec -> code: TLC -simulate over BSP with a history of gate releases.         *)
(* A real goroutine that has performed an action waits at the instrumentation    *)
(* point that follows it (a verif hook, the exporter entry, or the harness gate  *)
(* before a call) until the scheduler lets it pass; what it does next is its     *)
(* next action.  So each simulated action of process P appends the key of the    *)
(* gate P is currently waiting at (last[P]) -- "release P now" -- and records    *)
(* the gate P will reach after the action.  The Go harness replays the key       *)
(* sequence with vh.Sched.  Steps without a gate in front of them (last = "")    *)
(* cannot be steered and happen when the Go scheduler pleases; the batch timer   *)
(* is not gateable either (Go's select chooses), so WTimer is left out.          *)
EXTENDS BSP, Json

VARIABLES hist, last, fin
svars == <<vars, hist, last, fin>>

SK(p) == p \o ":" \o ToString(pidx[p])
SKn(p) == p \o ":" \o ToString(pidx[p] + 1)
IdK(id) == id[1] \o ":" \o ToString(id[2])
(* release x from its current gate; afterwards it will wait at `after` ("" = no gate) *)
Rel(x, after) == /\ hist' = (IF last[x] = "" THEN hist ELSE Append(hist, last[x]))
                 /\ last' = [last EXCEPT ![x] = after]
                 /\ UNCHANGED fin
Keep == UNCHANGED <<hist, last, fin>>

SimNext ==
  \/ \E p \in Producers :
        \/ PCall(p) /\ Keep
        \/ PCheck(p) /\ Rel(p, SK(p) \o (IF stopped THEN "@bsp.onend.ignored" ELSE "@bsp.onend.checked"))
        \/ PEnq(p) /\ Rel(p, SK(p) \o (IF Len(queue) < QCap THEN "@bsp.enq.sent" ELSE "@bsp.enq.dropped"))
        \/ PRet(p) /\ Rel(p, SKn(p) \o "@call")
  \/ WStop /\ Rel("w", "")
  \/ WDeq /\ (IF Head(queue).t = "marker" THEN Rel("w", "")
              ELSE Rel("w", (IF pc["w"] = "select" THEN "w@bsp.worker.dequeued:" ELSE "w@bsp.drain.dequeued:") \o IdK(Head(queue).id)))
  \/ WAppend /\ Rel("w", IF pc["w"] = "append" THEN "w@bsp.worker.appended:" \o IdK(wtmp) ELSE "")
  \/ WDrainEmpty /\ Rel("w", "w@bsp.drain.empty")
  \/ WExpLock /\ Rel("w", IF batch = <<>> THEN "" ELSE "x@exp.begin")
  \/ WExpEnd /\ Rel("w", "")
  \/ \E f \in Flushers :
        \/ FCall(f) /\ Keep
        \/ FCheck(f) /\ Rel(f, f \o (IF stopped THEN "@bsp.ff.stopped" ELSE "@bsp.ff.checked"))
        \/ FEnq(f) /\ Rel(f, f \o "@bsp.ff.marker")
        \/ FWaitStop(f) /\ Rel(f, f \o "@bsp.ff.stopch")
        \/ FWaitFlushed(f) /\ Rel(f, f \o "@bsp.ff.flushed")
        \/ FExpLock(f) /\ Rel(f, IF batch = <<>> THEN "" ELSE "x@exp.begin")
        \/ FExpEnd(f) /\ Rel(f, "")
        \/ FRet(f) /\ Rel(f, "")
  \/ \E s \in Stoppers :
        \/ SCall(s) /\ (IF \E o \in Stoppers : pc[o] \notin {"idle", "oncewait"}
                          THEN Rel(s, "")      \* a later caller really calls now and blocks in sync.Once
                          ELSE Keep)           \* the first caller: call and SSet are one real step
        \/ SSet(s) /\ Rel(s, s \o "@bsp.sd.stopped")
        \/ SClose(s) /\ Rel(s, s \o "@bsp.sd.closed")
        \/ SWait(s) /\ Rel(s, "")
        \/ SOnceWait(s) /\ Keep
        \/ SRet(s) /\ Keep

Finish == /\ ~fin /\ (AllDone \/ ~ENABLED Next)
          /\ PrintT("BEHAVIOUR " \o ToJson([script |-> hist, alldone |-> AllDone, bad |-> mon.bad]))
          /\ fin' = TRUE /\ UNCHANGED <<vars, hist, last>>

SimInit == /\ Init /\ hist = <<>> /\ fin = FALSE
           /\ last = [x \in Procs |-> IF x \in Producers THEN x \o ":1@call"
                                      ELSE IF x = "w" THEN "" ELSE x \o "@call"]
SimSpec == SimInit /\ [][(~fin /\ SimNext) \/ Finish]_svars
=============================================================================
