--------------------------- MODULE Trace_BSPImpl ---------------------------
(* code -> spec, second level: the recorded trace of a real execution of the      *)
(* batch span processor (Call/Ret, exporter events, one Pt line for every verif   *)
(* hook point a goroutine passed) must be explainable by the ACTIONS of the       *)
(* implementation-shaped spec BSP.tla itself, not only by the contract monitor.   *)
(* TLC searches for the unlogged internal steps (the worker's select choices:     *)
(* stopCh / timer / a flush marker, the empty-batch export, the waits of the      *)
(* callers, the moment a cancelled ctx is seen).                                  *)
(*                                                                                *)
(* Three kinds of lines:                                                          *)
(*  exact        consuming the line IS the step: Call (written before the call),  *)
(*               Ret (after the return, nothing of the protocol in between),      *)
(*               ExportBegin / ExportEnd (written inside ExportSpans, i.e. while  *)
(*               batchMutex -- the lock that protects the batch -- is held, by    *)
(*               the goroutine named in `who`), ExporterShutdown.                 *)
(*  confirmation every bsp.* hook point sits AFTER the step it follows and        *)
(*               outside every critical section (channel operations, atomics and  *)
(*               the batchMutex section are all over when the hook runs): other   *)
(*               goroutines may have seen the step's effect and logged their own  *)
(*               lines first.  The step is therefore silent; it leaves the owed   *)
(*               Pt line in pend[p], and p does nothing else until that line has  *)
(*               been consumed.                                                   *)
(*  ignored      Ignored / Dropped / Abandoned / FFEarly / FFMarker / Log         *)
(*               (contract-level duplicates of Pt lines, judged by Trace_BSP).    *)
(* CtxDone is written BEFORE the harness cancels the ctx: from that line on the   *)
(* silent environment step CtxExpire(c) may happen (where BSP.tla has it).        *)
(* Every scenario of one file has the same constants (python groups them); they   *)
(* are read from the first Cfg line, LCfg re-installs BSP's initial state between *)
(* scenarios.  Acceptance: the cursor reaches the end (ACCEPTED n,                *)
(* TLCSet("exit")); otherwise TLC exhausts the search and the high-water mark     *)
(* TLCGet(1) is the first line no explanation reaches: model drift (evidence,     *)
(* never a verdict).  Run with -workers 1 and the StateDeque queue (depth first). *)
(* BSP.tla's invariants stay on (cfg): every explanation is a behaviour of BSP.   *)
EXTENDS BSP, TraceKit, Integers

VARIABLES l,         \* cursor: next line of Trace
          pend,      \* proc -> sequence of Pt lines it owes (confirmations), oldest first
          cancelled, \* callers whose CtxDone line has been consumed (their ctx is or is about to be done)
          body       \* the Shutdown call that ran the sync.Once body ("" = none yet)
tvars == <<vars, l, pend, cancelled, body>>

C0 == Trace[1]
SeqSet(s) == {s[i] : i \in 1..Len(s)}
TrProducers == {"p" \o ToString(i) : i \in 1..C0.producers}
TrFlushers == SeqSet(C0.flushers)
TrStoppers == SeqSet(C0.stoppers)
TrExpiring == SeqSet(C0.expiring)
TrSpansPer == C0.spansPer
TrQCap == C0.qcap
TrMaxBatch == C0.maxbatch
TrBlocking == C0.blocking
TrExportTimeout == C0.exportTimeout
TrOutcomes == {"ok", "error", "timeout"}

E == Trace[l]
(* the harness numbers the spans 1..P*K producer by producer *)
Gid(n) == <<"p" \o ToString(((n - 1) \div SpansPer) + 1), ((n - 1) % SpansPer) + 1>>
GidSeq(ids) == [i \in 1..Len(ids) |-> Gid(ids[i])]
PNum(p) == CHOOSE i \in 1..Cardinality(Producers) : p = "p" \o ToString(i)
Num(id) == (PNum(id[1]) - 1) * SpansPer + id[2]
Cur(p) == Num(<<p, pidx[p]>>)
PProcs == Procs \cup {"hs"}
P(pt, id, by) == [pt |-> pt, id |-> id, by |-> by]
NoPend == [p \in PProcs |-> <<>>]
Out(e) == IF e = "" THEN "ok" ELSE IF e = "ctx" THEN "timeout" ELSE "error"

HW(n) == IF n > TLCGet(1) THEN TLCSet(1, n) ELSE TRUE
Adv == l' = l + 1 /\ HW(l + 1)
(* a silent step of p / a step of p that is the current line; `after` = the lines p owes afterwards *)
Sil(p, after) == pend[p] = <<>> /\ pend' = [pend EXCEPT ![p] = after] /\ l' = l /\ UNCHANGED cancelled
Lin(p, after) == pend[p] = <<>> /\ pend' = [pend EXCEPT ![p] = after] /\ Adv /\ UNCHANGED cancelled
Confirm(p, line) == /\ pend[p] # <<>> /\ Head(pend[p]) = line
                    /\ pend' = [pend EXCEPT ![p] = Tail(@)] /\ Adv /\ UNCHANGED <<vars, cancelled, body>>

(* ---------------------------------------------------------------- exact lines *)
LCall == /\ E.ev = "Call"
         /\ CASE E.op = "End" -> LET id == Gid(E.id) IN id[1] \in Producers /\ pidx[id[1]] = id[2] /\ PCall(id[1]) /\ Lin(id[1], <<>>)
              [] E.op = "FF" -> E.proc \in Flushers /\ FCall(E.proc) /\ Lin(E.proc, <<>>)
              [] E.op = "SD" -> E.proc \in Stoppers /\ SCall(E.proc) /\ Lin(E.proc, <<>>)
              [] OTHER -> FALSE
         /\ UNCHANGED body
(* the error class a call returns: nil <=> nil; the exporter's own error is the export's; a ctx error is either *)
LRet == /\ E.ev = "Ret"
        /\ CASE E.op = "End" -> LET id == Gid(E.id) IN id[1] \in Producers /\ pidx[id[1]] = id[2] /\ PRet(id[1]) /\ Lin(id[1], <<>>)
             [] E.op = "FF" -> /\ E.proc \in Flushers /\ pc[E.proc] = "ret"
                               /\ (E.err = "") = (err[E.proc] = "") /\ (E.err = "export" => err[E.proc] = "export")
                               /\ FRet(E.proc) /\ Lin(E.proc, <<>>)
             [] E.op = "SD" -> /\ E.proc \in Stoppers /\ pc[E.proc] = "ret"
                               /\ (E.err = "") = (err[E.proc] = "")
                               /\ SRet(E.proc) /\ Lin(E.proc, <<>>)
             [] OTHER -> FALSE
        /\ UNCHANGED body
(* written under batchMutex by the goroutine that holds it: the worker or the export helper of flusher `who` *)
(* (the helper is started after its caller's last hook has returned)                                          *)
LExportBegin == /\ E.ev = "ExportBegin" /\ batch # <<>> /\ batch = GidSeq(E.ids)
                /\ IF E.who = "w" THEN WExpLock /\ Lin("w", <<>>)
                   ELSE E.who \in Flushers /\ pend[E.who] = <<>> /\ HExpLock(E.who) /\ Adv /\ UNCHANGED <<pend, cancelled>>
                /\ UNCHANGED body
LExportEnd == /\ E.ev = "ExportEnd"
              /\ IF E.who = "w" THEN WExpEnd(Out(E.err)) /\ Lin("w", <<>>)
                 ELSE E.who \in Flushers /\ HExpEnd(E.who, Out(E.err)) /\ Adv /\ UNCHANGED <<pend, cancelled>>
              /\ UNCHANGED body
LExporterShutdown == E.ev = "ExporterShutdown" /\ HWait /\ Lin("hs", <<>>) /\ UNCHANGED body
(* written by the harness BEFORE it cancels the ctx: whoever sees it done does so later *)
LCtxDone == /\ E.ev = "CtxDone" /\ E.proc \in Callers
            /\ cancelled' = cancelled \cup {E.proc} /\ Adv /\ UNCHANGED <<vars, pend, body>>

(* ---------------------------------------------------------------- confirmation lines *)
LPt == E.ev = "Pt" /\ E.proc \in PProcs /\ Confirm(E.proc, P(E.point, E.id, E.by))

(* ---------------------------------------------------------------- bookkeeping lines *)
LSkip == /\ E.ev \in {"Ignored", "Dropped", "Abandoned", "FFEarly", "FFMarker", "Log"}
         /\ Adv /\ UNCHANGED <<vars, pend, cancelled, body>>
LEnd == /\ E.ev = "EndScenario"
        /\ (E.quiescent => AllDone /\ pend = NoPend)   \* every call of the real run returned: so it has in the model
        /\ PrintT("IMPLEND " \o ToJson([sc |-> E.sc, bad |-> mon.bad, line |-> l]))
        /\ Adv /\ UNCHANGED <<vars, pend, cancelled, body>>
LCfg == /\ E.ev = "Cfg"
        /\ queue' = I0.queue /\ batch' = I0.batch /\ mutex' = I0.mutex /\ dropped' = I0.dropped
        /\ stopped' = I0.stopped /\ stopCh' = I0.stopCh /\ flushed' = I0.flushed /\ pc' = I0.pc
        /\ pidx' = I0.pidx /\ wret' = I0.wret /\ wtmp' = I0.wtmp /\ hx' = I0.hx /\ hres' = I0.hres /\ hs' = I0.hs
        /\ expired' = I0.expired /\ err' = I0.err /\ mon' = I0.mon
        /\ pend' = NoPend /\ cancelled' = {} /\ body' = "" /\ Adv

(* ---------------------------------------------------------------- silent steps *)
Pt1(pt, id) == <<P(pt, id, "")>>
SPr(p) == \/ PCheck(p) /\ Sil(p, Pt1(IF stopped THEN "bsp.onend.ignored" ELSE "bsp.onend.checked", Cur(p)))
          \/ PEnq(p) /\ Sil(p, Pt1(IF queue' # queue THEN "bsp.enq.sent"
                                   ELSE IF dropped' # dropped THEN "bsp.enq.dropped" ELSE "bsp.enq.stopped", Cur(p)))
SWk == \/ (WStop \/ WTimer) /\ Sil("w", <<>>)
       \/ WDeq /\ Sil("w", IF Head(queue).t = "marker" THEN <<>>
                           ELSE Pt1(IF pc["w"] = "select" THEN "bsp.worker.dequeued" ELSE "bsp.drain.dequeued", Num(Head(queue).id)))
       \/ WAppend /\ Sil("w", IF pc["w"] = "append" THEN Pt1("bsp.worker.appended", Num(wtmp)) ELSE <<>>)
       \/ WDrainEmpty /\ Sil("w", Pt1("bsp.drain.empty", 0))
       \/ batch = <<>> /\ WExpLock /\ Sil("w", <<>>)
SFl(f) == \/ FCheck(f) /\ Sil(f, IF f \in expired THEN <<>> ELSE Pt1(IF stopped THEN "bsp.ff.stopped" ELSE "bsp.ff.checked", 0))
          \/ FEnq(f) /\ Sil(f, IF queue' # queue THEN Pt1("bsp.ff.marker", 0)
                               ELSE IF mon'.early[f] THEN Pt1("bsp.ff.stopch", 0) ELSE <<>>)
          \/ FWaitStop(f) /\ Sil(f, Pt1("bsp.ff.stopch", 0))
          \/ FWaitFlushed(f) /\ Sil(f, Pt1("bsp.ff.flushed", 0))
          \/ (FWaitCtx(f) \/ FExpDone(f) \/ FExpCtx(f)) /\ Sil(f, <<>>)
          \/ batch = <<>> /\ pend[f] = <<>> /\ HExpLock(f) /\ l' = l /\ UNCHANGED <<pend, cancelled>>
SSt(s) == \/ SSet(s) /\ Sil(s, Pt1("bsp.sd.stopped", 0)) /\ body' = s
          \/ (SOnce(s) \/ SOnceWait(s) \/ SWait(s) \/ SCtx(s)) /\ Sil(s, <<>>) /\ UNCHANGED body
(* the helper goroutine of the Once body is started after the body's hook has returned *)
SHs == body # "" /\ pend[body] = <<>> /\ HClose /\ Sil("hs", <<P("bsp.sd.closed", 0, body)>>)
SEnv(c) == c \in cancelled /\ CtxExpire(c) /\ l' = l /\ UNCHANGED <<pend, cancelled>>
Silent == \/ (\E p \in Producers : SPr(p)) /\ UNCHANGED body
          \/ SWk /\ UNCHANGED body
          \/ (\E f \in Flushers : SFl(f)) /\ UNCHANGED body
          \/ \E s \in Stoppers : SSt(s)
          \/ SHs /\ UNCHANGED body
          \/ (\E c \in Callers : SEnv(c)) /\ UNCHANGED body

TInit == Init /\ l = 1 /\ pend = NoPend /\ cancelled = {} /\ body = "" /\ TLCSet(1, 1)
TStep == /\ l <= Len(Trace)
         /\ \/ LCall \/ LRet \/ LExportBegin \/ LExportEnd \/ LExporterShutdown \/ LCtxDone
            \/ LPt \/ LSkip \/ LEnd \/ LCfg
            \/ Silent
TDone == l = Len(Trace) + 1 /\ Accepted(l) /\ TLCSet("exit", TRUE) /\ UNCHANGED tvars
TSpec == TInit /\ [][TStep \/ TDone]_tvars
(* evaluated when TLC finished without reaching the end: the first line no explanation gets past *)
TPost == PrintT("HWM " \o ToString(TLCGet(1)))
(* BSP.tla's invariants, named so that a violation says where (the contract stage is the verdict, this is evidence) *)
TInv == \/ (NoDup /\ BatchBound /\ Contract /\ DroppedCounted /\ MutexOK /\ Accounting /\ Stuck)
        \/ PrintT("IMPLINV " \o ToJson([line |-> l - 1, bad |-> mon.bad,
                                        broken |-> {n \in {"NoDup", "BatchBound", "Contract", "DroppedCounted", "MutexOK", "Accounting", "Stuck"} :
                                                    ~(CASE n = "NoDup" -> NoDup [] n = "BatchBound" -> BatchBound [] n = "Contract" -> Contract
                                                        [] n = "DroppedCounted" -> DroppedCounted [] n = "MutexOK" -> MutexOK
                                                        [] n = "Accounting" -> Accounting [] OTHER -> Stuck)}])) /\ FALSE
=============================================================================
