SPECIFICATION FairSpec
CONSTANTS
  Producers <- MCProducers
  Stoppers <- MCStoppers
  SpansPer = @SPANSPER@
INVARIANTS NoDup Contract ExporterShutdownOnce EndedIsExported
PROPERTIES Termination
CHECK_DEADLOCK FALSE
