----------------------------- MODULE BSPOverrun -----------------------------
(* Growth of BSP.tla: the EXPORTER PHASE.                                      *)
(*                                                                             *)
(* BSP.tla treats an ExportSpans call as begin / answer (ok, error, timeout =  *)
(* "returns when its ctx is done").  The statement quantifies over all         *)
(* exporter behaviours (slow, failing, timing out): an exporter may IGNORE its *)
(* ctx and still be inside ExportSpans long after the export deadline          *)
(* (ExportTimeout, or the deadline / cancellation of the ForceFlush ctx its    *)
(* export inherited) has passed.  The phase of the exporter is                 *)
(*     "out"      not inside ExportSpans                                       *)
(*     "inside"   inside, the export ctx is not done                           *)
(*     "overdue"  inside, the export ctx IS done (inside-past-deadline)        *)
(* XDeadline is the environment step inside -> overdue.  The processor has no  *)
(* step of its own in the overdue phase: the goroutine that called ExportSpans *)
(* is still in the call, so batchMutex stays held and every export that        *)
(* becomes due meanwhile (size, timer, ForceFlush, the Shutdown drain) waits.  *)
(* A late return may answer anything (ok / error / the ctx error).             *)
(*                                                                             *)
(* Abandon = TRUE is a model-level mutation (never the code): the goroutine    *)
(* inside exportSpans stops waiting for an overdue exporter, starts a fresh    *)
(* batch and releases batchMutex while the exporter is still inside.  It must  *)
(* violate Exclusive (checks/c01_overrun.py requires that TLC finds it).       *)
EXTENDS BSP

CONSTANT Abandon
VARIABLE xph
ovars == <<vars, xph>>

ExportBegins == mon.inflight = <<>> /\ mon'.inflight # <<>>
ExportEnds == mon.inflight # <<>> /\ mon'.inflight = <<>>
(* the ctx the running export was given can be done: ExportTimeout > 0, or it  *)
(* is the export of a ForceFlush whose ctx is done                              *)
CtxCanBeDone == ExportTimeout \/ mutex \in expired

OInit == Init /\ xph = "out"
(* every step of the processor and of the callers; the phase follows the calls *)
OStep == /\ Next
         /\ xph' = (IF ExportBegins THEN "inside" ELSE IF ExportEnds THEN "out" ELSE xph)
XDeadline == /\ xph = "inside" /\ CtxCanBeDone
             /\ xph' = "overdue" /\ UNCHANGED vars
(* the mutation: give the overdue export up (its answer is taken to be the ctx error) *)
XAbandon == /\ Abandon /\ xph = "overdue" /\ mutex # "none"
            /\ batch' = <<>> /\ mutex' = "none" /\ xph' = "abandoned"
            /\ IF mutex = "w"
                 THEN (Go("w", wret) /\ UNCHANGED <<hx, hres>>)
                 ELSE (hx' = [hx EXCEPT ![mutex] = "done"] /\ hres' = [hres EXCEPT ![mutex] = "export"] /\ UNCHANGED pc)
            /\ UNCHANGED <<queue, dropped, stopped, stopCh, flushed, pidx, wret, wtmp, hs, expired, err, mon>>
OvNext == OStep \/ XDeadline \/ XAbandon
OvSpec == OInit /\ [][OvNext]_ovars

(* ------------------------------------------------------------ properties *)
PhaseOK == /\ xph \in {"out", "inside", "overdue"}
           /\ (xph = "out") = (mon.inflight = <<>>)
(* the export critical section stays occupied for as long as the exporter is inside, past its deadline or not *)
OverdueHeld == (xph # "out") => (mutex # "none" /\ (mutex = "w" => pc["w"] = "exporting")
                                 /\ (mutex # "w" => hx[mutex] = "exporting"))
OverdueOnlyWithDeadline == (xph = "overdue") => CtxCanBeDone
(* "the exporter is never invoked by two goroutines at the same time" *)
Exclusive == "concurrent-export" \notin mon.bad
(* vacuity (must be VIOLATED): an overdue export with spans queued behind it, a ForceFlush waiting and a Shutdown begun *)
NoDueWhileOverdue == ~(/\ xph = "overdue" /\ queue # <<>> /\ stopped
                       /\ \E f \in Flushers : pc[f] \in {"wait", "waitexp"})
(* the overdue phase of a flush export whose caller has already returned its ctx error (must be VIOLATED) *)
NoOverdueHelperAfterReturn == ~(xph = "overdue" /\ mutex \in Flushers /\ pc[mutex] = "done")
=============================================================================
