SPECIFICATION OvSpec
CONSTANTS
  Producers <- MCProducers
  Flushers <- MCFlushers
  Stoppers <- MCStoppers
  Outcomes <- MCOutcomes
  Expiring <- MCExpiring
  SpansPer = @SPANSPER@
  QCap = @QCAP@
  MaxBatch = @MAXBATCH@
  Blocking = @BLOCKING@
  AllowKnown = @ALLOWKNOWN@
  CodeShape = "@CODESHAPE@"
  ExportTimeout = @EXPORTTIMEOUT@
  ResetOnFailure = @RESETONFAILURE@
  Abandon = @ABANDON@
INVARIANTS @OVINVS@
CHECK_DEADLOCK FALSE
