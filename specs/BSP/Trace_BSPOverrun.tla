--------------------------- MODULE Trace_BSPOverrun ---------------------------
(* code -> spec for the exporter-phase scenarios: every recorded line is one    *)
(* step of the contract monitor with the exporter phase (BSPOverrunContract).   *)
(* Prints OVSTAT (scenarios / ExportOverdue events consumed) for vacuity.       *)
EXTENDS BSPOverrunContract, TraceKit, Integers
VARIABLES l, m, cur, stat
vars == <<l, m, cur, stat>>
NoCfg == [qcap |-> 0, maxbatch |-> 0, blocking |-> FALSE, kind |-> "batch", exportTimeout |-> FALSE]
Init == l = 1 /\ m = OFresh(NoCfg) /\ cur = -1 /\ stat = [scenarios |-> 0, overdue |-> 0, with_overdue |-> 0]
TStep == /\ l <= Len(Trace)
         /\ LET e == Trace[l] IN
            IF e.ev = "Cfg"
              THEN /\ m' = OFresh([qcap |-> e.qcap, maxbatch |-> e.maxbatch, blocking |-> e.blocking, kind |-> e.kind,
                                   exportTimeout |-> e.exportTimeout]) /\ cur' = e.sc
                   /\ stat' = [stat EXCEPT !.scenarios = @ + 1]
              ELSE IF e.sc # cur   \* straggler of an earlier scenario that was abandoned as non-quiescent
              THEN UNCHANGED <<m, cur, stat>>
              ELSE LET r == OStep(m, e) IN
                   /\ m' = r[1] /\ UNCHANGED cur
                   /\ stat' = (IF e.ev = "ExportOverdue"
                                 THEN [stat EXCEPT !.overdue = @ + 1, !.with_overdue = @ + (IF m.novd = 0 THEN 1 ELSE 0)]
                                 ELSE stat)
                   /\ \A v \in r[2] : Viol([line |-> l, sc |-> e.sc, v |-> v])
         /\ l' = l + 1
TDone == l = Len(Trace) + 1 /\ PrintT("OVSTAT " \o ToJson(stat)) /\ Accepted(l) /\ UNCHANGED vars
Next == TStep \/ TDone
Spec == Init /\ [][Next]_vars
=============================================================================
