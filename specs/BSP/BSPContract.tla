----------------------------- MODULE BSPContract -----------------------------
(* The C01 statement as a total monitor over API-observable events (plus the   *)
(* hook events that identify exactly which spans were dropped because the      *)
(* queue was full (Dropped), ignored because Shutdown had begun (Ignored),     *)
(* abandoned by a blocking enqueue that saw the processor shutting down        *)
(* (Abandoned), which ForceFlush calls took the "already shut down" exit       *)
(* (FFEarly) and which ones got their marker into the queue (FFMarker)).       *)
(* Every event is always accepted; broken clauses are collected by Judge.      *)
(*                                                                             *)
(* What a call promises depends on how it returns: the delivery clause is for  *)
(* calls that return WITHOUT error only; a call that returns an error (its     *)
(* context expired, its own export failed) promises nothing about delivery.    *)
(* The other clauses hold whatever the calls return: no span twice (a failed    *)
(* export is not retried), bounded batches, exclusive exporter.  "Nothing is    *)
(* exported after Shutdown has returned" is judged for Shutdown calls that      *)
(* returned nil (and for exports after exporter.Shutdown); an export after a    *)
(* Shutdown that returned its ctx error is reported as an OBSERVATION (kind     *)
(* "obs:..."): counted in the evidence, never a violation -- the statement      *)
(* does not quantify over expiring caller contexts.                             *)
EXTENDS Naturals, Sequences, FiniteSets, TLC

Fresh(cfg) == [cfg |-> cfg,
               ended |-> {},        \* ids whose End has returned
               handed |-> {},       \* ids handed to the exporter
               dropped |-> {},      \* ids dropped on a full queue (counted)
               ignored |-> {},      \* ids that found the processor stopped
               abandoned |-> {},    \* ids whose blocking enqueue gave up because the processor is shutting down
               raced |-> {},        \* ids whose End returned after some Shutdown call had begun
               maxTotal |-> 0,      \* largest value of the dropped counter seen
               inflight |-> FALSE,  \* an ExportSpans call is running
               snap |-> <<>>,       \* proc -> ended at the time of its ForceFlush / Shutdown call
               early |-> {},        \* ForceFlush calls that took the stopped exit
               marker |-> {},       \* ForceFlush calls whose marker was enqueued
               ctxdone |-> {},      \* calls whose context is done (cancelled by the harness / deadline passed)
               dlcaller |-> FALSE,  \* some ForceFlush was called with a ctx that carries a deadline
               sdCalled |-> FALSE,  \* some Shutdown call has begun
               sdRet |-> FALSE,     \* some Shutdown call has returned nil
               sdNil |-> {},        \* the Shutdown calls that have returned nil
               sdRetErr |-> FALSE,  \* some Shutdown call has returned an error
               sdProcs |-> {},      \* the Shutdown calls made so far
               expShut |-> FALSE]   \* exporter.Shutdown was called

Put(f, k, v) == [x \in (DOMAIN f) \cup {k} |-> IF x = k THEN v ELSE f[x]]
SeqToSet(s) == {s[i] : i \in 1..Len(s)}
(* cfg.kind = "simple" (SimpleSpanProcessor, no hooks): a span whose End returned after a Shutdown call had
   begun may have found the exporter gone and is legitimately ignored.  Abandoned spans are NOT excused:
   like a span enqueued after the drain (D4) they are lost silently; their End returned after a Shutdown
   call had begun, so they are owed only to calls made later (classified as D1 / D4 there). *)
Missing(m, S) == (((S \ m.handed) \ m.dropped) \ m.ignored) \ (IF m.cfg.kind = "simple" THEN m.raced ELSE {})
(* the ctx of some Shutdown call is done and the exporter has not been shut down yet (the drain that call started
   may still be running in the background although the call has returned its ctx error), and some OTHER Shutdown
   call (one of N) has returned nil meanwhile (the defect repaired by af9523f; kept as its own kind so that a
   regression is named); a Shutdown that returns nil itself although its own ctx expired is plain shutdown-missed *)
EarlyNil(m, N) == ~m.expShut /\ \E o \in m.sdProcs \cap m.ctxdone : N \ {o} # {}

(* Step(m, e) = <<next monitor state, set of violated clauses (records)>> *)
Step(m, e) ==
  CASE e.ev = "Call" /\ e.op = "End" -> <<m, {}>>
    [] e.ev = "Ret" /\ e.op = "End" -> <<[m EXCEPT !.ended = @ \cup {e.id},
                                                   !.raced = IF m.sdCalled THEN @ \cup {e.id} ELSE @], {}>>
    [] e.ev = "Call" /\ e.op = "FF" -> <<[m EXCEPT !.snap = Put(@, e.proc, m.ended),
                                                   !.dlcaller = (@ \/ e.ctx = "deadline")], {}>>
    [] e.ev = "Call" /\ e.op = "SD" -> <<[m EXCEPT !.snap = Put(@, e.proc, m.ended), !.sdCalled = TRUE,
                                                   !.sdProcs = @ \cup {e.proc}], {}>>
    [] e.ev = "CtxDone" -> <<[m EXCEPT !.ctxdone = @ \cup {e.proc}], {}>>
    [] e.ev = "FFEarly" -> <<[m EXCEPT !.early = @ \cup {e.proc}],
                             IF m.sdCalled THEN {} ELSE {[kind |-> "early-exit-without-shutdown", proc |-> e.proc]}>>
    [] e.ev = "FFMarker" -> <<[m EXCEPT !.marker = @ \cup {e.proc}], {}>>
    [] e.ev = "Ret" /\ e.op = "FF" ->
         <<m, IF e.err = "" /\ Missing(m, m.snap[e.proc]) # {}
              THEN {[kind |-> IF e.proc \in m.early THEN "flush-missed-during-shutdown"
                              ELSE IF e.proc \in m.ctxdone /\ e.proc \notin m.marker THEN "flush-missed-ctx-done-no-marker"
                              ELSE "flush-missed",
                     proc |-> e.proc, missing |-> Missing(m, m.snap[e.proc])]}
              ELSE {}>>
    [] e.ev = "Ret" /\ e.op = "SD" ->
         <<[m EXCEPT !.sdRet = (@ \/ e.err = ""), !.sdRetErr = (@ \/ e.err # ""),
                     !.sdNil = IF e.err = "" THEN @ \cup {e.proc} ELSE @],
           IF e.err = "" /\ Missing(m, m.snap[e.proc]) # {}
           THEN {[kind |-> IF EarlyNil(m, {e.proc}) THEN "shutdown-nil-while-expired-drain-runs"
                           ELSE IF Missing(m, m.snap[e.proc]) \subseteq m.raced THEN "shutdown-missed-raced"
                           ELSE "shutdown-missed",
                  proc |-> e.proc, missing |-> Missing(m, m.snap[e.proc])]} ELSE {}>>
    [] e.ev = "ExportBegin" ->
         LET ids == SeqToSet(e.ids) IN
         <<[m EXCEPT !.handed = @ \cup {i \in ids : i > 0}, !.inflight = TRUE],
           (IF ids \cap m.handed # {} \/ Cardinality(ids) # Len(e.ids)
              THEN {[kind |-> "exported-twice", ids |-> (ids \cap m.handed)]} ELSE {})
           \cup (IF Len(e.ids) > m.cfg.maxbatch THEN {[kind |-> "batch-too-large", n |-> Len(e.ids)]} ELSE {})
           \* what is handed over are the ended spans: no nil entry (-1), no span the scenario did not end (0)
           \cup (IF \E i \in ids : i <= 0 THEN {[kind |-> "exported-invalid-span"]} ELSE {})
           \cup (IF m.inflight THEN {[kind |-> "concurrent-export"]} ELSE {})
           \cup (IF m.expShut THEN {[kind |-> "export-after-shutdown"]}
                 ELSE IF m.sdNil = {} THEN (IF m.sdRetErr THEN {[kind |-> "obs:export-after-shutdown-returned-error"]} ELSE {})
                 ELSE IF EarlyNil(m, m.sdNil) THEN {[kind |-> "export-after-nil-shutdown-while-expired-drain-runs"]}
                 ELSE {[kind |-> "export-after-shutdown"]})
           \cup (IF ids \cap (m.dropped \cup m.ignored \cup m.abandoned) # {} THEN {[kind |-> "exported-a-dropped-span"]} ELSE {})
           \* ExportTimeout > 0 <=> the exporter's ctx carries a deadline (a ForceFlush export inherits its caller's)
           \cup (IF m.cfg.kind = "batch" /\ m.cfg.exportTimeout /\ ~e.deadline THEN {[kind |-> "export-without-deadline"]} ELSE {})
           \cup (IF m.cfg.kind = "batch" /\ ~m.cfg.exportTimeout /\ e.deadline /\ ~m.dlcaller
                   THEN {[kind |-> "export-with-unexpected-deadline"]} ELSE {})>>
    [] e.ev = "ExportEnd" -> <<[m EXCEPT !.inflight = FALSE], {}>>
    [] e.ev = "ExporterShutdown" ->
         <<[m EXCEPT !.expShut = TRUE],
           (IF m.expShut THEN {[kind |-> "exporter-shutdown-twice"]} ELSE {})
           \cup (IF m.inflight THEN {[kind |-> "exporter-shutdown-during-export"]} ELSE {})>>
    [] e.ev = "Dropped" ->
         <<[m EXCEPT !.dropped = @ \cup {e.id}, !.maxTotal = IF e.total > @ THEN e.total ELSE @],
           IF m.cfg.blocking THEN {[kind |-> "dropped-in-blocking-mode", id |-> e.id]} ELSE {}>>
    [] e.ev = "Ignored" ->
         <<[m EXCEPT !.ignored = @ \cup {e.id}],
           IF m.sdCalled THEN {} ELSE {[kind |-> "ignored-without-shutdown", id |-> e.id]}>>
    [] e.ev = "Abandoned" ->
         <<[m EXCEPT !.abandoned = @ \cup {e.id}],
           (IF m.sdCalled THEN {} ELSE {[kind |-> "abandoned-without-shutdown", id |-> e.id]})
           \cup (IF m.cfg.blocking THEN {} ELSE {[kind |-> "abandoned-in-drop-mode", id |-> e.id]})
           \cup (IF e.id \in m.handed \cup m.dropped THEN {[kind |-> "abandoned-and-accounted", id |-> e.id]} ELSE {})>>
    [] e.ev = "EndScenario" ->
         <<m, IF e.quiescent /\ m.maxTotal # Cardinality(m.dropped)
              THEN {[kind |-> "dropped-miscounted", counter |-> m.maxTotal, drops |-> Cardinality(m.dropped)]} ELSE {}>>
    \* the `exporting spans` debug line of the SDK: total_dropped as the processor reports it
    [] e.ev = "Log" -> <<[m EXCEPT !.maxTotal = IF e.total > @ THEN e.total ELSE @], {}>>
    [] OTHER -> <<m, {}>>
=============================================================================
