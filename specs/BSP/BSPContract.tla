----------------------------- MODULE BSPContract -----------------------------
(* The C01 statement as a total monitor over API-observable events (plus the   *)
(* Dropped / Ignored / FFEarly hook events that identify exactly which spans   *)
(* were dropped because the queue was full, ignored because Shutdown had       *)
(* begun, and which ForceFlush calls took the "already shut down" exit).       *)
(* Every event is always accepted; broken clauses are collected by Judge.      *)
EXTENDS Naturals, Sequences, FiniteSets, TLC

Fresh(cfg) == [cfg |-> cfg,
               ended |-> {},        \* ids whose End has returned
               handed |-> {},       \* ids handed to the exporter
               dropped |-> {},      \* ids dropped on a full queue (counted)
               ignored |-> {},      \* ids that found the processor stopped
               raced |-> {},        \* ids whose End returned after some Shutdown call had begun
               maxTotal |-> 0,      \* largest value of the dropped counter seen
               inflight |-> FALSE,  \* an ExportSpans call is running
               snap |-> <<>>,       \* proc -> ended at the time of its ForceFlush / Shutdown call
               early |-> {},        \* ForceFlush calls that took the stopped exit
               sdCalled |-> FALSE,  \* some Shutdown call has begun
               sdRet |-> FALSE,     \* some Shutdown call has returned nil
               expShut |-> FALSE]   \* exporter.Shutdown was called

Put(f, k, v) == [x \in (DOMAIN f) \cup {k} |-> IF x = k THEN v ELSE f[x]]
SeqToSet(s) == {s[i] : i \in 1..Len(s)}
(* cfg.kind = "simple" (SimpleSpanProcessor, no hooks): a span whose End returned after a Shutdown call had
   begun may have found the exporter gone and is legitimately ignored *)
Missing(m, S) == (((S \ m.handed) \ m.dropped) \ m.ignored) \ (IF m.cfg.kind = "simple" THEN m.raced ELSE {})

(* Step(m, e) = <<next monitor state, set of violated clauses (records)>> *)
Step(m, e) ==
  CASE e.ev = "Call" /\ e.op = "End" -> <<m, {}>>
    [] e.ev = "Ret" /\ e.op = "End" -> <<[m EXCEPT !.ended = @ \cup {e.id},
                                                   !.raced = IF m.sdCalled THEN @ \cup {e.id} ELSE @], {}>>
    [] e.ev = "Call" /\ e.op = "FF" -> <<[m EXCEPT !.snap = Put(@, e.proc, m.ended)], {}>>
    [] e.ev = "Call" /\ e.op = "SD" -> <<[m EXCEPT !.snap = Put(@, e.proc, m.ended), !.sdCalled = TRUE], {}>>
    [] e.ev = "FFEarly" -> <<[m EXCEPT !.early = @ \cup {e.proc}],
                             IF m.sdCalled THEN {} ELSE {[kind |-> "early-exit-without-shutdown", proc |-> e.proc]}>>
    [] e.ev = "Ret" /\ e.op = "FF" ->
         <<m, IF e.err = "" /\ Missing(m, m.snap[e.proc]) # {}
              THEN {[kind |-> IF e.proc \in m.early THEN "flush-missed-during-shutdown" ELSE "flush-missed",
                     proc |-> e.proc, missing |-> Missing(m, m.snap[e.proc])]}
              ELSE {}>>
    [] e.ev = "Ret" /\ e.op = "SD" ->
         <<[m EXCEPT !.sdRet = (@ \/ e.err = "")],
           IF e.err = "" /\ Missing(m, m.snap[e.proc]) # {}
           THEN {[kind |-> IF Missing(m, m.snap[e.proc]) \subseteq m.raced THEN "shutdown-missed-raced" ELSE "shutdown-missed",
                  proc |-> e.proc, missing |-> Missing(m, m.snap[e.proc])]} ELSE {}>>
    [] e.ev = "ExportBegin" ->
         LET ids == SeqToSet(e.ids) IN
         <<[m EXCEPT !.handed = @ \cup ids, !.inflight = TRUE],
           (IF ids \cap m.handed # {} \/ Cardinality(ids) # Len(e.ids)
              THEN {[kind |-> "exported-twice", ids |-> (ids \cap m.handed)]} ELSE {})
           \cup (IF Len(e.ids) > m.cfg.maxbatch THEN {[kind |-> "batch-too-large", n |-> Len(e.ids)]} ELSE {})
           \cup (IF m.inflight THEN {[kind |-> "concurrent-export"]} ELSE {})
           \cup (IF m.sdRet \/ m.expShut THEN {[kind |-> "export-after-shutdown"]} ELSE {})
           \cup (IF ids \cap (m.dropped \cup m.ignored) # {} THEN {[kind |-> "exported-a-dropped-span"]} ELSE {})>>
    [] e.ev = "ExportEnd" -> <<[m EXCEPT !.inflight = FALSE], {}>>
    [] e.ev = "ExporterShutdown" ->
         <<[m EXCEPT !.expShut = TRUE],
           (IF m.expShut THEN {[kind |-> "exporter-shutdown-twice"]} ELSE {})
           \cup (IF m.inflight THEN {[kind |-> "exporter-shutdown-during-export"]} ELSE {})>>
    [] e.ev = "Dropped" ->
         <<[m EXCEPT !.dropped = @ \cup {e.id}, !.maxTotal = IF e.total > @ THEN e.total ELSE @],
           IF m.cfg.blocking THEN {[kind |-> "dropped-in-blocking-mode", id |-> e.id]} ELSE {}>>
    [] e.ev = "Ignored" ->
         <<[m EXCEPT !.ignored = @ \cup {e.id}],
           IF m.sdCalled THEN {} ELSE {[kind |-> "ignored-without-shutdown", id |-> e.id]}>>
    [] e.ev = "EndScenario" ->
         <<m, IF e.quiescent /\ m.maxTotal # Cardinality(m.dropped)
              THEN {[kind |-> "dropped-miscounted", counter |-> m.maxTotal, drops |-> Cardinality(m.dropped)]} ELSE {}>>
    [] OTHER -> <<m, {}>>
=============================================================================
