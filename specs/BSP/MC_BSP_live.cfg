SPECIFICATION FairSpec
CONSTANTS
  Producers <- MCProducers
  Flushers <- MCFlushers
  Stoppers <- MCStoppers
  SpansPer = @SPANSPER@
  QCap = @QCAP@
  MaxBatch = @MAXBATCH@
  Blocking = @BLOCKING@
  AllowKnown = @ALLOWKNOWN@
PROPERTIES Termination
CHECK_DEADLOCK FALSE
