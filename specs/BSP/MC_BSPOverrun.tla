---------------------------- MODULE MC_BSPOverrun ----------------------------
EXTENDS BSPOverrun
MCProducers == @PRODUCERS@
MCFlushers == @FLUSHERS@
MCStoppers == @STOPPERS@
MCOutcomes == @OUTCOMES@
MCExpiring == @EXPIRING@
=============================================================================
