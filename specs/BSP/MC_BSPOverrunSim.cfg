SPECIFICATION @OVSIMSPEC@
CONSTANTS
  Producers <- MCProducers
  Flushers <- MCFlushers
  Stoppers <- MCStoppers
  Outcomes <- MCOutcomes
  Expiring <- MCExpiring
  SpansPer = @SPANSPER@
  QCap = @QCAP@
  MaxBatch = @MAXBATCH@
  Blocking = @BLOCKING@
  AllowKnown = TRUE
  CodeShape = "@CODESHAPE@"
  ExportTimeout = @EXPORTTIMEOUT@
  ResetOnFailure = TRUE
  TimerSim = @TIMERSIM@
  Abandon = FALSE
CHECK_DEADLOCK FALSE
