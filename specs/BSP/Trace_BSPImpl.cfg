SPECIFICATION TSpec
CONSTANTS
  Producers <- TrProducers
  Flushers <- TrFlushers
  Stoppers <- TrStoppers
  Outcomes <- TrOutcomes
  Expiring <- TrExpiring
  SpansPer <- TrSpansPer
  QCap <- TrQCap
  MaxBatch <- TrMaxBatch
  Blocking <- TrBlocking
  ExportTimeout <- TrExportTimeout
  AllowKnown = TRUE
  CodeShape = "current"
  ResetOnFailure = TRUE
INVARIANTS TInv NoDup BatchBound Contract DroppedCounted MutexOK Accounting Stuck
POSTCONDITION TPost
CHECK_DEADLOCK FALSE
