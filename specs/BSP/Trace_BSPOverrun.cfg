SPECIFICATION Spec
CHECK_DEADLOCK FALSE
