SPECIFICATION Spec
CONSTANTS
  Producers <- MCProducers
  Flushers <- MCFlushers
  Stoppers <- MCStoppers
  SpansPer = @SPANSPER@
  QCap = @QCAP@
  MaxBatch = @MAXBATCH@
  Blocking = @BLOCKING@
  AllowKnown = @ALLOWKNOWN@
INVARIANTS NoDup BatchBound Contract DroppedCounted MutexOK @STUCK@
CHECK_DEADLOCK FALSE
