------------------------- MODULE BSPOverrunContract -------------------------
(* The C01 contract (BSPContract.tla) with the EXPORTER PHASE as monitor state. *)
(* New event ExportOverdue: logged by the harness exporter, from inside          *)
(* ExportSpans, after it has seen its ctx done (the export deadline of           *)
(* ExportTimeout passed / the ForceFlush ctx it inherited was cancelled) and     *)
(* before it returns -- "inside-past-deadline" is a sound fact of the trace.     *)
(* Every clause of the base contract is judged unchanged; a broken clause is     *)
(* reported with the phase the exporter was in, so that a processor that stops   *)
(* keeping the export critical section occupied once the deadline has passed is  *)
(* named as such:                                                                *)
(*   exporter_phase = "inside-past-deadline"    some ExportSpans call that has   *)
(*                                              outlived its ctx is still running*)
(*                    "returned-after-overrun"  such a call has returned earlier *)
(*                                              in the scenario (its batch must  *)
(*                                              not come back, bounds hold, ...) *)
(*                    "none"                    no overrun so far                *)
(* Clauses of its own: an exporter that is inside past its deadline is still     *)
(* INSIDE: exporter.Shutdown and further ExportSpans calls during that phase are *)
(* the base clauses exporter-shutdown-during-export / concurrent-export; the     *)
(* wrapper keeps its own count of calls inside (the base monitor's `inflight` is *)
(* one bit and is cleared by the first return of two overlapping calls), so a    *)
(* THIRD call, or a Shutdown of the exporter after the younger of two            *)
(* overlapping calls returned, is still seen.                                    *)
EXTENDS BSPContract

OFresh(cfg) == [base |-> Fresh(cfg),
                nin |-> 0,           \* ExportSpans calls that have begun and not ended
                overdue |-> FALSE,   \* some call inside has seen its ctx done
                overran |-> FALSE,   \* some call that was overdue has ended
                novd |-> 0]          \* number of ExportOverdue events (vacuity)
Phase(o) == IF o.overdue THEN "inside-past-deadline" ELSE IF o.overran THEN "returned-after-overrun" ELSE "none"
Tag(v, ph) == [x \in (DOMAIN v) \cup {"exporter_phase"} |-> IF x = "exporter_phase" THEN ph ELSE v[x]]
Kinds(V) == {v.kind : v \in V}

OStep(o, e) ==
  IF e.ev = "ExportOverdue"
    THEN <<[o EXCEPT !.overdue = TRUE, !.novd = @ + 1],
           \* (harness sanity: the event is only ever logged from inside a call)
           IF o.nin = 0 THEN {[kind |-> "harness:overdue-outside-export", exporter_phase |-> Phase(o)]} ELSE {}>>
    ELSE LET r == Step(o.base, e)
             ph == Phase(o)
             nin2 == IF e.ev = "ExportBegin" THEN o.nin + 1
                     ELSE IF e.ev = "ExportEnd" /\ o.nin > 0 THEN o.nin - 1 ELSE o.nin
             extra == (IF e.ev = "ExportBegin" /\ o.nin > 0 /\ "concurrent-export" \notin Kinds(r[2])
                         THEN {[kind |-> "concurrent-export"]} ELSE {})
                      \cup (IF e.ev = "ExporterShutdown" /\ o.nin > 0 /\ "exporter-shutdown-during-export" \notin Kinds(r[2])
                              THEN {[kind |-> "exporter-shutdown-during-export"]} ELSE {})
         IN <<[o EXCEPT !.base = r[1], !.nin = nin2,
                        !.overdue = (IF nin2 = 0 THEN FALSE ELSE @),
                        !.overran = (@ \/ (e.ev = "ExportEnd" /\ o.overdue))],
              {Tag(v, ph) : v \in r[2] \cup extra}>>
=============================================================================
