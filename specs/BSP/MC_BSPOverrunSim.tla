--------------------------- MODULE MC_BSPOverrunSim ---------------------------
EXTENDS BSPOverrunSim
MCProducers == @PRODUCERS@
MCFlushers == @FLUSHERS@
MCStoppers == @STOPPERS@
MCOutcomes == @OUTCOMES@
MCExpiring == @EXPIRING@
=============================================================================
