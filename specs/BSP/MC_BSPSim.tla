----------------------------- MODULE MC_BSPSim -----------------------------
EXTENDS BSPSim
MCProducers == @PRODUCERS@
MCFlushers == @FLUSHERS@
MCStoppers == @STOPPERS@
MCOutcomes == @OUTCOMES@
MCExpiring == @EXPIRING@
=============================================================================
