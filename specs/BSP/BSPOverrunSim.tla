---------------------------- MODULE BSPOverrunSim ----------------------------
(* spec -> code for the exporter phase: BSPSim behaviours in which exports go   *)
(* overdue.  XDeadline is an environment entry of the script: the exporter is   *)
(* released from its entry gate ("x@exp.begin"), waits until its ctx is done,   *)
(* passes "x@exp.overdue" and parks at its second gate "x@exp.end" -- still     *)
(* inside ExportSpans -- while the script makes further exports due; after its  *)
(* release it stays inside for the scenario's hold time and then answers.       *)
(* ovs[k] = the k-th export that ENDED was overdue (the harness exporter is     *)
(* told: outcome "overrun/<holdMs>/<answer>").                                  *)
EXTENDS BSPOverrun, BSPSim

VARIABLE ovs
osvars == <<svars, xph, ovs>>

Exporter == IF mutex = "w" THEN "w" ELSE H(mutex)
OvSimStep == /\ SimNext
             /\ xph' = (IF ExportBegins THEN "inside" ELSE IF ExportEnds THEN "out" ELSE xph)
             \* "timeout" = the exporter answers its ctx error: only once the ctx is done
             /\ (ExportEnds /\ outs'[Len(outs')] = "timeout") => (xph = "overdue")
             /\ ovs' = (IF ExportEnds THEN Append(ovs, xph = "overdue") ELSE ovs)
XDeadlineSim == /\ XDeadline
                /\ hist' = Append(IF last[Exporter] = "" THEN hist ELSE Append(hist, last[Exporter]), "x@exp.overdue")
                /\ last' = [last EXCEPT ![Exporter] = "x@exp.end"]
                /\ UNCHANGED <<outs, fin, ovs>>
OvFinish == /\ ~fin /\ (AllDone \/ ~ENABLED Next)
            /\ PrintT("BEHAVIOUR " \o ToJson([script |-> hist, outcomes |-> outs, overdue |-> ovs, alldone |-> AllDone,
                                               bad |-> mon.bad]))
            /\ fin' = TRUE /\ UNCHANGED <<vars, hist, last, outs, xph, ovs>>
(* a subset of the behaviours for the rare regime "the export made for a ForceFlush outlives the caller's ctx":  *)
(* caller contexts expire only while the caller's own export is running                                          *)
FocusStep == OvSimStep /\ (\A c \in expired' \ expired : c \in Flushers /\ hx[c] = "exporting")
OvSimInit == SimInit /\ xph = "out" /\ ovs = <<>>
OvSimSpec == OvSimInit /\ [][(~fin /\ (OvSimStep \/ XDeadlineSim)) \/ OvFinish]_osvars
OvSimSpecFocus == OvSimInit /\ [][(~fin /\ (FocusStep \/ XDeadlineSim)) \/ OvFinish]_osvars
=============================================================================
