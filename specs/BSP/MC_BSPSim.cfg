SPECIFICATION SimSpec
CONSTANTS
  Producers <- MCProducers
  Flushers <- MCFlushers
  Stoppers <- MCStoppers
  SpansPer = @SPANSPER@
  QCap = @QCAP@
  MaxBatch = @MAXBATCH@
  Blocking = @BLOCKING@
  AllowKnown = TRUE
CHECK_DEADLOCK FALSE
