SPECIFICATION SimSpec
CONSTANTS
  Producers <- MCProducers
  Flushers <- MCFlushers
  Stoppers <- MCStoppers
  Outcomes <- MCOutcomes
  Expiring <- MCExpiring
  SpansPer = @SPANSPER@
  QCap = @QCAP@
  MaxBatch = @MAXBATCH@
  Blocking = @BLOCKING@
  AllowKnown = TRUE
  CodeShape = "@CODESHAPE@"
  ExportTimeout = @EXPORTTIMEOUT@
  ResetOnFailure = TRUE
  TimerSim = @TIMERSIM@
CHECK_DEADLOCK FALSE
