-------------------------------- MODULE BSP --------------------------------
(* Implementation-shaped specification of the batch span processor (C01).     *)
(* One action per critical section / linearization point of                   *)
(* sdk/trace/batch_span_processor.go; see DESIGN.md Appendix A.1.             *)
(*                                                                            *)
(* Processes: producers p (span.End -> OnEnd), the worker w (processQueue,    *)
(* then drainQueue), flushers f (ForceFlush), stoppers s (Shutdown).          *)
(* Monitor variables (mon) observe only API-level facts and carry the         *)
(* contract of the property; they never influence the protocol variables.     *)
EXTENDS Naturals, Sequences, FiniteSets, TLC

CONSTANTS Producers, SpansPer, QCap, MaxBatch, Blocking, Flushers, Stoppers,
          AllowKnown   \* TRUE: admit the known deviations D1 and D4 of the code (see Contract)

VARIABLES queue,     \* the channel: sequence of Span(id) / Marker(f)
          batch,     \* bsp.batch (sequence of ids)
          mutex,     \* batchMutex holder: "none" | "w" | flusher
          dropped,   \* bsp.dropped counter
          stopped,   \* bsp.stopped
          stopCh,    \* closed?
          flushed,   \* per flusher: marker channel closed?
          pc,        \* program counter of every process
          pidx,      \* producer -> index of the span it is ending
          wret,      \* where the worker continues after an export
          wtmp,      \* span the worker just dequeued
          mon        \* monitor record
vars == <<queue, batch, mutex, dropped, stopped, stopCh, flushed, pc, pidx, wret, wtmp, mon>>
proto == <<queue, batch, mutex, dropped, stopped, stopCh, flushed, pidx, wret, wtmp>>

Ids == Producers \X (1..SpansPer)
Span(id) == [t |-> "span", id |-> id]
Marker(f) == [t |-> "marker", f |-> f]
Procs == Producers \cup Flushers \cup Stoppers \cup {"w"}

Init ==
  /\ queue = <<>> /\ batch = <<>> /\ mutex = "none" /\ dropped = 0
  /\ stopped = FALSE /\ stopCh = FALSE /\ flushed = [f \in Flushers |-> FALSE]
  /\ pc = [x \in Procs |-> IF x = "w" THEN "select" ELSE "idle"]
  /\ pidx = [p \in Producers |-> 1] /\ wret = "select" /\ wtmp = <<>>
  /\ mon = [inflight |-> <<>>, handed |-> [id \in Ids |-> 0], droppedIds |-> {}, ignoredIds |-> {},
            returnedEnd |-> {}, raced |-> {}, snapF |-> [f \in Flushers |-> {}], snapS |-> [s \in Stoppers |-> {}],
            sdCalled |-> FALSE, shutRet |-> FALSE, early |-> [f \in Flushers |-> FALSE], bad |-> {}]

Go(x, l) == pc' = [pc EXCEPT ![x] = l]

(* ------------------------------------------------------------ exporter *)
(* ExportSpans is entered with the batch; result ok/error/timeout all reset   *)
(* the batch, as the code does, so the outcome is not modelled further.       *)
ExportBegin(m) ==
  [m EXCEPT !.inflight = batch,
            !.handed = [id \in Ids |-> @[id] + Cardinality({i \in 1..Len(batch) : batch[i] = id})],
            !.bad = @ \cup (IF m.inflight # <<>> THEN {"concurrent-export"} ELSE {})
                      \cup (IF Len(batch) > MaxBatch THEN {"batch-too-large"} ELSE {})
                      \cup (IF m.shutRet THEN {"export-after-shutdown"} ELSE {})]

(* ------------------------------------------------------------ producers *)
PCall(p) == /\ pc[p] = "idle" /\ pidx[p] <= SpansPer /\ Go(p, "check")
            /\ UNCHANGED <<proto, mon>>
PCheck(p) == /\ pc[p] = "check"
             /\ IF stopped
                  THEN /\ Go(p, "ret")
                       /\ mon' = [mon EXCEPT !.ignoredIds = @ \cup {<<p, pidx[p]>>}]
                  ELSE /\ Go(p, "enq") /\ UNCHANGED mon
             /\ UNCHANGED proto
PEnq(p) == /\ pc[p] = "enq"
           /\ LET id == <<p, pidx[p]>> IN
              IF Len(queue) < QCap
                THEN /\ queue' = Append(queue, Span(id)) /\ UNCHANGED <<dropped, mon>>
                ELSE /\ ~Blocking            \* blocking mode: the send blocks (action disabled)
                     /\ dropped' = dropped + 1
                     /\ mon' = [mon EXCEPT !.droppedIds = @ \cup {id}]
                     /\ UNCHANGED queue
           /\ Go(p, "ret")
           /\ UNCHANGED <<batch, mutex, stopped, stopCh, flushed, pidx, wret, wtmp>>
PRet(p) == /\ pc[p] = "ret" /\ Go(p, "idle")
           /\ mon' = [mon EXCEPT !.returnedEnd = @ \cup {<<p, pidx[p]>>},
                                 !.raced = IF mon.sdCalled THEN @ \cup {<<p, pidx[p]>>} ELSE @]
           /\ pidx' = [pidx EXCEPT ![p] = @ + 1]
           /\ UNCHANGED <<queue, batch, mutex, dropped, stopped, stopCh, flushed, wret, wtmp>>

(* ------------------------------------------------------------ worker *)
WStop == /\ pc["w"] = "select" /\ stopCh /\ Go("w", "drain") /\ UNCHANGED <<proto, mon>>
WTimer == /\ pc["w"] = "select" /\ batch # <<>> /\ Go("w", "explock") /\ wret' = "select"
          /\ UNCHANGED <<queue, batch, mutex, dropped, stopped, stopCh, flushed, pidx, wtmp, mon>>
WDeq == /\ pc["w"] \in {"select", "drain"} /\ queue # <<>>
        /\ LET it == Head(queue) IN
           /\ queue' = Tail(queue)
           /\ IF it.t = "marker"
                THEN /\ flushed' = (IF pc["w"] = "select" THEN [flushed EXCEPT ![it.f] = TRUE] ELSE flushed)
                     /\ UNCHANGED <<pc, wtmp>>
                ELSE /\ wtmp' = it.id /\ Go("w", IF pc["w"] = "select" THEN "append" ELSE "dappend")
                     /\ UNCHANGED flushed
        /\ UNCHANGED <<batch, mutex, dropped, stopped, stopCh, pidx, wret, mon>>
WAppend == /\ pc["w"] \in {"append", "dappend"} /\ mutex = "none"
           /\ batch' = Append(batch, wtmp)
           /\ IF pc["w"] = "append"
                THEN (IF Len(batch') >= MaxBatch THEN (Go("w", "explock") /\ wret' = "select")
                                                 ELSE (Go("w", "select") /\ UNCHANGED wret))
                ELSE (IF Len(batch') = MaxBatch THEN (Go("w", "explock") /\ wret' = "drain")
                                                ELSE (Go("w", "drain") /\ UNCHANGED wret))
           /\ UNCHANGED <<queue, mutex, dropped, stopped, stopCh, flushed, pidx, wtmp, mon>>
WDrainEmpty == /\ pc["w"] = "drain" /\ queue = <<>> /\ Go("w", "explock") /\ wret' = "done"
               /\ UNCHANGED <<queue, batch, mutex, dropped, stopped, stopCh, flushed, pidx, wtmp, mon>>
WExpLock == /\ pc["w"] = "explock" /\ mutex = "none"
            /\ IF batch = <<>>
                 THEN (Go("w", wret) /\ UNCHANGED <<mutex, mon>>)
                 ELSE (mutex' = "w" /\ Go("w", "exporting") /\ mon' = ExportBegin(mon))
            /\ UNCHANGED <<queue, batch, dropped, stopped, stopCh, flushed, pidx, wret, wtmp>>
WExpEnd == /\ pc["w"] = "exporting"
           /\ batch' = <<>> /\ mutex' = "none" /\ Go("w", wret)
           /\ mon' = [mon EXCEPT !.inflight = <<>>]
           /\ UNCHANGED <<queue, dropped, stopped, stopCh, flushed, pidx, wret, wtmp>>

(* ------------------------------------------------------------ flushers *)
Missing(S) == {id \in S : mon.handed[id] = 0 /\ id \notin mon.droppedIds /\ id \notin mon.ignoredIds}
FCall(f) == /\ pc[f] = "idle" /\ Go(f, "check")
            /\ mon' = [mon EXCEPT !.snapF[f] = mon.returnedEnd]
            /\ UNCHANGED proto
FCheck(f) == /\ pc[f] = "check"
             /\ IF stopped THEN (Go(f, "ret") /\ mon' = [mon EXCEPT !.early[f] = TRUE])
                           ELSE (Go(f, "enq") /\ UNCHANGED mon)
             /\ UNCHANGED proto
FEnq(f) == /\ pc[f] = "enq" /\ Len(queue) < QCap      \* the marker send blocks while the queue is full
           /\ queue' = Append(queue, Marker(f)) /\ Go(f, "wait")
           /\ UNCHANGED <<batch, mutex, dropped, stopped, stopCh, flushed, pidx, wret, wtmp, mon>>
FWaitStop(f) == /\ pc[f] = "wait" /\ stopCh /\ Go(f, "ret")
                /\ mon' = [mon EXCEPT !.early[f] = TRUE]
                /\ UNCHANGED proto
FWaitFlushed(f) == /\ pc[f] = "wait" /\ flushed[f] /\ Go(f, "explock") /\ UNCHANGED <<proto, mon>>
FExpLock(f) == /\ pc[f] = "explock" /\ mutex = "none"
               /\ IF batch = <<>>
                    THEN (Go(f, "ret") /\ UNCHANGED <<mutex, mon>>)
                    ELSE (mutex' = f /\ Go(f, "exporting") /\ mon' = ExportBegin(mon))
               /\ UNCHANGED <<queue, batch, dropped, stopped, stopCh, flushed, pidx, wret, wtmp>>
FExpEnd(f) == /\ pc[f] = "exporting"
              /\ batch' = <<>> /\ mutex' = "none" /\ Go(f, "ret")
              /\ mon' = [mon EXCEPT !.inflight = <<>>]
              /\ UNCHANGED <<queue, dropped, stopped, stopCh, flushed, pidx, wret, wtmp>>
FRet(f) == /\ pc[f] = "ret" /\ Go(f, "done")
           /\ mon' = [mon EXCEPT !.bad = @ \cup
                 (IF Missing(mon.snapF[f]) = {} THEN {}
                  ELSE IF mon.early[f] THEN {"D1-flush-during-shutdown"} ELSE {"flush-missed"})]
           /\ UNCHANGED proto

(* ------------------------------------------------------------ stoppers *)
(* sync.Once: the first caller runs the body, later callers wait until it is done *)
SCall(s) == /\ pc[s] = "idle"
            /\ mon' = [mon EXCEPT !.snapS[s] = mon.returnedEnd, !.sdCalled = TRUE]
            /\ Go(s, IF \E o \in Stoppers : pc[o] \notin {"idle", "oncewait"} THEN "oncewait" ELSE "set")
            /\ UNCHANGED proto
SSet(s) == /\ pc[s] = "set" /\ stopped' = TRUE /\ Go(s, "close")
           /\ UNCHANGED <<queue, batch, mutex, dropped, stopCh, flushed, pidx, wret, wtmp, mon>>
SClose(s) == /\ pc[s] = "close" /\ stopCh' = TRUE /\ Go(s, "wait")
             /\ UNCHANGED <<queue, batch, mutex, dropped, stopped, flushed, pidx, wret, wtmp, mon>>
SWait(s) == /\ pc[s] = "wait" /\ pc["w"] = "done" /\ Go(s, "ret") /\ UNCHANGED <<proto, mon>>
SOnceWait(s) == /\ pc[s] = "oncewait" /\ \E o \in Stoppers : pc[o] = "done"
                /\ Go(s, "ret") /\ UNCHANGED <<proto, mon>>
SRet(s) == /\ pc[s] = "ret" /\ Go(s, "done")
           /\ mon' = [mon EXCEPT !.shutRet = TRUE,
                                 !.bad = @ \cup (IF Missing(mon.snapS[s]) = {} THEN {}
                                                 ELSE IF Missing(mon.snapS[s]) \subseteq mon.raced
                                                      THEN {"D4-enqueue-after-drain"} ELSE {"shutdown-missed"})]
           /\ UNCHANGED proto

Next == \/ \E p \in Producers : PCall(p) \/ PCheck(p) \/ PEnq(p) \/ PRet(p)
        \/ WStop \/ WTimer \/ WDeq \/ WAppend \/ WDrainEmpty \/ WExpLock \/ WExpEnd
        \/ \E f \in Flushers : FCall(f) \/ FCheck(f) \/ FEnq(f) \/ FWaitStop(f) \/ FWaitFlushed(f)
                               \/ FExpLock(f) \/ FExpEnd(f) \/ FRet(f)
        \/ \E s \in Stoppers : SCall(s) \/ SSet(s) \/ SClose(s) \/ SWait(s) \/ SOnceWait(s) \/ SRet(s)

Fairness == /\ WF_vars(WStop \/ WDeq \/ WAppend \/ WDrainEmpty \/ WExpLock \/ WExpEnd)
            /\ \A p \in Producers : WF_vars(PCheck(p) \/ PEnq(p) \/ PRet(p))
            /\ \A f \in Flushers : WF_vars(FCheck(f) \/ FEnq(f) \/ FWaitStop(f) \/ FWaitFlushed(f) \/ FExpLock(f) \/ FExpEnd(f) \/ FRet(f))
            /\ \A s \in Stoppers : WF_vars(SSet(s) \/ SClose(s) \/ SWait(s) \/ SOnceWait(s) \/ SRet(s))
Spec == Init /\ [][Next]_vars
FairSpec == Spec /\ Fairness

(* ------------------------------------------------------------ properties *)
NoDup == \A id \in Ids : mon.handed[id] <= 1
BatchBound == Len(batch) <= MaxBatch
(* Known deviations of the code, each reproduced on the real implementation (known_findings/C01.json):  *)
(*  D1  ForceFlush that finds the processor stopped (or sees stopCh) returns nil although spans ended   *)
(*      before it was called have not been handed over yet (or never will be, see D4).                  *)
(*  D4  a span whose OnEnd passed the stopped check before Shutdown set the flag is enqueued after the  *)
(*      drain finished: never exported, not counted as dropped; a later Shutdown call still returns nil.*)
Contract == mon.bad \subseteq (IF AllowKnown THEN {"D1-flush-during-shutdown", "D4-enqueue-after-drain"} ELSE {})
DroppedCounted == dropped = Cardinality(mon.droppedIds)
MutexOK == (mutex = "none") = (mon.inflight = <<>>)
AllDone == /\ \A p \in Producers : pc[p] = "idle" /\ pidx[p] > SpansPer
           /\ \A f \in Flushers : pc[f] = "done"
           /\ \A s \in Stoppers : pc[s] = "done"
(* D2 (blocking mode): a producer that passed the stopped check can block forever once the worker is gone *)
Stuck == (~ENABLED Next) => AllDone
(* every call that was made eventually returns (calls themselves are the environment's choice) *)
Termination == /\ \A p \in Producers : (pc[p] = "check") ~> (pc[p] = "idle")
               /\ \A f \in Flushers : (pc[f] = "check") ~> (pc[f] = "done")
               /\ \A s \in Stoppers : (pc[s] \in {"set", "oncewait"}) ~> (pc[s] = "done")
View == <<queue, batch, mutex, dropped, stopped, stopCh, flushed, pc, pidx, wret, wtmp, mon>>
=============================================================================
