-------------------------------- MODULE BSP --------------------------------
(* Implementation-shaped specification of the batch span processor (C01).     *)
(* One action per critical section / linearization point of                   *)
(* sdk/trace/batch_span_processor.go; see DESIGN.md Appendix A.1.             *)
(*                                                                            *)
(* Processes: producers p (span.End -> OnEnd), the worker w (processQueue,    *)
(* then drainQueue), flushers f (ForceFlush) each with an export helper       *)
(* goroutine (`go func() { wait <- bsp.exportSpans(ctx) }()`), stoppers s     *)
(* (Shutdown) and the helper goroutine of the sync.Once body (close(stopCh),  *)
(* stopWait.Wait, exporter.Shutdown).  Environment: the exporter's outcome    *)
(* (ok / error / timeout = gives up only when its ctx is done) and the expiry *)
(* of the contexts of the callers in Expiring.                                *)
(* Monitor variables (mon) observe only API-level facts and carry the         *)
(* contract of the property; they never influence the protocol variables.     *)
EXTENDS Naturals, Sequences, FiniteSets, TLC

CONSTANTS Producers, SpansPer, QCap, MaxBatch, Blocking, Flushers, Stoppers,
          AllowKnown,    \* TRUE: admit the known deviations of the code (see Contract)
          CodeShape,     \* "current" = /repo with the three repairs below; each other value lacks one of them:
                         \* "pre-6258232" ForceFlush went on to export when its marker was not enqueued (D6)
                         \* "pre-af9523f" only the first Shutdown caller waited for the drain (D7)
                         \* "pre-ada0bc0" the historic shape: blocking sends did not look at stopCh (D2/D3),
                         \*               and neither of the two later repairs
          Outcomes,      \* subset of {"ok", "error", "timeout"}: what an ExportSpans call may answer
          ExportTimeout, \* BOOLEAN: o.ExportTimeout > 0 (exportSpans derives a ctx with deadline)
          Expiring,      \* subset of Flushers \cup Stoppers: callers whose ctx may become done during the call
          ResetOnFailure \* TRUE = the code (batch reset whatever ExportSpans answers); FALSE: model-level mutation

VARIABLES queue,     \* the channel: sequence of Span(id) / Marker(f)
          batch,     \* bsp.batch (sequence of ids)
          mutex,     \* batchMutex holder: "none" | "w" | flusher (its export helper)
          dropped,   \* bsp.dropped counter
          stopped,   \* bsp.stopped
          stopCh,    \* closed?
          flushed,   \* per flusher: marker channel closed?
          pc,        \* program counter of every process
          pidx,      \* producer -> index of the span it is ending
          wret,      \* where the worker continues after an export
          wtmp,      \* span the worker just dequeued
          hx,        \* flusher -> pc of its export helper: "none" | "lock" | "exporting" | "done"
          hres,      \* flusher -> what its helper's exportSpans returned: "" | "export"
          hs,        \* pc of the Shutdown helper goroutine: "none" | "close" | "wait" | "done"
          expired,   \* callers whose ctx is done
          err,       \* caller -> error class its call returns: "" | "ctx" | "export"
          mon        \* monitor record
vars == <<queue, batch, mutex, dropped, stopped, stopCh, flushed, pc, pidx, wret, wtmp, hx, hres, hs, expired, err, mon>>
proto == <<queue, batch, mutex, dropped, stopped, stopCh, flushed, pidx, wret, wtmp, hx, hres, hs, expired, err>>

Ids == Producers \X (1..SpansPer)
Span(id) == [t |-> "span", id |-> id]
Marker(f) == [t |-> "marker", f |-> f]
Procs == Producers \cup Flushers \cup Stoppers \cup {"w"}
Callers == Flushers \cup Stoppers
SelectsStopCh == CodeShape # "pre-ada0bc0"                    \* ada0bc0
FFCtxFix == CodeShape \in {"current", "pre-af9523f"}          \* 6258232
SDWaitFix == CodeShape \in {"current", "pre-6258232"}         \* af9523f

(* the initial state as a record (Trace_BSPImpl.tla re-installs it between the scenarios of one trace file) *)
I0 == [queue |-> <<>>, batch |-> <<>>, mutex |-> "none", dropped |-> 0, stopped |-> FALSE, stopCh |-> FALSE,
       flushed |-> [f \in Flushers |-> FALSE],
       pc |-> [x \in Procs |-> IF x = "w" THEN "select" ELSE "idle"],
       pidx |-> [p \in Producers |-> 1], wret |-> "select", wtmp |-> <<>>,
       hx |-> [f \in Flushers |-> "none"], hres |-> [f \in Flushers |-> ""], hs |-> "none",
       expired |-> {}, err |-> [c \in Callers |-> ""],
       mon |-> [inflight |-> <<>>, handed |-> [id \in Ids |-> 0], droppedIds |-> {}, ignoredIds |-> {}, abandonedIds |-> {},
                returnedEnd |-> {}, raced |-> {}, snapF |-> [f \in Flushers |-> {}], snapS |-> [s \in Stoppers |-> {}],
                sdCalled |-> FALSE, shutRet |-> FALSE, nilRet |-> {}, sdRetErr |-> FALSE, expShut |-> FALSE,
                early |-> [f \in Flushers |-> FALSE], nomarker |-> [f \in Flushers |-> FALSE], bad |-> {}]]
Init ==
  /\ queue = I0.queue /\ batch = I0.batch /\ mutex = I0.mutex /\ dropped = I0.dropped
  /\ stopped = I0.stopped /\ stopCh = I0.stopCh /\ flushed = I0.flushed
  /\ pc = I0.pc
  /\ pidx = I0.pidx /\ wret = I0.wret /\ wtmp = I0.wtmp
  /\ hx = I0.hx /\ hres = I0.hres /\ hs = I0.hs
  /\ expired = I0.expired /\ err = I0.err
  /\ mon = I0.mon

Go(x, l) == pc' = [pc EXCEPT ![x] = l]

(* ------------------------------------------------------------ exporter *)
(* ExportSpans is entered with the batch (that is the hand-over the statement *)
(* talks about, whatever the exporter answers).  `who` = "w" or the flusher   *)
(* whose helper exports: its ctx is the caller's, so it carries a deadline if *)
(* the caller's does, or if ExportTimeout > 0.                                *)
HasDeadline(who) == ExportTimeout \/ who \in Expiring
(* the ctx of some Shutdown call is done and the exporter has not been shut down yet (the drain that   *)
(* call started may still be running although the call has returned its ctx error), and some OTHER     *)
(* Shutdown call (one of N) has returned nil meanwhile (D7)                                             *)
EarlyNil(N) == ~mon.expShut /\ \E o \in Stoppers \cap expired : N \ {o} # {}
ExportBegin(m, who) ==
  [m EXCEPT !.inflight = batch,
            !.handed = [id \in Ids |-> @[id] + Cardinality({i \in 1..Len(batch) : batch[i] = id})],
            !.bad = @ \cup (IF m.inflight # <<>> THEN {"concurrent-export"} ELSE {})
                      \cup (IF Len(batch) > MaxBatch THEN {"batch-too-large"} ELSE {})
                      \cup (IF ExportTimeout /\ ~HasDeadline(who) THEN {"export-without-deadline"} ELSE {})
                      \* "nothing is exported after Shutdown has returned": Shutdown calls that returned nil (an
                      \* export after a Shutdown that returned its ctx error is an observation, not a violation)
                      \cup (IF m.expShut THEN {"export-after-shutdown"}
                            ELSE IF m.nilRet = {} THEN {}
                            ELSE IF EarlyNil(m.nilRet) THEN {"D7-shutdown-nil-while-expired-drain-runs"}
                            ELSE {"export-after-shutdown"})]
(* the answers an export by `who` may get now: "timeout" = the exporter waits for ctx.Done() *)
Answers(who) == {o \in Outcomes : o = "timeout" => (ExportTimeout \/ who \in expired)}
AfterExport(o) == IF o = "ok" \/ ResetOnFailure THEN <<>> ELSE batch

(* ------------------------------------------------------------ producers *)
PCall(p) == /\ pc[p] = "idle" /\ pidx[p] <= SpansPer /\ Go(p, "check")
            /\ UNCHANGED <<proto, mon>>
PCheck(p) == /\ pc[p] = "check"
             /\ IF stopped
                  THEN /\ Go(p, "ret")
                       /\ mon' = [mon EXCEPT !.ignoredIds = @ \cup {<<p, pidx[p]>>}]
                  ELSE /\ Go(p, "enq") /\ UNCHANGED mon
             /\ UNCHANGED proto
(* enqueueDrop: send, or `default:` when the send is not ready.  enqueueBlockOnQueueFull: a select over   *)
(* the send and (current shape) stopCh -- when both are ready Go picks either one.                        *)
PEnq(p) == /\ pc[p] = "enq"
           /\ LET id == <<p, pidx[p]>> IN
              \/ /\ Len(queue) < QCap
                 /\ queue' = Append(queue, Span(id)) /\ UNCHANGED <<dropped, mon>>
              \/ /\ ~Blocking /\ Len(queue) >= QCap
                 /\ dropped' = dropped + 1
                 /\ mon' = [mon EXCEPT !.droppedIds = @ \cup {id}]
                 /\ UNCHANGED queue
              \/ /\ Blocking /\ SelectsStopCh /\ stopCh       \* abandoned: neither enqueued nor counted
                 /\ mon' = [mon EXCEPT !.abandonedIds = @ \cup {id}]
                 /\ UNCHANGED <<queue, dropped>>
           /\ Go(p, "ret")
           /\ UNCHANGED <<batch, mutex, stopped, stopCh, flushed, pidx, wret, wtmp, hx, hres, hs, expired, err>>
PRet(p) == /\ pc[p] = "ret" /\ Go(p, "idle")
           /\ mon' = [mon EXCEPT !.returnedEnd = @ \cup {<<p, pidx[p]>>},
                                 !.raced = IF mon.sdCalled THEN @ \cup {<<p, pidx[p]>>} ELSE @]
           /\ pidx' = [pidx EXCEPT ![p] = @ + 1]
           /\ UNCHANGED <<queue, batch, mutex, dropped, stopped, stopCh, flushed, wret, wtmp, hx, hres, hs, expired, err>>

(* ------------------------------------------------------------ worker *)
WStop == /\ pc["w"] = "select" /\ stopCh /\ Go("w", "drain") /\ UNCHANGED <<proto, mon>>
WTimer == /\ pc["w"] = "select" /\ batch # <<>> /\ Go("w", "explock") /\ wret' = "select"
          /\ UNCHANGED <<queue, batch, mutex, dropped, stopped, stopCh, flushed, pidx, wtmp, hx, hres, hs, expired, err, mon>>
WDeq == /\ pc["w"] \in {"select", "drain"} /\ queue # <<>>
        /\ LET it == Head(queue) IN
           /\ queue' = Tail(queue)
           /\ IF it.t = "marker"
                THEN /\ flushed' = (IF pc["w"] = "select" THEN [flushed EXCEPT ![it.f] = TRUE] ELSE flushed)
                     /\ UNCHANGED <<pc, wtmp>>
                ELSE /\ wtmp' = it.id /\ Go("w", IF pc["w"] = "select" THEN "append" ELSE "dappend")
                     /\ UNCHANGED flushed
        /\ UNCHANGED <<batch, mutex, dropped, stopped, stopCh, pidx, wret, hx, hres, hs, expired, err, mon>>
WAppend == /\ pc["w"] \in {"append", "dappend"} /\ mutex = "none"
           /\ batch' = Append(batch, wtmp)
           /\ IF pc["w"] = "append"
                THEN (IF Len(batch') >= MaxBatch THEN (Go("w", "explock") /\ wret' = "select")
                                                 ELSE (Go("w", "select") /\ UNCHANGED wret))
                ELSE (IF Len(batch') = MaxBatch THEN (Go("w", "explock") /\ wret' = "drain")
                                                ELSE (Go("w", "drain") /\ UNCHANGED wret))
           /\ UNCHANGED <<queue, mutex, dropped, stopped, stopCh, flushed, pidx, wtmp, hx, hres, hs, expired, err, mon>>
WDrainEmpty == /\ pc["w"] = "drain" /\ queue = <<>> /\ Go("w", "explock") /\ wret' = "done"
               /\ UNCHANGED <<queue, batch, mutex, dropped, stopped, stopCh, flushed, pidx, wtmp, hx, hres, hs, expired, err, mon>>
WExpLock == /\ pc["w"] = "explock" /\ mutex = "none"
            /\ IF batch = <<>>
                 THEN (Go("w", wret) /\ UNCHANGED <<mutex, mon>>)
                 ELSE (mutex' = "w" /\ Go("w", "exporting") /\ mon' = ExportBegin(mon, "w"))
            /\ UNCHANGED <<queue, batch, dropped, stopped, stopCh, flushed, pidx, wret, wtmp, hx, hres, hs, expired, err>>
(* every answer resets the batch; the worker only reports an error to otel.Handle *)
WExpEnd(o) == /\ pc["w"] = "exporting" /\ o \in Answers("w")
              /\ batch' = AfterExport(o) /\ mutex' = "none" /\ Go("w", wret)
              /\ mon' = [mon EXCEPT !.inflight = <<>>]
              /\ UNCHANGED <<queue, dropped, stopped, stopCh, flushed, pidx, wret, wtmp, hx, hres, hs, expired, err>>

(* ------------------------------------------------------------ flushers *)
Missing(S) == {id \in S : mon.handed[id] = 0 /\ id \notin mon.droppedIds /\ id \notin mon.ignoredIds}
FCall(f) == /\ pc[f] = "idle" /\ Go(f, "check")
            /\ mon' = [mon EXCEPT !.snapF[f] = mon.returnedEnd]
            /\ UNCHANGED proto
FEarly(f) == Go(f, "ret") /\ mon' = [mon EXCEPT !.early[f] = TRUE]
FCheck(f) == /\ pc[f] = "check"
             /\ IF f \in expired THEN (Go(f, "ret") /\ err' = [err EXCEPT ![f] = "ctx"] /\ UNCHANGED mon)
                ELSE IF stopped THEN (FEarly(f) /\ UNCHANGED err)
                ELSE (Go(f, "enq") /\ UNCHANGED <<mon, err>>)
             /\ UNCHANGED <<queue, batch, mutex, dropped, stopped, stopCh, flushed, pidx, wret, wtmp, hx, hres, hs, expired>>
(* the marker send is a select over the send, stopCh (current shape) and ctx.Done(): when the marker   *)
(* was not enqueued the current shape returns nil if `stopped` is set; otherwise (ctx done) the code   *)
(* goes on to export the batch as it is -- without having waited for the spans queued before it (D6).  *)
FEnq(f) == /\ pc[f] = "enq"
           /\ \/ /\ Len(queue) < QCap
                 /\ queue' = Append(queue, Marker(f)) /\ Go(f, "wait") /\ UNCHANGED <<hx, mon, err>>
              \/ /\ SelectsStopCh /\ stopCh
                 /\ FEarly(f) /\ UNCHANGED <<queue, hx, err>>
              \/ /\ f \in expired
                 /\ IF SelectsStopCh /\ stopped
                      THEN (FEarly(f) /\ UNCHANGED <<queue, hx, err>>)
                      ELSE IF FFCtxFix        \* 6258232: marker not enqueued and ctx done -> ctx.Err()
                      THEN (Go(f, "ret") /\ err' = [err EXCEPT ![f] = "ctx"] /\ UNCHANGED <<queue, hx, mon>>)
                      ELSE /\ Go(f, "waitexp") /\ hx' = [hx EXCEPT ![f] = "lock"]
                           /\ mon' = [mon EXCEPT !.nomarker[f] = TRUE] /\ UNCHANGED <<queue, err>>
           /\ UNCHANGED <<batch, mutex, dropped, stopped, stopCh, flushed, pidx, wret, wtmp, hres, hs, expired>>
FWaitStop(f) == /\ pc[f] = "wait" /\ stopCh /\ FEarly(f) /\ UNCHANGED proto
FWaitFlushed(f) == /\ pc[f] = "wait" /\ flushed[f] /\ Go(f, "waitexp") /\ hx' = [hx EXCEPT ![f] = "lock"]
                   /\ UNCHANGED <<queue, batch, mutex, dropped, stopped, stopCh, flushed, pidx, wret, wtmp, hres, hs, expired, err, mon>>
FWaitCtx(f) == /\ pc[f] = "wait" /\ f \in expired /\ Go(f, "ret") /\ err' = [err EXCEPT ![f] = "ctx"]
               /\ UNCHANGED <<queue, batch, mutex, dropped, stopped, stopCh, flushed, pidx, wret, wtmp, hx, hres, hs, expired, mon>>
(* the export helper goroutine of flusher f *)
HExpLock(f) == /\ hx[f] = "lock" /\ mutex = "none"
               /\ IF batch = <<>>
                    THEN (hx' = [hx EXCEPT ![f] = "done"] /\ UNCHANGED <<mutex, mon>>)
                    ELSE (mutex' = f /\ hx' = [hx EXCEPT ![f] = "exporting"] /\ mon' = ExportBegin(mon, f))
               /\ UNCHANGED <<queue, batch, dropped, stopped, stopCh, flushed, pc, pidx, wret, wtmp, hres, hs, expired, err>>
HExpEnd(f, o) == /\ hx[f] = "exporting" /\ o \in Answers(f)
                 /\ batch' = AfterExport(o) /\ mutex' = "none" /\ hx' = [hx EXCEPT ![f] = "done"]
                 /\ hres' = [hres EXCEPT ![f] = IF o = "ok" THEN "" ELSE "export"]
                 /\ mon' = [mon EXCEPT !.inflight = <<>>]
                 /\ UNCHANGED <<queue, dropped, stopped, stopCh, flushed, pc, pidx, wret, wtmp, hs, expired, err>>
(* the caller waits for its helper or for its ctx *)
FExpDone(f) == /\ pc[f] = "waitexp" /\ hx[f] = "done" /\ Go(f, "ret") /\ err' = [err EXCEPT ![f] = hres[f]]
               /\ UNCHANGED <<queue, batch, mutex, dropped, stopped, stopCh, flushed, pidx, wret, wtmp, hx, hres, hs, expired, mon>>
FExpCtx(f) == /\ pc[f] = "waitexp" /\ f \in expired /\ Go(f, "ret") /\ err' = [err EXCEPT ![f] = "ctx"]
              /\ UNCHANGED <<queue, batch, mutex, dropped, stopped, stopCh, flushed, pidx, wret, wtmp, hx, hres, hs, expired, mon>>
FRet(f) == /\ pc[f] = "ret" /\ Go(f, "done")
           /\ mon' = [mon EXCEPT !.bad = @ \cup
                 (IF err[f] # "" \/ Missing(mon.snapF[f]) = {} THEN {}
                  ELSE IF mon.early[f] THEN {"D1-flush-during-shutdown"}
                  ELSE IF mon.nomarker[f] THEN {"D6-flush-nil-without-marker"} ELSE {"flush-missed"})]
           /\ UNCHANGED proto

(* ------------------------------------------------------------ stoppers *)
(* sync.Once: the first caller runs the body, later callers wait until the body has returned and then *)
(* return nil (their own ctx is never looked at).  The body sets the flag, starts the helper goroutine *)
(* and waits for it or for ctx.Done().                                                                 *)
(* The call begins (SCall: what the caller has seen so far is its snapshot), THEN it reaches sync.Once (SOnce): *)
(* the caller that gets there first runs the body -- not necessarily the one whose call began first (observed   *)
(* on the real code by the implementation-level trace validation: `bsp.sd.stopped` passed by a later caller).  *)
SCall(s) == /\ pc[s] = "idle"
            /\ mon' = [mon EXCEPT !.snapS[s] = mon.returnedEnd, !.sdCalled = TRUE]
            /\ Go(s, "once")
            /\ UNCHANGED proto
SOnce(s) == /\ pc[s] = "once"
            /\ Go(s, IF \E o \in Stoppers : pc[o] \notin {"idle", "once", "oncewait"} THEN "oncewait" ELSE "set")
            /\ UNCHANGED <<proto, mon>>
SSet(s) == /\ pc[s] = "set" /\ stopped' = TRUE /\ Go(s, "waitdone") /\ hs' = "close"
           /\ UNCHANGED <<queue, batch, mutex, dropped, stopCh, flushed, pidx, wret, wtmp, hx, hres, expired, err, mon>>
HClose == /\ hs = "close" /\ stopCh' = TRUE /\ hs' = "wait"
          /\ UNCHANGED <<queue, batch, mutex, dropped, stopped, flushed, pc, pidx, wret, wtmp, hx, hres, expired, err, mon>>
HWait == /\ hs = "wait" /\ pc["w"] = "done" /\ hs' = "done"       \* stopWait.Wait(); exporter.Shutdown(ctx); close(wait)
         /\ mon' = [mon EXCEPT !.expShut = TRUE]
         /\ UNCHANGED <<queue, batch, mutex, dropped, stopped, stopCh, flushed, pc, pidx, wret, wtmp, hx, hres, expired, err>>
SWait(s) == /\ pc[s] = "waitdone" /\ hs = "done" /\ Go(s, "ret") /\ UNCHANGED <<proto, mon>>
SCtx(s) == /\ pc[s] = "waitdone" /\ s \in expired /\ Go(s, "ret") /\ err' = [err EXCEPT ![s] = "ctx"]
           /\ UNCHANGED <<queue, batch, mutex, dropped, stopped, stopCh, flushed, pidx, wret, wtmp, hx, hres, hs, expired, mon>>
(* af9523f: the Once body only starts the helper; EVERY caller then waits for it or for its own ctx.    *)
(* Before: the body itself waited (SWait / SCtx by the first caller), later callers returned nil as soon  *)
(* as the body had returned.                                                                              *)
SOnceWait(s) == /\ pc[s] = "oncewait"
                /\ IF SDWaitFix THEN (\E o \in Stoppers : pc[o] \notin {"idle", "once", "set", "oncewait"}) /\ Go(s, "waitdone")
                               ELSE (\E o \in Stoppers : pc[o] \in {"ret", "done"}) /\ Go(s, "ret")
                /\ UNCHANGED <<proto, mon>>
SRet(s) == /\ pc[s] = "ret" /\ Go(s, "done")
           /\ mon' = IF err[s] # "" THEN [mon EXCEPT !.sdRetErr = TRUE]
                     ELSE [mon EXCEPT !.shutRet = TRUE, !.nilRet = @ \cup {s},
                                 !.bad = @ \cup (IF Missing(mon.snapS[s]) = {} THEN {}
                                                 ELSE IF EarlyNil({s})
                                                      THEN {"D7-shutdown-nil-while-expired-drain-runs"}
                                                 ELSE IF Missing(mon.snapS[s]) \subseteq mon.raced
                                                      THEN {"D4-enqueue-after-drain"} ELSE {"shutdown-missed"})]
           /\ UNCHANGED proto

(* ------------------------------------------------------------ environment: caller contexts *)
(* only where the code looks at the ctx (an already-cancelled ctx = expiry before the first check) *)
CtxExpire(c) == /\ c \in Expiring \ expired
                /\ pc[c] \in (IF c \in Flushers THEN {"check", "enq", "wait", "waitexp"} ELSE {"waitdone"})
                /\ expired' = expired \cup {c}
                /\ UNCHANGED <<queue, batch, mutex, dropped, stopped, stopCh, flushed, pc, pidx, wret, wtmp, hx, hres, hs, err, mon>>

Next == \/ \E p \in Producers : PCall(p) \/ PCheck(p) \/ PEnq(p) \/ PRet(p)
        \/ WStop \/ WTimer \/ WDeq \/ WAppend \/ WDrainEmpty \/ WExpLock \/ (\E o \in Outcomes : WExpEnd(o))
        \/ \E f \in Flushers : FCall(f) \/ FCheck(f) \/ FEnq(f) \/ FWaitStop(f) \/ FWaitFlushed(f) \/ FWaitCtx(f)
                               \/ HExpLock(f) \/ (\E o \in Outcomes : HExpEnd(f, o)) \/ FExpDone(f) \/ FExpCtx(f) \/ FRet(f)
        \/ \E s \in Stoppers : SCall(s) \/ SOnce(s) \/ SSet(s) \/ SWait(s) \/ SCtx(s) \/ SOnceWait(s) \/ SRet(s)
        \/ HClose \/ HWait
        \/ \E c \in Callers : CtxExpire(c)

Fairness == /\ WF_vars(WStop \/ WDeq \/ WAppend \/ WDrainEmpty \/ WExpLock \/ (\E o \in Outcomes : WExpEnd(o)))
            /\ \A p \in Producers : WF_vars(PCheck(p) \/ PEnq(p) \/ PRet(p))
            /\ \A f \in Flushers : WF_vars(FCheck(f) \/ FEnq(f) \/ FWaitStop(f) \/ FWaitFlushed(f) \/ FWaitCtx(f)
                                           \/ FExpDone(f) \/ FExpCtx(f) \/ FRet(f))
            /\ \A f \in Flushers : WF_vars(HExpLock(f) \/ (\E o \in Outcomes : HExpEnd(f, o)))
            /\ \A s \in Stoppers : WF_vars(SOnce(s) \/ SSet(s) \/ SWait(s) \/ SCtx(s) \/ SOnceWait(s) \/ SRet(s))
            /\ WF_vars(HClose \/ HWait)
Spec == Init /\ [][Next]_vars
FairSpec == Spec /\ Fairness

(* ------------------------------------------------------------ properties *)
NoDup == \A id \in Ids : mon.handed[id] <= 1
BatchBound == Len(batch) <= MaxBatch
(* Known deviations of the code (the ones reproduced on the real implementation are listed in              *)
(* known_findings/C01.json):                                                                                 *)
(*  D1  ForceFlush that finds the processor stopped (or sees stopCh) returns nil although spans ended      *)
(*      before it was called have not been handed over yet (or never will be, see D4).                     *)
(*  D4  a span whose OnEnd passed the stopped check before Shutdown set the flag is enqueued after the     *)
(*      drain finished, or (blocking mode, current shape) abandoned because stopCh is closed: never        *)
(*      exported, not counted as dropped; a later Shutdown call still returns nil.                          *)
(*  D7  (pre-af9523f) after a Shutdown whose ctx expired has returned ctx.Err() (drain still running) a  *)
(*      later Shutdown (sync.Once already done) returns nil at once, before that drain has handed the      *)
(*      spans over; spans are exported after it returned nil.                                               *)
(*  D6  (pre-6258232) ForceFlush whose ctx expires before the marker is enqueued exports the current batch; if *)
(*      that export finishes first it returns nil without having waited for the spans queued before it.    *)
(* D2/D3 (pre-ada0bc0: blocking sends that never return after the drain) are liveness defects: see Stuck.  *)
(* D1 and D4 are still in /repo; D6 / D7 belong to the shapes that lack their repair *)
KnownDeviations == {"D1-flush-during-shutdown", "D4-enqueue-after-drain"}
                   \cup (IF FFCtxFix THEN {} ELSE {"D6-flush-nil-without-marker"})
                   \cup (IF SDWaitFix THEN {} ELSE {"D7-shutdown-nil-while-expired-drain-runs"})
Contract == mon.bad \subseteq (IF AllowKnown THEN KnownDeviations ELSE {})
NoD1 == "D1-flush-during-shutdown" \notin mon.bad
NoD4 == "D4-enqueue-after-drain" \notin mon.bad
NoD7 == "D7-shutdown-nil-while-expired-drain-runs" \notin mon.bad
NoD6 == "D6-flush-nil-without-marker" \notin mon.bad
DroppedCounted == dropped = Cardinality(mon.droppedIds)
MutexOK == (mutex = "none") = (mon.inflight = <<>>)
(* hook-level consistency: a span is accounted for at most one way *)
Accounting == /\ mon.droppedIds \cap mon.abandonedIds = {}
              /\ \A id \in mon.droppedIds \cup mon.abandonedIds \cup mon.ignoredIds : mon.handed[id] = 0
              /\ (mon.abandonedIds # {} => Blocking /\ mon.sdCalled)
              /\ mon.abandonedIds \subseteq mon.raced \cup {<<p, pidx[p]>> : p \in Producers}
AllDone == /\ \A p \in Producers : pc[p] = "idle" /\ pidx[p] > SpansPer
           /\ \A f \in Flushers : pc[f] = "done" /\ hx[f] \in {"none", "done"}
           /\ \A s \in Stoppers : pc[s] = "done"
           /\ hs = "done"
(* nothing blocks forever: a state without successor is one where every call has returned and every     *)
(* background goroutine has finished (violated by the pre-ada0bc0 shape: D2, D3)                        *)
Stuck == (~ENABLED Next) => AllDone
(* every call that was made eventually returns (calls themselves are the environment's choice) *)
Termination == /\ \A p \in Producers : (pc[p] = "check") ~> (pc[p] = "idle")
               /\ \A f \in Flushers : (pc[f] = "check") ~> (pc[f] = "done")
               /\ \A f \in Flushers : (hx[f] = "lock") ~> (hx[f] = "done")
               /\ \A s \in Stoppers : (pc[s] \in {"once", "set", "oncewait"}) ~> (pc[s] = "done")
               /\ (hs = "close") ~> (hs = "done")
=============================================================================
