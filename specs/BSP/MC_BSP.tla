------------------------------ MODULE MC_BSP ------------------------------
EXTENDS BSP
MCProducers == @PRODUCERS@
MCFlushers == @FLUSHERS@
MCStoppers == @STOPPERS@
MCOutcomes == @OUTCOMES@
MCExpiring == @EXPIRING@
=============================================================================
