------------------------ MODULE MC_RingQueue_EquivOld ------------------------
(* TLC equivalence run, OLD side: specs/BatchLP/BatchLP.tla (the bounded spec  *)
(* of check C06, unchanged) with history variables that name every record by   *)
(* its enqueue ordinal, projected onto the state of RingQueue.tla for the      *)
(* observed slot j, for every j.  Collects the set of projected (non-stuttering) edges;  *)
(* MC_RingQueue_EquivNew collects the edges of RingQueue.tla for the same      *)
(* constants; checks/inductive.py compares the two sets.                       *)
EXTENDS BatchLP, Integers
VARIABLES hEnq, hDeq, ord

MCEmitters == {"g1"}
MCFlushers == @FLUSHERS@
MCStoppers == {"s1"}
MCCancels == {}
MCAdmit == Known

HInit == Init /\ hEnq = 0 /\ hDeq = 0 /\ ord = [id \in Ids |-> 0] /\ TLCSet(1, {})
IsEnq == \E g \in Emitters : pc[g] = "enq" /\ pc'[g] # "enq"
HNext == /\ Next
         /\ IF IsEnq THEN /\ hEnq' = hEnq + 1 /\ hDeq' = hDeq
                          /\ ord' = [ord EXCEPT ![q'[Len(q')].id] = hEnq + 1]
                     ELSE /\ hEnq' = hEnq /\ ord' = ord
                          /\ hDeq' = hDeq + (Len(q) - Len(q'))      \* q' = q without a prefix
HSpec == HInit /\ [][HNext]_<<vars, hEnq, hDeq, ord>>

(* the physical ring the abstract sequence q lives in: the write pointer has advanced once per Enqueue *)
PWr == hEnq % QCap
PRd == (PWr - Len(q) + QCap) % QCap
POff(j) == IF j >= PRd THEN j - PRd ELSE j - PRd + QCap
Stale(j) == LET c == {o \in 1..hEnq : (o - 1) % QCap = j} IN IF c = {} THEN 0 ELSE CHOOSE o \in c : \A x \in c : x <= o
PCell(j) == IF POff(j) < Len(q) THEN ord[q[POff(j) + 1].id] ELSE Stale(j)
\*        rd,  wr,  len,    cell,  enq,  deq,  dropped
Proj(j) == <<PRd, PWr, Len(q), PCell(j), hEnq, hDeq, mon.logged + dropped>>
Record == \A j \in 0..(QCap - 1) :
            LET a == Proj(j)
                b == Proj(j)'
            IN a # b => TLCSet(1, TLCGet(1) \cup {<<j, a, b>>})
Dump == \A e \in TLCGet(1) : PrintT("EDGE " \o ToString(e))
=============================================================================
