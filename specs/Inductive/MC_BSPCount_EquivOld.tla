------------------------- MODULE MC_BSPCount_EquivOld -------------------------
(* TLC equivalence run, OLD side: specs/BSP/BSP.tla (check C01, unchanged)     *)
(* with history counters, projected onto the state of BSPCount.tla.            *)
EXTENDS BSP, Integers
VARIABLES hOffered, hExported, hLastExp
MCProducers == @PRODUCERS@
MCFlushers == {"f1"}
MCStoppers == {"s1"}
MCOutcomes == {"ok", "error"}
MCExpiring == {}
HInit == Init /\ hOffered = 0 /\ hExported = 0 /\ hLastExp = 0 /\ TLCSet(1, {})
HNext == /\ Next
         /\ hOffered' = hOffered + (IF \E p \in Producers : pc[p] = "enq" /\ pc'[p] = "ret" THEN 1 ELSE 0)
         /\ hExported' = hExported + (IF batch # <<>> /\ batch' = <<>> THEN Len(batch) ELSE 0)
         /\ hLastExp' = IF mon.inflight = <<>> /\ mon'.inflight # <<>> THEN Len(batch) ELSE hLastExp
HSpec == HInit /\ [][HNext]_<<vars, hOffered, hExported, hLastExp>>
NSpans == Cardinality({i \in 1..Len(queue) : queue[i].t = "span"})
\*       qs, qm, tmp, batch, wpc, wret, mutex, stopCh, offered, exported, dropped, abandoned, lastExp
Proj == <<NSpans, Len(queue) - NSpans, IF pc["w"] \in {"append", "dappend"} THEN 1 ELSE 0, Len(batch), pc["w"], wret,
          IF mutex \in {"none", "w"} THEN mutex ELSE "f", stopCh, hOffered, hExported, dropped,
          Cardinality(mon.abandonedIds), hLastExp>>
Record == LET a == Proj
              b == Proj'
          IN a # b => TLCSet(1, TLCGet(1) \cup {<<a, b>>})
Dump == \A e \in TLCGet(1) : PrintT("EDGE " \o ToString(e))
=============================================================================
