-------------------------- MODULE MC_AttrCap_EquivNew --------------------------
(* NEW side: edges of AttrCap.tla projected onto what a reader sees and the    *)
(* ghosts (pc, pend, rawLen, kCnt -- the call structure and the raw slice --   *)
(* have no counterpart in SpanModel.tla: Call steps are stuttering steps).     *)
EXTENDS AttrCap, TLC, Sequences
CONSTANT MaxSteps
MCLim == @LIMIT@
MCCallSpace == 1..MaxSteps
EInit == Init /\ TLCSet(1, {})
ESpec == EInit /\ [][Next]_vars
Proj == <<uniq, Has, kVal, dropped, offered, invalid, seen, kRank, kWant, kOffers>>
Record == /\ offered' <= MaxSteps /\ offered' + pend' <= MaxSteps
          /\ seen' - (IF kRank' > 0 THEN 1 ELSE 0) <= 2      \* the OLD side has two valid keys besides K
          /\ LET a == Proj
                 b == Proj'
             IN a # b => TLCSet(1, TLCGet(1) \cup {<<a, b>>})
Dump == \A e \in TLCGet(1) : PrintT("EDGE " \o ToString(e))
=============================================================================
