SPECIFICATION ESpec
CONSTANTS
  QCap = @QCAP@
  MaxBatch = @MAXBATCH@
  Blocking = @BLOCKING@
  Bug = ""
  MaxOffer = @MAXOFFER@
  MaxMarkers = 1
INVARIANTS IndInv Safety
ACTION_CONSTRAINT Record
POSTCONDITION Dump
CHECK_DEADLOCK FALSE
