---------------------- MODULE MC_TraceStateIns_EquivNew ----------------------
(* NEW side: edges of TraceStateIns.tla, at most MaxSteps Inserts, at most two *)
(* members besides the observed keys (the OLD side has four keys).             *)
EXTENDS TraceStateIns, TLC, Sequences
CONSTANT MaxSteps
MCPosSpace == -1..(N - 1)
EInit == Init /\ TLCSet(1, {})
ESpec == EInit /\ [][Next]_vars
Proj == <<len, p1, p2, c1, c2, s1, s2, clock, youngDrop>>
Record == /\ clock' <= MaxSteps /\ len' - c1' - c2' <= 2
          /\ LET a == Proj
                 b == Proj'
             IN a # b => TLCSet(1, TLCGet(1) \cup {<<a, b>>})
Dump == \A e \in TLCGet(1) : PrintT("EDGE " \o ToString(e))
=============================================================================
