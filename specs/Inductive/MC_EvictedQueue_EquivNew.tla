----------------------- MODULE MC_EvictedQueue_EquivNew -----------------------
EXTENDS EvictedQueue, TLC, Sequences
CONSTANT MaxOffer
MCCap == @CAP@
EInit == Init /\ TLCSet(1, {})
ESpec == EInit /\ [][Next]_vars
Proj == <<len, pos, dropped, offered>>
Record == /\ offered' <= MaxOffer
          /\ LET a == Proj
                 b == Proj'
             IN a # b => TLCSet(1, TLCGet(1) \cup {<<X, a, b>>})
Dump == \A e \in TLCGet(1) : PrintT("EDGE " \o ToString(e))
=============================================================================
