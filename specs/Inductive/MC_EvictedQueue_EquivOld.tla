----------------------- MODULE MC_EvictedQueue_EquivOld -----------------------
(* TLC equivalence run, OLD side: FifoAdd of specs/SpanState/SpanModel.tla     *)
(* (re-used verbatim) iterated on items named by their offer ordinal,          *)
(* projected onto EvictedQueue.tla's state for every observed item x.          *)
EXTENDS SpanModel, TLC
CONSTANTS Cap, MaxOffer
VARIABLES fq, fdropped, foffered
MCCap == @CAP@
EInit == fq = <<>> /\ fdropped = 0 /\ foffered = 0 /\ TLCSet(1, {})
ENext == /\ foffered < MaxOffer
         /\ LET res == FifoAdd(fq, Cap, foffered + 1)
            IN fq' = res.q /\ fdropped' = fdropped + res.d /\ foffered' = foffered + 1
ESpec == EInit /\ [][ENext]_<<fq, fdropped, foffered>>
Pos(x) == IF \E i \in 1..Len(fq) : fq[i] = x THEN (CHOOSE i \in 1..Len(fq) : fq[i] = x) - 1 ELSE -1
Proj(x) == <<Len(fq), Pos(x), fdropped, foffered>>
Record == \A x \in 1..MaxOffer :
            LET a == Proj(x)
                b == Proj(x)'
            IN a # b => TLCSet(1, TLCGet(1) \cup {<<x, a, b>>})
Dump == \A e \in TLCGet(1) : PrintT("EDGE " \o ToString(e))
=============================================================================
