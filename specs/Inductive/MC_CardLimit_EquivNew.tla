------------------------ MODULE MC_CardLimit_EquivNew ------------------------
(* TLC equivalence run, NEW side: the edges of CardLimit.tla for small         *)
(* constants (attribute sets 1..4, values 1..2, at most MaxSteps measurements  *)
(* between resets -- counted by a history variable).                           *)
EXTENDS CardLimit, TLC, Sequences
CONSTANT MaxSteps
VARIABLE steps
MCKeySpace == 1..4
MCValSpace == {1, 2}
EInit == Init /\ steps = 0 /\ TLCSet(1, {})
ENext == \/ (Reset /\ UNCHANGED steps)
         \/ (steps < MaxSteps /\ steps' = steps + 1 /\ Next /\ ~Reset)
ESpec == EInit /\ [][ENext]_<<vars, steps>>
Proj == <<n, ovf, h, t, tRest, tOvf, m, measured, distinct, r>>
(* the bounded universe of the OLD side has three attribute sets besides K *)
Record == /\ distinct' - (IF r' > 0 THEN 1 ELSE 0) <= 3
          /\ LET a == Proj
                 b == Proj'
             IN a # b => TLCSet(1, TLCGet(1) \cup {<<K, a, b>>})
Dump == \A e \in TLCGet(1) : PrintT("EDGE " \o ToString(e))
=============================================================================
