SPECIFICATION HSpec
CONSTANTS
  Producers <- MCProducers
  Flushers <- MCFlushers
  Stoppers <- MCStoppers
  Outcomes <- MCOutcomes
  Expiring <- MCExpiring
  SpansPer = @SPANSPER@
  QCap = @QCAP@
  MaxBatch = @MAXBATCH@
  Blocking = @BLOCKING@
  AllowKnown = TRUE
  CodeShape = "current"
  ExportTimeout = FALSE
  ResetOnFailure = TRUE
INVARIANTS BatchBound
ACTION_CONSTRAINT Record
POSTCONDITION Dump
CHECK_DEADLOCK FALSE
