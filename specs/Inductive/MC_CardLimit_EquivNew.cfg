SPECIFICATION ESpec
CONSTANTS
  L = @L@
  K = @K@
  Bug = ""
  MaxSteps = @MAXSTEPS@
  KeySpace <- MCKeySpace
  ValSpace <- MCValSpace
INVARIANTS IndInv Safety
ACTION_CONSTRAINT Record
POSTCONDITION Dump
CHECK_DEADLOCK FALSE
