SPECIFICATION ESpec
CONSTANTS
  Lim <- MCLim
  MaxSteps = @MAXSTEPS@
ACTION_CONSTRAINT Record
POSTCONDITION Dump
CHECK_DEADLOCK FALSE
