SPECIFICATION ESpec
CONSTANTS
  Cap = @N@
  NK = 4
  MaxSteps = @MAXSTEPS@
ACTION_CONSTRAINT Record
POSTCONDITION Dump
CHECK_DEADLOCK FALSE
