------------------------- MODULE MC_BSPCount_EquivNew -------------------------
(* NEW side: edges of BSPCount.tla with at most MaxOffer spans and MaxMarkers  *)
(* markers (history counter).  BSPCount lets any number of anonymous flushers  *)
(* enqueue markers and export at any time, BSP.tla has the flushers of its     *)
(* configuration: the comparison is OLD edges \subseteq NEW edges (what the    *)
(* transfer of Safety needs); checks/inductive.py also reports how many NEW    *)
(* edges have no OLD counterpart.                                              *)
EXTENDS BSPCount, TLC, Sequences
CONSTANTS MaxOffer, MaxMarkers
VARIABLE markers
EInit == Init /\ markers = 0 /\ TLCSet(1, {})
ENext == Next /\ markers' = markers + (IF qm' > qm THEN 1 ELSE 0)
ESpec == EInit /\ [][ENext]_<<vars, markers>>
Proj == <<qs, qm, tmp, batch, wpc, wret, mutex, stopCh, offered, exported, dropped, abandoned, lastExp>>
Record == /\ offered' <= MaxOffer /\ markers' <= MaxMarkers
          /\ LET a == Proj
                 b == Proj'
             IN a # b => TLCSet(1, TLCGet(1) \cup {<<a, b>>})
Dump == \A e \in TLCGet(1) : PrintT("EDGE " \o ToString(e))
=============================================================================
