------------------------------ MODULE BSPCount ------------------------------
(* Core D (C01): counting abstraction of the batch span processor.             *)
(* Code: /repo/sdk/trace/batch_span_processor.go -- enqueueDrop /              *)
(* enqueueBlockOnQueueFull (channel send or drop), processQueue / drainQueue   *)
(* (receive, append under batchMutex, export when len(batch) >= / ==           *)
(* MaxExportBatchSize), exportSpans under batchMutex (worker, or the helper    *)
(* goroutine of a ForceFlush), close(stopCh).  One action per action of        *)
(* specs/BSP/BSP.tla with the same names (PEnq, FEnq, WStop, WTimer, WDeq,     *)
(* WAppend, WDrainEmpty, WExpLock, WExpEnd, HExpLock, HExpEnd, HClose); the    *)
(* queue and the batch are their lengths, producers and flushers are           *)
(* anonymous (any number of them: every enabled action may be taken by a new   *)
(* goroutine), contexts/outcomes/monitors are dropped.  Tied to BSP.tla by     *)
(* the TLC run MC_BSPCount_Equiv (projected edges of BSP.tla are edges of this *)
(* module).                                                                    *)
(* Unbounded parameters: QCap > 0, MaxBatch > 0, Blocking, number of           *)
(* producers, flushers, spans.                                                 *)
EXTENDS Integers
CONSTANTS
  \* @type: Int;
  QCap,
  \* @type: Int;
  MaxBatch,
  \* @type: Bool;
  Blocking,
  \* @type: Str;
  Bug      \* "" | "gt" (export only when len(batch) > MaxBatch) | "nocount" (drop not counted) | "le" (send when len <= QCap)
VARIABLES
  \* @type: Int;
  qs,        \* spans in the channel
  \* @type: Int;
  qm,        \* ForceFlush markers in the channel
  \* @type: Int;
  tmp,       \* 1 while the worker holds a span it has received and not yet appended
  \* @type: Int;
  batch,     \* len(bsp.batch)
  \* @type: Str;
  wpc,       \* worker: select | append | dappend | drain | explock | exporting | done
  \* @type: Str;
  wret,      \* where the worker continues after exportSpans
  \* @type: Str;
  mutex,     \* batchMutex: none | w | f (helper of some flusher)
  \* @type: Bool;
  stopCh,    \* closed
  \* @type: Int;
  offered,   \* ghost: OnEnd calls that reached the enqueue
  \* @type: Int;
  exported,  \* ghost: spans of finished ExportSpans calls
  \* @type: Int;
  dropped,   \* bsp.dropped
  \* @type: Int;
  abandoned, \* ghost: blocking sends given up because stopCh is closed
  \* @type: Int;
  lastExp    \* ghost: size of the batch the last ExportSpans call was entered with
\* @type: <<Int, Int, Int, Int, Str, Str, Str, Bool, Int, Int, Int, Int, Int>>;
vars == <<qs, qm, tmp, batch, wpc, wret, mutex, stopCh, offered, exported, dropped, abandoned, lastExp>>

Params == QCap \in Nat /\ QCap > 0 /\ MaxBatch \in Nat /\ MaxBatch > 0 /\ Blocking \in BOOLEAN
CInit == Params /\ Bug = ""
CInitGt == Params /\ Bug = "gt"
CInitNoCount == Params /\ Bug = "nocount"
CInitLe == Params /\ Bug = "le"

Init == /\ qs = 0 /\ qm = 0 /\ tmp = 0 /\ batch = 0 /\ wpc = "select" /\ wret = "select" /\ mutex = "none"
        /\ stopCh = FALSE /\ offered = 0 /\ exported = 0 /\ dropped = 0 /\ abandoned = 0 /\ lastExp = 0

Room == IF Bug = "le" THEN qs + qm <= QCap ELSE qs + qm < QCap
PEnq == /\ offered' = offered + 1
        /\ \/ Room /\ qs' = qs + 1 /\ UNCHANGED <<dropped, abandoned>>
           \/ ~Blocking /\ qs + qm >= QCap /\ dropped' = (IF Bug = "nocount" THEN dropped ELSE dropped + 1) /\ UNCHANGED <<qs, abandoned>>
           \/ Blocking /\ stopCh /\ abandoned' = abandoned + 1 /\ UNCHANGED <<qs, dropped>>
        /\ UNCHANGED <<qm, tmp, batch, wpc, wret, mutex, stopCh, exported, lastExp>>
FEnq == /\ qs + qm < QCap /\ qm' = qm + 1
        /\ UNCHANGED <<qs, tmp, batch, wpc, wret, mutex, stopCh, offered, exported, dropped, abandoned, lastExp>>
WStop == /\ wpc = "select" /\ stopCh /\ wpc' = "drain"
         /\ UNCHANGED <<qs, qm, tmp, batch, wret, mutex, stopCh, offered, exported, dropped, abandoned, lastExp>>
WTimer == /\ wpc = "select" /\ batch > 0 /\ wpc' = "explock" /\ wret' = "select"
          /\ UNCHANGED <<qs, qm, tmp, batch, mutex, stopCh, offered, exported, dropped, abandoned, lastExp>>
WDeqSpan == /\ wpc \in {"select", "drain"} /\ qs > 0 /\ qs' = qs - 1 /\ tmp' = 1
            /\ wpc' = (IF wpc = "select" THEN "append" ELSE "dappend")
            /\ UNCHANGED <<qm, batch, wret, mutex, stopCh, offered, exported, dropped, abandoned, lastExp>>
WDeqMarker == /\ wpc \in {"select", "drain"} /\ qm > 0 /\ qm' = qm - 1
              /\ UNCHANGED <<qs, tmp, batch, wpc, wret, mutex, stopCh, offered, exported, dropped, abandoned, lastExp>>
Reached(b) == IF Bug = "gt" THEN b > MaxBatch ELSE b >= MaxBatch
WAppend == /\ wpc \in {"append", "dappend"} /\ mutex = "none" /\ batch' = batch + 1 /\ tmp' = 0
           /\ IF wpc = "append"
                THEN (IF Reached(batch + 1) THEN wpc' = "explock" /\ wret' = "select" ELSE wpc' = "select" /\ wret' = wret)
                ELSE (IF batch + 1 = MaxBatch THEN wpc' = "explock" /\ wret' = "drain" ELSE wpc' = "drain" /\ wret' = wret)
           /\ UNCHANGED <<qs, qm, mutex, stopCh, offered, exported, dropped, abandoned, lastExp>>
WDrainEmpty == /\ wpc = "drain" /\ qs + qm = 0 /\ wpc' = "explock" /\ wret' = "done"
               /\ UNCHANGED <<qs, qm, tmp, batch, mutex, stopCh, offered, exported, dropped, abandoned, lastExp>>
WExpLock == /\ wpc = "explock" /\ mutex = "none"
            /\ IF batch = 0 THEN wpc' = wret /\ UNCHANGED <<mutex, lastExp>>
                            ELSE mutex' = "w" /\ wpc' = "exporting" /\ lastExp' = batch
            /\ UNCHANGED <<qs, qm, tmp, batch, wret, stopCh, offered, exported, dropped, abandoned>>
WExpEnd == /\ wpc = "exporting" /\ exported' = exported + batch /\ batch' = 0 /\ mutex' = "none" /\ wpc' = wret
           /\ UNCHANGED <<qs, qm, tmp, wret, stopCh, offered, dropped, abandoned, lastExp>>
HExpLock == /\ mutex = "none" /\ batch > 0 /\ mutex' = "f" /\ lastExp' = batch
            /\ UNCHANGED <<qs, qm, tmp, batch, wpc, wret, stopCh, offered, exported, dropped, abandoned>>
HExpEnd == /\ mutex = "f" /\ exported' = exported + batch /\ batch' = 0 /\ mutex' = "none"
           /\ UNCHANGED <<qs, qm, tmp, wpc, wret, stopCh, offered, dropped, abandoned, lastExp>>
HClose == /\ ~stopCh /\ stopCh' = TRUE
          /\ UNCHANGED <<qs, qm, tmp, batch, wpc, wret, mutex, offered, exported, dropped, abandoned, lastExp>>
Next == PEnq \/ FEnq \/ WStop \/ WTimer \/ WDeqSpan \/ WDeqMarker \/ WAppend \/ WDrainEmpty \/ WExpLock \/ WExpEnd
        \/ HExpLock \/ HExpEnd \/ HClose
Spec == Init /\ [][Next]_vars

-----------------------------------------------------------------------------
TypeOK == /\ qs \in Int /\ qm \in Int /\ tmp \in Int /\ batch \in Int /\ stopCh \in BOOLEAN
          /\ wpc \in {"select", "append", "dappend", "drain", "explock", "exporting", "done"}
          /\ wret \in {"select", "drain", "done"} /\ mutex \in {"none", "w", "f"}
          /\ offered \in Int /\ exported \in Int /\ dropped \in Int /\ abandoned \in Int /\ lastExp \in Int
IndInv ==
  /\ TypeOK
  /\ qs >= 0 /\ qm >= 0 /\ qs + qm <= QCap
  /\ 0 <= batch /\ batch <= MaxBatch
  /\ (wpc \in {"select", "drain", "append", "dappend"} => batch < MaxBatch)   \* room for the span about to be appended
  /\ (tmp = 1 <=> wpc \in {"append", "dappend"}) /\ tmp \in {0, 1}
  /\ (mutex = "w" <=> wpc = "exporting")
  /\ (wpc \in {"drain", "dappend", "done"} \/ (wpc \in {"explock", "exporting"} /\ wret \in {"drain", "done"}) => stopCh)
  /\ exported >= 0 /\ dropped >= 0 /\ abandoned >= 0 /\ (abandoned > 0 => Blocking) /\ (dropped > 0 => ~Blocking)
  /\ offered = qs + tmp + batch + exported + dropped + abandoned
  /\ 0 <= lastExp /\ lastExp <= MaxBatch
(* The statement of core D *)
Safety ==
  /\ lastExp <= MaxBatch /\ batch <= MaxBatch           \* a batch never exceeds MaxBatch when it is exported (nor ever)
  /\ qs + qm <= QCap                                    \* the queue never holds more than QCap items
  /\ offered = qs + tmp + batch + exported + dropped + abandoned   \* conservation of spans
NeverFullBatch == batch < MaxBatch \/ MaxBatch = 1
=============================================================================
