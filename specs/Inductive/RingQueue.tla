----------------------------- MODULE RingQueue -----------------------------
(* Core B (C06): the ring queue of the log batch processor, parameterised.    *)
(* Code: /repo/sdk/log/batch.go `queue` (Enqueue l.312-328, TryDequeue        *)
(* l.338-359, Flush l.363-376); each action below is ONE critical section of  *)
(* q.Mutex.  Generalises the `q` / `dropped` part of specs/BatchLP/BatchLP.tla *)
(* (EEnqueue, PollDequeue, FDequeue, SFlush), tied to it by the TLC run        *)
(* MC_RingQueue_Equiv (see README.md).                                         *)
(*                                                                            *)
(* Unbounded parameters: Cap (ring size), Batch (len(buf) of the poll         *)
(* goroutine), the number of records (records are named by their enqueue      *)
(* ordinal 1, 2, 3, ...).  The ring `buf` of Cap slots is observed through    *)
(* ONE arbitrary slot J (a symbolic constant, 0 <= J < Cap): `cell` is the     *)
(* record in slot J (0 = never written).  No action reads a slot to decide    *)
(* anything (the queue is data independent), so the projection of the array   *)
(* onto slot J is exact, and an invariant proved for a symbolic J holds for   *)
(* every slot.                                                                *)
EXTENDS Integers

CONSTANTS
  \* @type: Int;
  Cap,
  \* @type: Int;
  Batch,
  \* @type: Int;
  J,
  \* @type: Str;
  Bug      \* "" = the code; "lt" / "newest" / "nodrop" / "nowrap" = seeded model bugs (non-vacuity)

VARIABLES
  \* @type: Int;
  rd,       \* q.read  (slot index)
  \* @type: Int;
  wr,       \* q.write (slot index)
  \* @type: Int;
  len,      \* q.len
  \* @type: Int;
  cell,     \* record held by slot J
  \* @type: Int;
  enq,      \* records ever enqueued (ghost)
  \* @type: Int;
  deq,      \* records handed out by a successful TryDequeue or Flush (ghost)
  \* @type: Int;
  dropped,  \* q.dropped, never reset here (BatchLP's mon.logged + dropped)
  \* @type: Int;
  lastN,    \* size of the slice the last TryDequeue offered to write()
  \* @type: Int;
  lastM,    \* len(buf) of that call
  \* @type: Int;
  outGot,   \* ghost: record read from slot J by the last hand-out that covered it
  \* @type: Int;
  outWant,  \* ghost: ordinal that hand-out owed at that position
  \* @type: Bool;
  early     \* ghost: some record was dropped while the ring still had room
\* @type: <<Int, Int, Int, Int, Int, Int, Int, Int, Int, Int, Int, Bool>>;
vars == <<rd, wr, len, cell, enq, deq, dropped, lastN, lastM, outGot, outWant, early>>

Params == /\ Cap \in Nat /\ Cap > 0
          /\ Batch \in Nat /\ Batch > 0
          /\ J \in Int /\ 0 <= J /\ J < Cap
CInit == Params /\ Bug = ""
CInitLt == Params /\ Bug = "lt"           \* `len + 1 >= cap` instead of `len > cap` after the increment
CInitNewest == Params /\ Bug = "newest"   \* a full ring overwrites the NEWEST record
CInitNoDrop == Params /\ Bug = "nodrop"   \* the overwrite is not counted
CInitNoWrap == Params /\ Bug = "nowrap"   \* the write pointer does not wrap
ASSUME Assumptions == Cap \in Nat /\ Cap > 0 /\ Batch \in Nat /\ Batch > 0 /\ J \in 0..(Cap - 1)

Nx(i) == IF i + 1 = Cap THEN 0 ELSE i + 1                  \* ring.Next()
Adv(i, n) == IF i + n >= Cap THEN i + n - Cap ELSE i + n    \* n times Next(), 0 <= n <= Cap
Off(j) == IF j >= rd THEN j - rd ELSE j - rd + Cap          \* distance of slot j from q.read
Min(a, b) == IF a < b THEN a ELSE b
Live(j) == Off(j) < len                                     \* slot j holds a queued record

Init == /\ rd = 0 /\ wr = 0 /\ len = 0 /\ cell = 0 /\ enq = 0 /\ deq = 0 /\ dropped = 0
        /\ lastN = 0 /\ lastM = 0 /\ outGot = 0 /\ outWant = 0 /\ early = FALSE

(* q.write.Value = r; q.write = q.write.Next(); q.len++; if q.len > q.cap { q.len = q.cap;          *)
(* q.read = q.read.Next(); q.dropped.Add(1) }                                                         *)
Enqueue ==
  LET full == IF Bug = "lt" THEN len + 1 >= Cap ELSE len = Cap
      slot == IF Bug = "newest" /\ len = Cap THEN (IF wr = 0 THEN Cap - 1 ELSE wr - 1) ELSE wr
  IN /\ enq' = enq + 1
     /\ cell' = IF slot = J THEN enq + 1 ELSE cell
     /\ IF Bug = "newest" /\ len = Cap
          THEN wr' = wr /\ rd' = rd /\ len' = len /\ dropped' = dropped + 1
          ELSE /\ wr' = (IF Bug = "nowrap" THEN wr + 1 ELSE Nx(wr))
               /\ IF full THEN /\ len' = (IF Bug = "lt" THEN len ELSE Cap) /\ rd' = Nx(rd)
                               /\ dropped' = (IF Bug = "nodrop" THEN dropped ELSE dropped + 1)
                          ELSE len' = len + 1 /\ rd' = rd /\ dropped' = dropped
     /\ early' = (early \/ (dropped' > dropped /\ len < Cap))
     /\ UNCHANGED <<deq, lastN, lastM, outGot, outWant>>

(* n := min(len(buf), q.len); copy n records from q.read on; if write(buf[:n]) { q.len -= n }         *)
(* else { q.read = origRead }.  m = len(buf): Batch (poll goroutine) or Cap (ForceFlush).             *)
TryDequeue(m, ok) ==
  LET n == Min(m, len) IN
  /\ lastN' = n /\ lastM' = m
  /\ IF ok THEN /\ rd' = Adv(rd, n) /\ len' = len - n /\ deq' = deq + n
                /\ IF Off(J) < n THEN outGot' = cell /\ outWant' = deq + dropped + 1 + Off(J)
                                 ELSE UNCHANGED <<outGot, outWant>>
           ELSE UNCHANGED <<rd, len, deq, outGot, outWant>>
  /\ UNCHANGED <<wr, cell, enq, dropped, early>>

(* out := the q.len records from q.read on; q.read advanced q.len times; q.len = 0 *)
Flush ==
  /\ rd' = Adv(rd, len) /\ len' = 0 /\ deq' = deq + len
  /\ IF Live(J) THEN outGot' = cell /\ outWant' = deq + dropped + 1 + Off(J)
                ELSE UNCHANGED <<outGot, outWant>>
  /\ UNCHANGED <<wr, cell, enq, dropped, lastN, lastM, early>>

Next == \/ Enqueue
        \/ \E ok \in BOOLEAN : TryDequeue(Batch, ok) \/ TryDequeue(Cap, ok)
        \/ Flush
Spec == Init /\ [][Next]_vars

-----------------------------------------------------------------------------
TypeOK == /\ rd \in Int /\ wr \in Int /\ len \in Int /\ cell \in Int /\ enq \in Int /\ deq \in Int
          /\ early \in BOOLEAN /\ dropped \in Int /\ lastN \in Int /\ lastM \in Int /\ outGot \in Int /\ outWant \in Int
IndInv ==
  /\ TypeOK
  /\ 0 <= rd /\ rd < Cap /\ 0 <= wr /\ wr < Cap /\ 0 <= len /\ len <= Cap
  /\ wr = Adv(rd, len)                         \* the write pointer is len slots ahead of the read pointer
  /\ deq >= 0 /\ dropped >= 0 /\ enq >= 0
  /\ enq = len + deq + dropped                 \* conservation
  /\ (Live(J) => cell = enq - len + 1 + Off(J)) \* slot J holds the record of ordinal (oldest held) + offset
  /\ 0 <= lastN /\ lastN <= lastM
  /\ outGot = outWant
  /\ early = FALSE

(* The statement of core B *)
Safety ==
  /\ len <= Cap                                              \* never more than cap records
  /\ enq = len + deq + dropped                               \* enqueued = held + dequeued + dropped
  /\ (Live(J) => cell = enq - len + 1 + Off(J))              \* survivors = the most recent len records, in FIFO order,
                                                             \* (for EVERY slot, J being arbitrary)
  /\ lastN <= lastM                                          \* a dequeue never offers more than len(buf) (= Batch for the poll goroutine)
  /\ outGot = outWant                                        \* records are handed out in enqueue order: position i of a hand-out
                                                             \* is ordinal (handed out or dropped before) + 1 + i
  /\ ~early                                                  \* a record is dropped only by an Enqueue that found the ring full
(* IndInv => Safety as an invariant check: starting anywhere in IndInv, Safety holds (--length=0) *)
(* sanity of the encoding (must be VIOLATED from IndInv in one step: the full ring is reachable) *)
NeverFull == len < Cap \/ Cap = 1
=============================================================================
