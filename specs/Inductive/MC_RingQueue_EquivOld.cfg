SPECIFICATION HSpec
CONSTANTS
  Emitters <- MCEmitters
  Flushers <- MCFlushers
  Stoppers <- MCStoppers
  RecsPer = @MAXENQ@
  QCap = @CAP@
  Batch = @BATCH@
  BufSize = 1
  Faults = FALSE
  Ticker = TRUE
  CloneOnEmit = TRUE
  ChunkAbort = FALSE
  FixStopDone = FALSE
  FixClosed = FALSE
  Cancels <- MCCancels
  Admit <- MCAdmit
INVARIANTS QueueBound
ACTION_CONSTRAINT Record
POSTCONDITION Dump
CHECK_DEADLOCK FALSE
