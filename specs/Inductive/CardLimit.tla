----------------------------- MODULE CardLimit -----------------------------
(* Core A (C12): the cardinality limiter of one aggregator, parameterised.     *)
(* Code: /repo/sdk/metric/internal/aggregate/limit.go `limiter.Attributes`     *)
(* (l.33-42) as used under the aggregator's mutex by sum.go valueMap.measure   *)
(* (l.37-53), lastvalue.go (l.41-58), histogram.go (l.91-117),                 *)
(* exponential_histogram.go (l.344-362): ONE critical section = action         *)
(* Measure; a delta collection (`clear(s.values)`, sum.go l.82-109) = Reset.   *)
(* Generalises Admit / Upd / AfterCollect of specs/Cardinality/CardModel.tla   *)
(* and the decision of CardLimitConc.tla; tied to CardModel.tla by the TLC     *)
(* run MC_CardLimit_Equiv (see README.md).                                     *)
(*                                                                            *)
(* Unbounded parameters: the limit L (any integer; <= 0 = unlimited), the      *)
(* number of attribute sets (named by integers), the measured values (any      *)
(* integers), the number of measurements.  The map `values` is observed        *)
(* through ONE arbitrary attribute set K (a symbolic constant): h/t are        *)
(* "K is a key of the map" / values[K].n; the other entries are summarised by  *)
(* their number (n = len(values)) and the sum of their values (tRest).  The    *)
(* code decides with `exists` and `len` only, so this projection is exact;     *)
(* an invariant proved for a symbolic K holds for every attribute set.         *)
(* Assumption: no measurement carries the overflow attribute set itself        *)
(* (otel.metric.overflow=true) as its own attributes.                          *)
EXTENDS Integers

CONSTANTS
  \* @type: Int;
  L,
  \* @type: Int;
  K,
  \* @type: Str;
  Bug      \* "" = the code; "gt" / "noexists" / "limit" = seeded model bugs (non-vacuity)

VARIABLES
  \* @type: Int;
  n,        \* len(values), the overflow entry included
  \* @type: Bool;
  ovf,      \* overflowSet is a key of values
  \* @type: Bool;
  h,        \* K is a key of values
  \* @type: Int;
  t,        \* values[K].n (0 when absent)
  \* @type: Int;
  tRest,    \* sum of values[k].n over the keys k other than K and overflowSet
  \* @type: Int;
  tOvf,     \* values[overflowSet].n (0 when absent)
  \* @type: Int;
  m,        \* ghost: total measured under K since the last reset
  \* @type: Int;
  measured, \* ghost: total measured since the last reset
  \* @type: Int;
  distinct, \* ghost: number of distinct attribute sets measured since the last reset
  \* @type: Int;
  r         \* ghost: K was the r-th distinct attribute set (0 = not measured yet)
\* @type: <<Int, Bool, Bool, Int, Int, Int, Int, Int, Int, Int>>;
vars == <<n, ovf, h, t, tRest, tOvf, m, measured, distinct, r>>

KeySpace == Int     \* attribute sets (overridden by a finite set for TLC)
ValSpace == Int     \* measured values

Params == L \in Int /\ K \in Int
CInit == Params /\ Bug = ""
CInitGt == Params /\ Bug = "gt"               \* `len > limit-1` instead of `len >= limit-1`
CInitNoExists == Params /\ Bug = "noexists"   \* the `!exists` test is forgotten
CInitLimit == Params /\ Bug = "limit"         \* `len >= limit` (overflow point not counted)

B2I(b) == IF b THEN 1 ELSE 0
Own == n - B2I(ovf)                       \* entries that keep their identity
Others == Own - B2I(h)                    \* ... other than K
SeenLost == distinct - Own - B2I(r > 0 /\ ~h)   \* sets other than K measured before and folded into overflow

Init == /\ n = 0 /\ ovf = FALSE /\ h = FALSE /\ t = 0 /\ tRest = 0 /\ tOvf = 0
        /\ m = 0 /\ measured = 0 /\ distinct = 0 /\ r = 0

(* limiter.Attributes(attrs, values): overflowSet iff aggLimit > 0 /\ !exists /\ len(values) >= aggLimit-1 *)
ToOvf(exists) ==
  /\ L > 0
  /\ (Bug = "noexists" \/ ~exists)
  /\ (CASE Bug = "gt" -> n > L - 1
        [] Bug = "limit" -> n >= L
        [] OTHER -> n >= L - 1)

(* one measurement of value v under the observed set K *)
MeasureK(v) ==
  /\ m' = m + v /\ measured' = measured + v
  /\ IF r = 0 THEN r' = distinct + 1 /\ distinct' = distinct + 1 ELSE UNCHANGED <<r, distinct>>
  /\ IF ToOvf(h)
       THEN /\ tOvf' = tOvf + v /\ ovf' = TRUE /\ n' = (IF ovf THEN n ELSE n + 1)
            /\ UNCHANGED <<h, t, tRest>>
       ELSE /\ h' = TRUE /\ t' = t + v /\ n' = (IF h THEN n ELSE n + 1)
            /\ UNCHANGED <<ovf, tOvf, tRest>>

(* one measurement of value v under some other set: `exists` = it is a key of the map; when it is not,  *)
(* `fresh` = it has not been measured since the last reset                                              *)
MeasureOther(v, exists, fresh) ==
  /\ (exists => Others >= 1 /\ ~fresh)
  /\ (~exists /\ ~fresh => SeenLost >= 1)
  /\ measured' = measured + v /\ distinct' = (IF fresh THEN distinct + 1 ELSE distinct)
  /\ IF ToOvf(exists)
       THEN /\ tOvf' = tOvf + v /\ ovf' = TRUE /\ n' = (IF ovf THEN n ELSE n + 1)
            /\ UNCHANGED <<h, t, tRest, m, r>>
       ELSE /\ tRest' = tRest + v /\ n' = (IF exists THEN n ELSE n + 1)
            /\ UNCHANGED <<ovf, tOvf, h, t, m, r>>

(* delta collection: clear(s.values) *)
Reset == /\ n' = 0 /\ ovf' = FALSE /\ h' = FALSE /\ t' = 0 /\ tRest' = 0 /\ tOvf' = 0
         /\ m' = 0 /\ measured' = 0 /\ distinct' = 0 /\ r' = 0

Next == \/ \E v \in ValSpace : MeasureK(v)
        \/ \E v \in ValSpace : \E exists \in BOOLEAN, fresh \in BOOLEAN : MeasureOther(v, exists, fresh)
        \/ Reset
Spec == Init /\ [][Next]_vars

-----------------------------------------------------------------------------
Limited == L > 0
Kept(rank) == rank > 0 /\ (~Limited \/ rank <= L - 1)     \* among the first L-1 distinct sets (or no limit)
TypeOK == /\ n \in Int /\ ovf \in BOOLEAN /\ h \in BOOLEAN /\ t \in Int /\ tRest \in Int /\ tOvf \in Int
          /\ m \in Int /\ measured \in Int /\ distinct \in Int /\ r \in Int
IndInv ==
  /\ TypeOK
  /\ n >= 0 /\ distinct >= 0 /\ 0 <= r /\ r <= distinct
  /\ Own = (IF Limited /\ distinct > L - 1 THEN L - 1 ELSE distinct)
  /\ (ovf <=> (Limited /\ distinct > L - 1))
  /\ (h <=> Kept(r))
  /\ (h => t = m) /\ (~h => t = 0) /\ (r = 0 => m = 0)
  /\ (~ovf => tOvf = 0)
  /\ (Others = 0 => tRest = 0)
  /\ (B2I(h) * t) + tRest + tOvf = measured

(* The statement of core A *)
Safety ==
  /\ (Limited => n <= L)                        \* never more than L reported sets
  /\ (Kept(r) => h /\ t = m)                    \* the first L-1 distinct sets keep their identity (K arbitrary) and
                                                \* report exactly what was measured under them
  /\ (r > 0 /\ ~Kept(r) => ~h /\ ovf)           \* every other measured set is not reported itself: the overflow set exists
  /\ (r = 0 => ~h)                              \* a set that was not measured is not reported
  /\ (IF h THEN t ELSE 0) + tRest + tOvf = measured   \* total over the reported sets = total measured
  /\ (~Limited => ~ovf /\ n = distinct)         \* L <= 0: unlimited, every distinct set reported
(* sanity of the encoding (must be VIOLATED in one step from IndInv) *)
NeverOverflows == ~ovf
=============================================================================
