------------------------ MODULE MC_RingQueue_EquivNew ------------------------
(* TLC equivalence run, NEW side: the edges of RingQueue.tla for small         *)
(* constants, projected onto its protocol variables (the ghosts lastN, lastM,  *)
(* outGot, outWant, early have no counterpart in BatchLP.tla).                 *)
EXTENDS RingQueue, TLC, Sequences
CONSTANT MaxEnq
EInit == Init /\ TLCSet(1, {})
ESpec == EInit /\ [][Next]_vars
Proj == <<rd, wr, len, cell, enq, deq, dropped>>
Record == /\ enq' <= MaxEnq
          /\ LET a == Proj
                 b == Proj'
             IN a # b => TLCSet(1, TLCGet(1) \cup {<<J, a, b>>})
Dump == \A e \in TLCGet(1) : PrintT("EDGE " \o ToString(e))
=============================================================================
