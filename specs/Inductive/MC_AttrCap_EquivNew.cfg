SPECIFICATION ESpec
CONSTANTS
  Limit <- MCLim
  Bug = ""
  MaxSteps = @MAXSTEPS@
  CallSpace <- MCCallSpace
INVARIANTS IndInv Safety
ACTION_CONSTRAINT Record
POSTCONDITION Dump
CHECK_DEADLOCK FALSE
