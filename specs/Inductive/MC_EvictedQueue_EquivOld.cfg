SPECIFICATION ESpec
CONSTANTS
  Cap <- MCCap
  MaxOffer = @MAXOFFER@
ACTION_CONSTRAINT Record
POSTCONDITION Dump
CHECK_DEADLOCK FALSE
