---------------------- MODULE MC_TraceStateIns_EquivOld ----------------------
(* TLC equivalence run, OLD side: Inserted / Deleted of                        *)
(* specs/TraceContext/W3CTraceContext.tla (re-used verbatim) on keys 1..NK,    *)
(* with a history of last-insert times, projected onto TraceStateIns.tla for   *)
(* every ordered pair of distinct observed keys.                               *)
EXTENDS W3CTraceContext, Integers, TLC
CONSTANTS Cap, NK, MaxSteps
VARIABLES tl, stamp, tclock, young
EInit == tl = <<>> /\ stamp = [k \in 1..NK |-> 0] /\ tclock = 0 /\ young = [pr \in (1..NK) \X (1..NK) |-> FALSE] /\ TLCSet(1, {})
Has(l, k) == \E i \in 1..Len(l) : l[i].k = k
Pos(l, k) == IF Has(l, k) THEN (CHOOSE i \in 1..Len(l) : l[i].k = k) - 1 ELSE -1
Cnt(l, k) == Cardinality({i \in 1..Len(l) : l[i].k = k})
Ins(k) == /\ tclock < MaxSteps /\ tclock' = tclock + 1
          /\ tl' = Inserted(tl, k, tclock + 1, Cap)
          /\ stamp' = [stamp EXCEPT ![k] = tclock + 1]
          \* a pair (a, b): an Insert of a third, new key dropped a while b, inserted earlier, stayed (or the other way round)
          /\ young' = [pr \in (1..NK) \X (1..NK) |->
                         young[pr] \/ (k # pr[1] /\ k # pr[2] /\ ~Has(tl, k) /\
                                       ((Has(tl, pr[1]) /\ ~Has(tl', pr[1]) /\ Has(tl', pr[2]) /\ stamp[pr[2]] < stamp[pr[1]])
                                        \/ (Has(tl, pr[2]) /\ ~Has(tl', pr[2]) /\ Has(tl', pr[1]) /\ stamp[pr[1]] < stamp[pr[2]])))]
Del(k) == /\ Has(tl, k) /\ tl' = Deleted(tl, k) /\ UNCHANGED <<stamp, tclock, young>>
ENext == \E k \in 1..NK : Ins(k) \/ Del(k)
ESpec == EInit /\ [][ENext]_<<tl, stamp, tclock, young>>
\*           len, p1, p2, c1, c2, s1, s2, clock, youngDrop
Proj(a, b) == <<Len(tl), Pos(tl, a), Pos(tl, b), Cnt(tl, a), Cnt(tl, b), stamp[a], stamp[b], tclock, young[<<a, b>>]>>
Record == \A a, b \in 1..NK : a # b =>
            LET x == Proj(a, b)
                y == Proj(a, b)'
            IN x # y => TLCSet(1, TLCGet(1) \cup {<<x, y>>})
Dump == \A e \in TLCGet(1) : PrintT("EDGE " \o ToString(e))
=============================================================================
