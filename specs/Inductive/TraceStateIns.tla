---------------------------- MODULE TraceStateIns ----------------------------
(* Core E (C03): TraceState.Insert / Delete on the member list, parameterised. *)
(* Code: /repo/trace/tracestate.go Insert l.289-314 (found := index of the     *)
(* key; new list = [m] ++ list[0:found] ++ list[found+1:], one longer only if  *)
(* the key is new and n < maxListMembers, otherwise the right-most falls off), *)
(* Delete l.318-329.  TraceState is an immutable value: one call = one action. *)
(* Generalises Inserted / Deleted of specs/TraceContext/W3CTraceContext.tla    *)
(* (re-used verbatim by MC_TraceStateIns_EquivOld).  Only members that         *)
(* newMember accepts are modelled (the grammar is C03's business).             *)
(* Unbounded parameters: N = maxListMembers (32 in the code; any N >= 1), any  *)
(* number of keys and calls.  The list is observed through TWO arbitrary       *)
(* distinct keys K1, K2 (symbolic): p1/p2 = their index in the list (-1 =      *)
(* absent), c1/c2 = how often they occur, s1/s2 = the time of their last       *)
(* Insert.  Insert and Delete move members without looking at other members,   *)
(* so the projection is exact; two keys because "newest first" relates two.    *)
EXTENDS Integers
CONSTANTS
  \* @type: Int;
  N,
  \* @type: Str;
  Bug      \* "" | "first" (overflow drops the left-most old member) | "nomove" (update in place) | "le" (`n <= max` grows)
VARIABLES
  \* @type: Int;
  len,
  \* @type: Int;
  p1,
  \* @type: Int;
  p2,
  \* @type: Int;
  c1,
  \* @type: Int;
  c2,
  \* @type: Int;
  s1,
  \* @type: Int;
  s2,
  \* @type: Int;
  clock,    \* ghost: number of Insert calls so far
  \* @type: Bool;
  youngDrop \* ghost: an overflowing Insert dropped one observed key while the other, inserted EARLIER, stayed
\* @type: <<Int, Int, Int, Int, Int, Int, Int, Int, Bool>>;
vars == <<len, p1, p2, c1, c2, s1, s2, clock, youngDrop>>

Params == N \in Nat /\ N >= 1
CInit == Params /\ Bug = ""
CInitFirst == Params /\ Bug = "first"
CInitNoMove == Params /\ Bug = "nomove"
CInitLe == Params /\ Bug = "le"

B2I(b) == IF b THEN 1 ELSE 0
Others == len - c1 - c2        \* members with other keys
Init == len = 0 /\ p1 = -1 /\ p2 = -1 /\ c1 = 0 /\ c2 = 0 /\ s1 = 0 /\ s2 = 0 /\ clock = 0 /\ youngDrop = FALSE

Grow == IF Bug = "le" THEN len <= N ELSE len < N
(* where a member at index p of the old list ends up when a NEW key is inserted (-1 = dropped) *)
ShiftNew(p) == IF p < 0 THEN -1
               ELSE IF Grow THEN p + 1
               ELSE IF Bug = "first" THEN (IF p = 0 THEN -1 ELSE p)          \* [m] ++ list[1:n]
               ELSE (IF p = len - 1 THEN -1 ELSE p + 1)                      \* [m] ++ list[0:n-1]
(* ... when the key found at index f is inserted again: [m] ++ list[0:f] ++ list[f+1:] *)
ShiftUpd(p, f) == IF p < 0 THEN -1 ELSE IF p < f THEN p + 1 ELSE p

(* Insert(K1, v) / Insert(K2, v) *)
InsertK(one) ==
  LET pk == IF one THEN p1 ELSE p2
      po == IF one THEN p2 ELSE p1
      npo == IF pk < 0 THEN ShiftNew(po) ELSE IF Bug = "nomove" THEN po ELSE ShiftUpd(po, pk)
      npk == IF pk >= 0 /\ Bug = "nomove" THEN pk ELSE 0
  IN /\ clock' = clock + 1
     /\ len' = (IF pk < 0 /\ Grow THEN len + 1 ELSE len)
     /\ UNCHANGED youngDrop
     /\ IF one THEN p1' = npk /\ p2' = npo /\ c1' = 1 /\ c2' = (IF npo < 0 THEN 0 ELSE c2) /\ s1' = clock + 1 /\ s2' = s2
               ELSE p2' = npk /\ p1' = npo /\ c2' = 1 /\ c1' = (IF npo < 0 THEN 0 ELSE c1) /\ s2' = clock + 1 /\ s1' = s1

(* Insert of another key: found at index f (0 <= f < len, not an observed position), or new (f = -1) *)
InsertOther(f) ==
  /\ f >= -1 /\ f < len
  /\ (f >= 0 => f # p1 /\ f # p2 /\ Others >= 1)
  /\ clock' = clock + 1 /\ UNCHANGED <<s1, s2>>
  /\ len' = (IF f < 0 /\ Grow THEN len + 1 ELSE len)
  /\ LET n1 == IF f < 0 THEN ShiftNew(p1) ELSE IF Bug = "nomove" THEN p1 ELSE ShiftUpd(p1, f)
         n2 == IF f < 0 THEN ShiftNew(p2) ELSE IF Bug = "nomove" THEN p2 ELSE ShiftUpd(p2, f)
     IN /\ p1' = n1 /\ p2' = n2 /\ c1' = (IF n1 < 0 THEN 0 ELSE c1) /\ c2' = (IF n2 < 0 THEN 0 ELSE c2)
        /\ youngDrop' = (youngDrop \/ (p1 >= 0 /\ n1 < 0 /\ n2 >= 0 /\ s2 < s1) \/ (p2 >= 0 /\ n2 < 0 /\ n1 >= 0 /\ s1 < s2))

(* Delete(key): the first member with that key is removed *)
DeleteK(one) ==
  LET pk == IF one THEN p1 ELSE p2
      po == IF one THEN p2 ELSE p1
      npo == IF pk >= 0 /\ po > pk THEN po - 1 ELSE po
  IN /\ pk >= 0 /\ len' = len - 1 /\ UNCHANGED <<s1, s2, clock, youngDrop>>
     /\ IF one THEN p1' = -1 /\ c1' = 0 /\ p2' = npo /\ c2' = c2
               ELSE p2' = -1 /\ c2' = 0 /\ p1' = npo /\ c1' = c1
DeleteOther(f) ==
  /\ f >= 0 /\ f < len /\ f # p1 /\ f # p2 /\ Others >= 1
  /\ len' = len - 1 /\ UNCHANGED <<c1, c2, s1, s2, clock, youngDrop>>
  /\ p1' = (IF p1 > f THEN p1 - 1 ELSE p1) /\ p2' = (IF p2 > f THEN p2 - 1 ELSE p2)

PosSpace == Int
Next == \/ \E one \in BOOLEAN : InsertK(one) \/ DeleteK(one)
        \/ \E f \in PosSpace : InsertOther(f) \/ DeleteOther(f)
Spec == Init /\ [][Next]_vars

-----------------------------------------------------------------------------
TypeOK == /\ len \in Int /\ p1 \in Int /\ p2 \in Int /\ c1 \in Int /\ c2 \in Int /\ s1 \in Int /\ s2 \in Int
          /\ clock \in Int /\ youngDrop \in BOOLEAN
IndInv ==
  /\ TypeOK
  /\ 0 <= len /\ len <= N /\ clock >= 0
  /\ -1 <= p1 /\ p1 < len /\ -1 <= p2 /\ p2 < len
  /\ c1 = B2I(p1 >= 0) /\ c2 = B2I(p2 >= 0) /\ Others >= 0
  /\ (p1 >= 0 /\ p2 >= 0 => p1 # p2)
  /\ 0 <= s1 /\ s1 <= clock /\ 0 <= s2 /\ s2 <= clock
  /\ (p1 >= 0 => s1 > 0) /\ (p2 >= 0 => s2 > 0)
  /\ (s1 > 0 /\ s2 > 0 => s1 # s2)
  /\ (p1 >= 0 /\ p2 >= 0 => (s1 > s2 <=> p1 < p2))
  /\ (p1 >= 0 => p1 <= clock - s1) /\ (p2 >= 0 => p2 <= clock - s2)
  /\ ~youngDrop
(* The statement of core E *)
Safety ==
  /\ len <= N                                              \* at most N members
  /\ c1 <= 1 /\ c2 <= 1 /\ (p1 >= 0 /\ p2 >= 0 => p1 # p2)  \* keys are unique (K1, K2 arbitrary)
  /\ (p1 >= 0 /\ p2 >= 0 => (s1 > s2 <=> p1 < p2))          \* newest first: members are ordered by their last Insert
  /\ (p1 >= 0 => p1 <= clock - s1)                          \* ... a member is preceded only by members inserted after it
                                                           \*     (the member inserted last is at index 0)
  /\ ~youngDrop                                             \* an overflowing Insert drops only the right-most member = never a
                                                           \* member while one inserted before it stays
NeverFull == len < N
=============================================================================
