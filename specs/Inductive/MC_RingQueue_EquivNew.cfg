SPECIFICATION ESpec
CONSTANTS
  Cap = @CAP@
  Batch = @BATCH@
  J = @J@
  Bug = ""
  MaxEnq = @MAXENQ@
INVARIANTS IndInv Safety
ACTION_CONSTRAINT Record
POSTCONDITION Dump
CHECK_DEADLOCK FALSE
