SPECIFICATION ESpec
CONSTANTS
  Capacity <- MCCap
  X = @X@
  Bug = ""
  MaxOffer = @MAXOFFER@
INVARIANTS IndInv Safety
ACTION_CONSTRAINT Record
POSTCONDITION Dump
CHECK_DEADLOCK FALSE
