SPECIFICATION ESpec
CONSTANTS
  N = @N@
  Bug = ""
  MaxSteps = @MAXSTEPS@
  PosSpace <- MCPosSpace
INVARIANTS IndInv Safety
ACTION_CONSTRAINT Record
POSTCONDITION Dump
CHECK_DEADLOCK FALSE
