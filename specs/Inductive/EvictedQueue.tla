---------------------------- MODULE EvictedQueue ----------------------------
(* Core C, part 1 (C04): the bounded FIFO of span events / links.              *)
(* Code: /repo/sdk/trace/evictedqueue.go `add` (l.41-56), called under the     *)
(* span mutex by span.go addEvent (l.605) / AddLink (l.777): ONE action Add.   *)
(* Generalises FifoAdd of specs/SpanState/SpanModel.tla; tied to it by the TLC *)
(* run MC_EvictedQueue_Equiv.                                                  *)
(* Unbounded parameters: capacity (any integer: negative = unlimited, 0 =      *)
(* drop everything), number of items (named by their offer ordinal).  The      *)
(* slice is observed through ONE arbitrary item X (symbolic constant): pos =   *)
(* index of X in eq.queue, -1 = not there.  `add` moves items without looking  *)
(* at them, so the projection is exact and X stands for every item.            *)
EXTENDS Integers
CONSTANTS
  \* @type: Int;
  Capacity,
  \* @type: Int;
  X,
  \* @type: Str;
  Bug      \* "" | "newest" (evict the newest) | "nocount" (eviction not counted) | "ge" (`len >= cap-1`)
VARIABLES
  \* @type: Int;
  len,      \* len(eq.queue)
  \* @type: Int;
  pos,      \* index of item X in eq.queue, -1 if absent
  \* @type: Int;
  dropped,  \* eq.droppedCount
  \* @type: Int;
  offered   \* ghost: number of add calls
\* @type: <<Int, Int, Int, Int>>;
vars == <<len, pos, dropped, offered>>

Params == Capacity \in Int /\ X \in Int /\ X >= 1
CInit == Params /\ Bug = ""
CInitNewest == Params /\ Bug = "newest"
CInitNoCount == Params /\ Bug = "nocount"
CInitGe == Params /\ Bug = "ge"

Init == len = 0 /\ pos = -1 /\ dropped = 0 /\ offered = 0

Add ==
  LET it == offered + 1
      full == Capacity > 0 /\ (IF Bug = "ge" THEN len >= Capacity - 1 /\ len > 0 ELSE len = Capacity)
  IN /\ offered' = it
     /\ IF Capacity = 0
          THEN dropped' = dropped + 1 /\ UNCHANGED <<len, pos>>
          ELSE IF full
          THEN \* copy(queue[:cap-1], queue[1:]); queue = queue[:cap-1]; droppedCount++; append
               /\ dropped' = (IF Bug = "nocount" THEN dropped ELSE dropped + 1)
               /\ len' = len
               /\ pos' = IF it = X THEN len - 1
                         ELSE IF Bug = "newest" THEN (IF pos = len - 1 THEN -1 ELSE pos)
                         ELSE IF pos >= 0 THEN pos - 1 ELSE -1
          ELSE /\ len' = len + 1 /\ dropped' = dropped
               /\ pos' = IF it = X THEN len ELSE pos
Next == Add
Spec == Init /\ [][Next]_vars

TypeOK == len \in Int /\ pos \in Int /\ dropped \in Int /\ offered \in Int
IndInv ==
  /\ TypeOK
  /\ len >= 0 /\ dropped >= 0 /\ offered >= 0
  /\ (Capacity >= 0 => len <= Capacity)
  /\ offered = len + dropped
  /\ pos >= -1 /\ pos < len
  /\ (pos >= 0 <=> (offered - len < X /\ X <= offered))
  /\ (pos >= 0 => pos = X - (offered - len) - 1)
  /\ (Capacity < 0 => dropped = 0)
  /\ (Capacity > 0 /\ dropped > 0 => len = Capacity)
(* The statement of core C, queues *)
Safety ==
  /\ (Capacity >= 0 => len <= Capacity)                      \* len <= capacity
  /\ dropped = offered - len                                  \* dropped = offered - len
  /\ (pos >= 0 <=> (offered - len < X /\ X <= offered))       \* the survivors are exactly the most recent len items ...
  /\ (pos >= 0 => pos = X - (offered - len) - 1)              \* ... in the order they were offered
  /\ (Capacity < 0 => dropped = 0)                            \* negative capacity: unlimited
  /\ (Capacity > 0 /\ dropped > 0 => len = Capacity)         \* nothing is dropped while there is room
NeverFull == Capacity <= 0 \/ len < Capacity
=============================================================================
