-------------------------- MODULE MC_AttrCap_EquivOld --------------------------
(* TLC equivalence run, OLD side: Offer of specs/SpanState/SpanModel.tla       *)
(* (re-used verbatim; SetAttributes = OfferAll folds it) with history          *)
(* variables, projected onto AttrCap.tla's reader-visible state and ghosts for *)
(* every observed valid key.                                                   *)
EXTENDS SpanModel, TLC
CONSTANTS Lim, MaxSteps
VARIABLES am, aoffered, ainvalid, aorder, awant, aoffers
KeysU == <<"a", "b", "c">>                  \* valid keys; "" is the invalid key
MCLim == @LIMIT@
LL == [ac |-> Lim, vl |-> -1, ec |-> -1, lc |-> -1, pe |-> -1, pl |-> -1]
EInit == /\ am = [attrs |-> <<>>, dropped |-> 0] /\ aoffered = 0 /\ ainvalid = 0 /\ aorder = <<>>
         /\ awant = [i \in 1..3 |-> 0] /\ aoffers = [i \in 1..3 |-> 0] /\ TLCSet(1, {})
OfferKey(i) ==    \* i = 0: the invalid key
  /\ aoffered < MaxSteps /\ aoffered' = aoffered + 1
  /\ am' = Offer(LL, am, [k |-> IF i = 0 THEN "" ELSE KeysU[i], t |-> "i", x |-> <<aoffered + 1>>])
  /\ ainvalid' = ainvalid + (IF i = 0 THEN 1 ELSE 0)
  /\ aorder' = IF i = 0 \/ \E j \in 1..Len(aorder) : aorder[j] = i THEN aorder ELSE Append(aorder, i)
  /\ awant' = IF i = 0 THEN awant ELSE [awant EXCEPT ![i] = aoffered + 1]
  /\ aoffers' = IF i = 0 THEN aoffers ELSE [aoffers EXCEPT ![i] = @ + 1]
ENext == \E i \in 0..3 : OfferKey(i)
ESpec == EInit /\ [][ENext]_<<am, aoffered, ainvalid, aorder, awant, aoffers>>
Ix(i) == IndexOf(am.attrs, KeysU[i])
KRank(i) == IF \E j \in 1..Len(aorder) : aorder[j] = i THEN CHOOSE j \in 1..Len(aorder) : aorder[j] = i ELSE 0
\*          uniq, has, kVal, dropped, offered, invalid, seen, kRank, kWant, kOffers
Proj(i) == <<Len(am.attrs), Ix(i) # 0, IF Ix(i) # 0 THEN am.attrs[Ix(i)].x[1] ELSE 0, am.dropped,
             aoffered, ainvalid, Len(aorder), KRank(i), awant[i], aoffers[i]>>
Record == \A i \in 1..3 :
            LET a == Proj(i)
                b == Proj(i)'
            IN a # b => TLCSet(1, TLCGet(1) \cup {<<a, b>>})
Dump == \A e \in TLCGet(1) : PrintT("EDGE " \o ToString(e))
=============================================================================
