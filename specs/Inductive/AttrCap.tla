------------------------------- MODULE AttrCap -------------------------------
(* Core C, part 2 (C04): the attribute count limit of a recording span.        *)
(* Code: /repo/sdk/trace/span.go SetAttributes (l.227-264), addOverCapAttrs    *)
(* (l.295-337), dedupeAttrsFromRecord (l.683-696); everything runs under       *)
(* s.mu.  One SetAttributes call = Call(c) (the path decision, with the        *)
(* de-duplication of the over-capacity path) followed by c Step's (one loop    *)
(* iteration each), i.e. the granularity of Offer / OfferAll in                 *)
(* specs/SpanState/SpanModel.tla, which this module generalises (TLC run       *)
(* MC_AttrCap_Equiv).  The code keeps a RAW slice that may hold a key several  *)
(* times on the fast path (de-duplicated when read: later wins, first position *)
(* kept); rawLen / kCnt model that.                                            *)
(* Unbounded parameters: Limit (any integer; negative = unlimited, 0 = none),  *)
(* number of keys, of calls, of attributes per call; values are named by the   *)
(* ordinal of the offer.  Observed through ONE arbitrary valid key K.          *)
EXTENDS Integers
CONSTANTS
  \* @type: Int;
  Limit,
  \* @type: Str;
  Bug      \* "" | "noupdate" (no update of an existing key when full) | "gt" (`len > limit`) | "nocount"
VARIABLES
  \* @type: Str;
  pc,       \* "idle" | "zero" (limit = 0) | "fast" | "slow" (addOverCapAttrs)
  \* @type: Int;
  pend,     \* attributes of the current call still to be looked at
  \* @type: Int;
  rawLen,   \* len(s.attributes)
  \* @type: Int;
  uniq,     \* number of distinct keys in s.attributes (= what Attributes() returns)
  \* @type: Int;
  kCnt,     \* occurrences of K in s.attributes
  \* @type: Int;
  kVal,     \* value a reader sees for K (the last occurrence), 0 if absent
  \* @type: Int;
  dropped,  \* s.droppedAttributes
  \* @type: Int;
  offered,  \* ghost: attributes offered so far (also names the values)
  \* @type: Int;
  applied,  \* ghost: offers that were stored (inserted or updated)
  \* @type: Int;
  invalid,  \* ghost: offers with an invalid key
  \* @type: Int;
  seen,     \* ghost: distinct valid keys offered so far
  \* @type: Int;
  kRank,    \* ghost: K was the kRank-th distinct valid key offered (0 = never)
  \* @type: Int;
  kWant,    \* ghost: value of the last offer of K
  \* @type: Int;
  kOffers,  \* ghost: offers of K
  \* @type: Int;
  kDropped  \* ghost: offers of K that were counted as dropped
\* @type: <<Str, Int, Int, Int, Int, Int, Int, Int, Int, Int, Int, Int, Int, Int, Int>>;
vars == <<pc, pend, rawLen, uniq, kCnt, kVal, dropped, offered, applied, invalid, seen, kRank, kWant, kOffers, kDropped>>

Params == Limit \in Int
CInit == Params /\ Bug = ""
CInitNoUpdate == Params /\ Bug = "noupdate"
CInitGt == Params /\ Bug = "gt"
CInitNoCount == Params /\ Bug = "nocount"

B2I(b) == IF b THEN 1 ELSE 0
Has == kCnt > 0
Others == uniq - B2I(Has)
SeenLost == seen - uniq - B2I(kRank > 0 /\ ~Has)     \* valid keys other than K offered before and not stored

Init == /\ pc = "idle" /\ pend = 0 /\ rawLen = 0 /\ uniq = 0 /\ kCnt = 0 /\ kVal = 0 /\ dropped = 0
        /\ offered = 0 /\ applied = 0 /\ invalid = 0 /\ seen = 0 /\ kRank = 0 /\ kWant = 0 /\ kOffers = 0 /\ kDropped = 0

(* SetAttributes(c attributes), c >= 1: limit == 0 -> all dropped; limit > 0 && len(s.attributes)+c > limit ->        *)
(* addOverCapAttrs (which first de-duplicates s.attributes); otherwise append without de-duplication                  *)
Call(c) ==
  /\ pc = "idle" /\ c >= 1 /\ pend' = c
  /\ IF Limit = 0 THEN pc' = "zero" /\ UNCHANGED <<rawLen, kCnt>>
     ELSE IF Limit > 0 /\ rawLen + c > Limit
     THEN pc' = "slow" /\ rawLen' = uniq /\ kCnt' = (IF kCnt > 1 THEN 1 ELSE kCnt)
     ELSE pc' = "fast" /\ UNCHANGED <<rawLen, kCnt>>
  /\ UNCHANGED <<uniq, kVal, dropped, offered, applied, invalid, seen, kRank, kWant, kOffers, kDropped>>

Done == /\ pend' = pend - 1 /\ pc' = (IF pend = 1 THEN "idle" ELSE pc) /\ offered' = offered + 1
Drop1 == dropped' = (IF Bug = "nocount" THEN dropped ELSE dropped + 1)
Full == IF Bug = "gt" THEN rawLen > Limit ELSE rawLen >= Limit

(* an attribute with an invalid key *)
StepInvalid ==
  /\ pend > 0 /\ Done /\ Drop1 /\ invalid' = invalid + 1
  /\ UNCHANGED <<rawLen, uniq, kCnt, kVal, applied, seen, kRank, kWant, kOffers, kDropped>>

(* an attribute with key K; its value is named offered + 1 *)
StepK ==
  /\ pend > 0 /\ Done /\ kWant' = offered + 1 /\ kOffers' = kOffers + 1 /\ invalid' = invalid
  /\ IF kRank = 0 THEN kRank' = seen + 1 /\ seen' = seen + 1 ELSE UNCHANGED <<kRank, seen>>
  /\ CASE pc = "zero" -> /\ Drop1 /\ kDropped' = kDropped + 1 /\ UNCHANGED <<rawLen, uniq, kCnt, kVal, applied>>
       [] pc = "fast" -> /\ rawLen' = rawLen + 1 /\ kCnt' = kCnt + 1 /\ kVal' = offered + 1 /\ applied' = applied + 1
                         /\ uniq' = (IF Has THEN uniq ELSE uniq + 1) /\ UNCHANGED <<dropped, kDropped>>
       [] OTHER -> IF Has /\ ~(Bug = "noupdate" /\ Full)
                   THEN kVal' = offered + 1 /\ applied' = applied + 1 /\ UNCHANGED <<rawLen, uniq, kCnt, dropped, kDropped>>
                   ELSE IF Full
                   THEN Drop1 /\ kDropped' = kDropped + 1 /\ UNCHANGED <<rawLen, uniq, kCnt, kVal, applied>>
                   ELSE /\ rawLen' = rawLen + 1 /\ uniq' = uniq + 1 /\ kCnt' = 1 /\ kVal' = offered + 1
                        /\ applied' = applied + 1 /\ UNCHANGED <<dropped, kDropped>>

(* an attribute with another valid key: `exists` = it is in s.attributes, `fresh` = never offered before *)
StepOther(exists, fresh) ==
  /\ pend > 0 /\ Done /\ invalid' = invalid
  /\ (exists => Others >= 1 /\ ~fresh)
  /\ (~exists /\ ~fresh => SeenLost >= 1)
  /\ seen' = (IF fresh THEN seen + 1 ELSE seen)
  /\ UNCHANGED <<kCnt, kVal, kRank, kWant, kOffers, kDropped>>
  /\ CASE pc = "zero" -> Drop1 /\ UNCHANGED <<rawLen, uniq, applied>>
       [] pc = "fast" -> /\ rawLen' = rawLen + 1 /\ applied' = applied + 1
                         /\ uniq' = (IF exists THEN uniq ELSE uniq + 1) /\ UNCHANGED dropped
       [] OTHER -> IF exists THEN applied' = applied + 1 /\ UNCHANGED <<rawLen, uniq, dropped>>
                   ELSE IF Full THEN Drop1 /\ UNCHANGED <<rawLen, uniq, applied>>
                   ELSE rawLen' = rawLen + 1 /\ uniq' = uniq + 1 /\ applied' = applied + 1 /\ UNCHANGED dropped

CallSpace == Int     \* len(attributes) of a call (overridden by a finite set for TLC)
Next == \/ \E c \in CallSpace : Call(c)
        \/ StepInvalid \/ StepK
        \/ \E exists \in BOOLEAN, fresh \in BOOLEAN : StepOther(exists, fresh)
Spec == Init /\ [][Next]_vars

-----------------------------------------------------------------------------
Kept(rank) == rank > 0 /\ (Limit < 0 \/ rank <= Limit)      \* among the first Limit distinct valid keys
TypeOK == /\ pc \in {"idle", "zero", "fast", "slow"} /\ pend \in Int /\ rawLen \in Int /\ uniq \in Int /\ kCnt \in Int
          /\ kVal \in Int /\ dropped \in Int /\ offered \in Int /\ applied \in Int /\ invalid \in Int /\ seen \in Int
          /\ kRank \in Int /\ kWant \in Int /\ kOffers \in Int /\ kDropped \in Int
IndInv ==
  /\ TypeOK
  /\ pend >= 0 /\ (pc = "idle" <=> pend = 0)
  /\ (pc = "zero" => Limit = 0) /\ (pc = "fast" => Limit # 0) /\ (pc = "slow" => Limit > 0)
  /\ 0 <= uniq /\ uniq <= rawLen /\ kCnt >= 0 /\ Others >= 0
  /\ (Has => kCnt - 1 <= rawLen - uniq)                     \* duplicates of K are among the duplicates
  /\ (Limit >= 0 => rawLen <= Limit)
  /\ (pc = "fast" /\ Limit > 0 => rawLen + pend <= Limit)
  /\ (pc = "slow" => rawLen = uniq /\ kCnt <= 1)
  /\ seen >= 0 /\ 0 <= kRank /\ kRank <= seen /\ invalid >= 0 /\ kOffers >= 0 /\ (kRank = 0 <=> kOffers = 0)
  /\ uniq = (IF Limit >= 0 /\ seen > Limit THEN Limit ELSE seen)
  /\ (Has <=> Kept(kRank))
  /\ (Has => kVal = kWant) /\ (~Has => kVal = 0)
  /\ kDropped = (IF Kept(kRank) THEN 0 ELSE kOffers)
  /\ offered = dropped + applied
  /\ dropped >= invalid + kDropped /\ applied >= 0
(* The statement of core C, attributes (what a reader sees: uniq distinct keys, K present iff Has, with value kVal) *)
Safety ==
  /\ (Limit >= 0 => uniq <= Limit)                  \* distinct keys <= limit
  /\ (Has <=> Kept(kRank))                          \* exactly the earliest keys are kept (K arbitrary)
  /\ (Has => kVal = kWant)                          \* a kept key shows its LAST offered value: updates are applied, also when full
  /\ kDropped = (IF Kept(kRank) THEN 0 ELSE kOffers) \* every offer of a key that is not kept is counted, no offer of a kept key is
  /\ offered = dropped + applied                    \* every offer is either stored or counted as dropped (invalid keys: all dropped)
  /\ dropped >= invalid + kDropped
NeverFull == Limit <= 0 \/ rawLen < Limit
=============================================================================
