SPECIFICATION ESpec
CONSTANTS
  Keys <- MCKeys
  Lim = @L@
  MaxSteps = @MAXSTEPS@
ACTION_CONSTRAINT Record
POSTCONDITION Dump
CHECK_DEADLOCK FALSE
