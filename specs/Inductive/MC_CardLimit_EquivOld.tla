------------------------ MODULE MC_CardLimit_EquivOld ------------------------
(* TLC equivalence run, OLD side: one sum aggregator driven by the operators   *)
(* Admit / Upd / AfterCollect of specs/Cardinality/CardModel.tla (the bounded  *)
(* model of check C12, re-used verbatim) with history variables, projected     *)
(* onto the state of CardLimit.tla for the observed attribute set U[i], for    *)
(* every i.  Collects the set of projected (non-stuttering) edges.             *)
EXTENDS CardModel, TLC, FiniteSetsExt
CONSTANTS Lim, MaxSteps
VARIABLES cells, order, per, steps

MCKeys == {"k"}
U == [i \in 1..4 |-> [k \in Keys |-> i - 1]]      \* four attribute sets; U[1] = the empty set (= NoAttrs)
Vals == {1, 2}

EInit == cells = {} /\ order = <<>> /\ per = [i \in 1..4 |-> 0] /\ steps = 0 /\ TLCSet(1, {})
Measure(i, v) == /\ steps < MaxSteps /\ steps' = steps + 1
                 /\ cells' = Upd("sum", cells, Admit(Lim, cells, U[i]), v)
                 /\ order' = IF \E j \in 1..Len(order) : order[j] = i THEN order ELSE Append(order, i)
                 /\ per' = [per EXCEPT ![i] = @ + v]
(* a delta collection: AfterCollect of a synchronous sum *)
Collect == /\ cells' = AfterCollect([agg |-> "sum", kind |-> "counter"], "delta", [cells |-> cells, prev |-> {}]).cells
           /\ order' = <<>> /\ per' = [i \in 1..4 |-> 0] /\ UNCHANGED steps
ENext == (\E i \in 1..4, v \in Vals : Measure(i, v)) \/ Collect
ESpec == EInit /\ [][ENext]_<<cells, order, per, steps>>

Sum(S) == FoldSet(LAMBDA c, acc : acc + c.s, 0, S)
Cell(i) == {c \in cells : ~c.ovf /\ c.attrs = U[i]}
Rank(i) == IF \E j \in 1..Len(order) : order[j] = i THEN CHOOSE j \in 1..Len(order) : order[j] = i ELSE 0
\*          n, ovf, h, t, tRest, tOvf, m, measured, distinct, r
Proj(i) == <<Cardinality(cells), \E c \in cells : c.ovf, Cell(i) # {}, Sum(Cell(i)),
             Sum({c \in cells : ~c.ovf} \ Cell(i)), Sum({c \in cells : c.ovf}),
             per[i], Sum({[s |-> per[j], j |-> j] : j \in 1..4}), Len(order), Rank(i)>>
Record == \A i \in 1..4 :
            LET a == Proj(i)
                b == Proj(i)'
            IN a # b => TLCSet(1, TLCGet(1) \cup {<<i, a, b>>})
Dump == \A e \in TLCGet(1) : PrintT("EDGE " \o ToString(e))
=============================================================================
