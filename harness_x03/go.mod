module go.opentelemetry.io/otel/bridge/verifh

go 1.23.0

require (
	github.com/opentracing/opentracing-go v1.2.0
	go.opencensus.io v0.24.0
	go.opentelemetry.io/otel v1.35.0
	go.opentelemetry.io/otel/bridge/opencensus v1.35.0
	go.opentelemetry.io/otel/bridge/opentracing v1.35.0
	go.opentelemetry.io/otel/metric v1.35.0
	go.opentelemetry.io/otel/sdk v1.35.0
	go.opentelemetry.io/otel/sdk/metric v1.35.0
	go.opentelemetry.io/otel/trace v1.35.0
)

require (
	github.com/go-logr/logr v1.4.2 // indirect
	github.com/go-logr/stdr v1.2.2 // indirect
	github.com/golang/groupcache v0.0.0-20241129210726-2c02b8208cf8 // indirect
	github.com/google/uuid v1.6.0 // indirect
	go.opentelemetry.io/auto/sdk v1.1.0 // indirect
	golang.org/x/sys v0.32.0 // indirect
)

replace (
	go.opentelemetry.io/otel => /repo
	go.opentelemetry.io/otel/bridge/opencensus => /repo/bridge/opencensus
	go.opentelemetry.io/otel/bridge/opentracing => /repo/bridge/opentracing
	go.opentelemetry.io/otel/metric => /repo/metric
	go.opentelemetry.io/otel/sdk => /repo/sdk
	go.opentelemetry.io/otel/sdk/metric => /repo/sdk/metric
	go.opentelemetry.io/otel/trace => /repo/trace
)
