package main

import (
	"context"
	"encoding/json"
	"fmt"
	"reflect"
	"sort"
	"strings"
	"time"

	"go.opentelemetry.io/otel/attribute"
	"go.opentelemetry.io/otel/codes"
	sdktrace "go.opentelemetry.io/otel/sdk/trace"
	"go.opentelemetry.io/otel/trace"
)

// ---------------------------------------------------------------- symbol tables
// The model works on symbols; the harness owns representatives (chosen by rep) and the inverse.

var T1 = time.Date(2024, 2, 29, 23, 59, 58, 123456789, time.UTC)

var keyForms = []string{"t%d", "key.%d", "ключ-%d", "k %d"}
var bagKeyForms = []string{"b%d", "user-id.%d", "B_%d~"}
var strReps = map[string][]string{
	"sv": {"sv", "string välue", "a=b,c;d"},
	"sw": {"sw", "другое", "%41"},
	"v1": {"v1", "value one, with; specials=%", "välue€1"},
	"v2": {"v2", "  spaced  ", "😀/2"},
	"n1": {"n1", "GET /users/{id}", "оп-1"},
	"n2": {"n2", "op two", "ns2"},
	"m1": {"m1", "annotation one", "%d not a format"},
	"m2": {"m2", "second annotation", "msg,2"},
	"d1": {"d1", "boom: failed", "ошибка"},
}

type syms struct {
	rep int
	inv map[string]string
}

func newSyms(rep int) *syms {
	s := &syms{rep: rep, inv: map[string]string{}}
	for sym, reps := range strReps {
		s.inv[reps[rep%len(reps)]] = sym
	}
	return s
}

// str concretizes a string symbol ("" and "ns" stand for themselves).
func (s *syms) str(sym string) string {
	if r, ok := strReps[sym]; ok {
		return r[s.rep%len(r)]
	}
	return sym
}

// abs abstracts a concrete string back to its symbol.
func (s *syms) abs(v string) string {
	if sym, ok := s.inv[v]; ok {
		return sym
	}
	if _, ok := strReps[v]; ok {
		return "?" + v // a symbol name that is not its own representative
	}
	return v
}
func (s *syms) key(k int) string    { return fmt.Sprintf(keyForms[s.rep%len(keyForms)], k) }
func (s *syms) bagKey(k int) string { return fmt.Sprintf(bagKeyForms[s.rep%len(bagKeyForms)], k) }
func (s *syms) keyNum(name string, nk int) int {
	switch name {
	case "uncompressed byte size":
		return -1
	case "compressed byte size":
		return -2
	}
	for k := 1; k <= nk+2; k++ {
		if s.key(k) == name {
			return k
		}
	}
	return -99
}

// tagValue is the Go value of a tag / log field value class.
func (s *syms) tagValue(c string) any {
	switch c {
	case "str":
		return s.str("sv")
	case "str2":
		return s.str("sw")
	case "bool":
		return true
	case "int":
		return int(-7)
	case "i32":
		return int32(-2147483648)
	case "u32":
		return uint32(4294967295)
	case "uint":
		return uint(42)
	case "u64":
		return uint64(18446744073709551615)
	case "f32":
		return float32(1.5)
	case "f64":
		return float64(2.25)
	case "i64":
		return int64(9007199254740993)
	}
	panic("unknown value class " + c)
}

// attrProj projects an attribute value: OTel type name and rendered value (strings abstracted).
func (s *syms) attrProj(v attribute.Value) map[string]any {
	t := v.Type().String()
	e := v.Emit()
	if v.Type() == attribute.STRING {
		e = s.abs(v.AsString())
	}
	return map[string]any{"t": t, "v": e}
}

// ---------------------------------------------------------------- recording SDK
type spanKey struct {
	tid trace.TraceID
	sid trace.SpanID
}

// recorder is the span processor behind the bridges: live spans (OnStart) and OnEnd counts.
type recorder struct {
	live  map[spanKey]sdktrace.ReadWriteSpan
	ended map[spanKey]int
	last  map[spanKey]sdktrace.ReadOnlySpan
}

func newRecorder() *recorder {
	return &recorder{live: map[spanKey]sdktrace.ReadWriteSpan{}, ended: map[spanKey]int{}, last: map[spanKey]sdktrace.ReadOnlySpan{}}
}
func keyOf(sc trace.SpanContext) spanKey { return spanKey{sc.TraceID(), sc.SpanID()} }
func (r *recorder) OnStart(_ ctxT, s sdktrace.ReadWriteSpan) { r.live[keyOf(s.SpanContext())] = s }
func (r *recorder) OnEnd(s sdktrace.ReadOnlySpan) {
	r.ended[keyOf(s.SpanContext())]++
	r.last[keyOf(s.SpanContext())] = s
}
func (r *recorder) Shutdown(ctxT) error   { return nil }
func (r *recorder) ForceFlush(ctxT) error { return nil }

// nameSampler: a root span named "ns" is not sampled; children follow their parent (ParentBased).
type nameSampler struct{}

func (nameSampler) ShouldSample(p sdktrace.SamplingParameters) sdktrace.SamplingResult {
	d := sdktrace.RecordAndSample
	if p.Name == "ns" {
		d = sdktrace.Drop
	}
	return sdktrace.SamplingResult{Decision: d, Tracestate: trace.SpanContextFromContext(p.ParentContext).TraceState()}
}
func (nameSampler) Description() string { return "nameSampler" }

// spanRef is what the projection needs to know about one span of a scenario.
type spanRef struct {
	key spanKey
}

type world struct {
	sy    *syms
	nk    int
	nb    int
	rec   *recorder
	refs  []spanRef // creation order
	otPart bool     // OpenTracing part: event names are not projected
}

func (w *world) idxOf(k spanKey) int {
	for i, r := range w.refs {
		if r.key == k {
			return i + 1
		}
	}
	return -1
}
func (w *world) traceIdx(t trace.TraceID) int {
	for i, r := range w.refs {
		if r.key.tid == t {
			return i + 1
		}
	}
	return -1
}

func emptyBag(nb int) []any {
	b := make([]any, nb)
	for i := range b {
		b[i] = ""
	}
	return b
}

// projSpan projects span i (1-based) as the recording SDK sees it; bag / smp come from the bridge API.
func (w *world) projSpan(i int, bag []any, smp bool) map[string]any {
	n := i
	links := make([]any, n-1)
	lk := make([]map[string]int, n-1)
	for j := range links {
		lk[j] = map[string]int{"c": 0, "f": 0}
		links[j] = lk[j]
	}
	attrs := make([]any, w.nk)
	for k := range attrs {
		attrs[k] = map[string]any{"t": "", "v": ""}
	}
	out := map[string]any{"name": "", "par": 0, "rem": false, "tr": w.traceIdx(w.refs[i-1].key.tid), "linksA": links, "attrs": attrs,
		"kindA": "internal", "stsA": map[string]any{"code": "Unset", "desc": ""}, "events": []any{}, "ended": 0, "bag": bag, "smp": smp}
	rw, ok := w.rec.live[w.refs[i-1].key]
	if !ok {
		if smp {
			out["unrecorded"] = true // sampled according to the API but the SDK never saw it
		}
		return out
	}
	if !smp {
		out["recorded_unsampled"] = true
	}
	var s sdktrace.ReadOnlySpan = rw
	if e, ok := w.rec.last[w.refs[i-1].key]; ok {
		s = e // the exported snapshot
	}
	out["name"] = w.sy.abs(s.Name())
	if p := s.Parent(); p.IsValid() {
		out["par"] = w.idxOf(keyOf(p))
		out["rem"] = p.IsRemote()
	}
	for _, l := range s.Links() {
		j := w.idxOf(keyOf(l.SpanContext))
		rt := "c"
		for _, a := range l.Attributes {
			if strings.Contains(string(a.Key), "ref") && strings.Contains(strings.ToLower(a.Value.Emit()), "follow") {
				rt = "f"
			}
		}
		if j < 1 || j > n-1 {
			out["badlink"] = fmt.Sprint(l.SpanContext.SpanID())
			continue
		}
		lk[j-1][rt]++
	}
	var extra []string
	for _, a := range s.Attributes() {
		name := string(a.Key)
		if name == "span.kind" || name == "error" {
			continue // whether the special tags are also kept as attributes is not constrained
		}
		k := w.sy.keyNum(name, w.nk)
		if k < 1 || k > w.nk {
			extra = append(extra, name)
			continue
		}
		attrs[k-1] = w.sy.attrProj(a.Value)
	}
	if len(extra) > 0 {
		sort.Strings(extra)
		out["extra_attrs"] = extra
	}
	out["kindA"] = strings.ToLower(s.SpanKind().String())
	st := s.Status()
	code := "Code(" + fmt.Sprint(int(st.Code)) + ")"
	switch st.Code {
	case codes.Unset:
		code = "Unset"
	case codes.Error:
		code = "Error"
	case codes.Ok:
		code = "Ok"
	}
	out["stsA"] = map[string]any{"code": code, "desc": w.sy.abs(st.Description)}
	evs := []any{}
	for _, e := range s.Events() {
		ks := []any{}
		for _, a := range e.Attributes {
			p := w.sy.attrProj(a.Value)
			p["k"] = w.sy.keyNum(string(a.Key), w.nk)
			ks = append(ks, p)
		}
		ts := ""
		if e.Time.Equal(T1) {
			ts = "t1"
		}
		name := ""
		if !w.otPart {
			name = w.sy.abs(e.Name)
			switch e.Name {
			case "message send":
				name = "send"
			case "message receive":
				name = "recv"
			}
		}
		evs = append(evs, map[string]any{"name": name, "ts": ts, "ks": ks})
	}
	out["events"] = evs
	out["ended"] = w.rec.ended[w.refs[i-1].key]
	return out
}

// ---------------------------------------------------------------- matching
// norm turns any Go value into plain JSON data (maps, slices, float64 / string / bool).
func norm(v any) any {
	b, err := json.Marshal(v)
	if err != nil {
		panic(err)
	}
	var out any
	if err := json.Unmarshal(b, &out); err != nil {
		panic(err)
	}
	return out
}

// diff returns the paths of the components where got differs from want (nil if none).
// A model field whose name ends in "A" is the set of admissible values.
func diff(want, got any, path string) []string {
	var out []string
	diffInto(want, got, path, &out)
	return out
}

func diffInto(want, got any, path string, out *[]string) {
	if len(*out) >= 24 {
		return
	}
	switch w := want.(type) {
	case map[string]any:
		g, ok := got.(map[string]any)
		if !ok {
			*out = append(*out, path)
			return
		}
		keys := make([]string, 0, len(w))
		for k := range w {
			keys = append(keys, k)
		}
		sort.Strings(keys)
		for _, k := range keys {
			gv, ok := g[k]
			if !ok {
				*out = append(*out, path+"."+k)
				continue
			}
			if strings.HasSuffix(k, "U") { // unordered collection: compared as a multiset
				wl, _ := w[k].([]any)
				gl, ok := gv.([]any)
				if !ok || len(wl) != len(gl) || !sameMultiset(wl, gl) {
					*out = append(*out, path+"."+k)
				}
				continue
			}
			if strings.HasSuffix(k, "A") {
				alts, _ := w[k].([]any)
				hit := false
				for _, a := range alts {
					if len(diff(a, gv, "")) == 0 {
						hit = true
					}
				}
				if !hit {
					*out = append(*out, path+"."+k)
				}
				continue
			}
			diffInto(w[k], gv, path+"."+k, out)
		}
		extra := []string{}
		for k := range g {
			if _, ok := w[k]; !ok {
				extra = append(extra, k)
			}
		}
		sort.Strings(extra)
		for _, k := range extra {
			*out = append(*out, path+"."+k)
		}
	case []any:
		g, ok := got.([]any)
		if !ok || len(g) != len(w) {
			*out = append(*out, path)
			return
		}
		for i := range w {
			diffInto(w[i], g[i], fmt.Sprintf("%s[%d]", path, i+1), out)
		}
	default:
		if !reflect.DeepEqual(want, got) {
			*out = append(*out, path)
		}
	}
}

func mustJSON(raw json.RawMessage) map[string]any {
	var m map[string]any
	if err := json.Unmarshal(raw, &m); err != nil {
		panic(fmt.Sprintf("bad json %s: %v", string(raw), err))
	}
	return m
}
func num(m map[string]any, k string) int {
	switch v := m[k].(type) {
	case float64:
		return int(v)
	case int:
		return v
	}
	return 0
}
func str(m map[string]any, k string) string {
	s, _ := m[k].(string)
	return s
}
func list(m map[string]any, k string) []any {
	l, _ := m[k].([]any)
	return l
}

type ctxT = context.Context

func sameMultiset(a, b []any) bool {
	ka, kb := make([]string, len(a)), make([]string, len(b))
	for i := range a {
		x, _ := json.Marshal(a[i])
		y, _ := json.Marshal(b[i])
		ka[i], kb[i] = string(x), string(y)
	}
	sort.Strings(ka)
	sort.Strings(kb)
	return reflect.DeepEqual(ka, kb)
}
