package main

import (
	"context"
	"encoding/json"
	"fmt"
	"net/http"
	"strings"

	ot "github.com/opentracing/opentracing-go"
	otlog "github.com/opentracing/opentracing-go/log"
	"github.com/opentracing/opentracing-go/mocktracer"

	"go.opentelemetry.io/otel/baggage"
	otbridge "go.opentelemetry.io/otel/bridge/opentracing"
	"go.opentelemetry.io/otel/propagation"
	sdktrace "go.opentelemetry.io/otel/sdk/trace"
	"go.opentelemetry.io/otel/trace"
)

// otWorld is one scenario of part A: a BridgeTracer / WrapperTracerProvider pair over a recording SDK.
type otWorld struct {
	world
	tp     *sdktrace.TracerProvider
	bridge *otbridge.BridgeTracer
	otel   trace.Tracer // the OpenTelemetry API side of the pair
	spans  []*otSpan
	carKind string
	carMap  ot.TextMapCarrier
	carHTTP ot.HTTPHeadersCarrier
	carW    *writeOnly
	ext     ot.SpanContext
	foreign ot.SpanContext
}

type otSpan struct {
	ot  ot.Span         // the span as the OpenTracing API sees it
	ctx context.Context // a context in which it is the active span
}

// writeOnly implements only ot.TextMapWriter; readOnly only ot.TextMapReader.
type writeOnly struct{ kv [][2]string }

func (w *writeOnly) Set(k, v string) { w.kv = append(w.kv, [2]string{k, v}) }

type readOnly struct{ kv [][2]string }

func (r *readOnly) ForeachKey(h func(k, v string) error) error {
	for _, p := range r.kv {
		if err := h(p[0], p[1]); err != nil {
			return err
		}
	}
	return nil
}

// scIDs is the documented way (README "Extended Functionality") to read the OTel identity of a bridge span context.
type scIDs interface {
	TraceID() trace.TraceID
	SpanID() trace.SpanID
	IsSampled() bool
}

func newOTWorld(nk, nb, rep int) *otWorld {
	w := &otWorld{}
	w.sy = newSyms(rep)
	w.nk, w.nb = nk, nb
	w.otPart = true
	w.rec = newRecorder()
	w.tp = sdktrace.NewTracerProvider(sdktrace.WithSampler(sdktrace.ParentBased(nameSampler{})), sdktrace.WithSpanProcessor(w.rec))
	if rep%2 == 0 {
		b, wp := otbridge.NewTracerPair(w.tp.Tracer("x03"))
		w.bridge, w.otel = b, wp.Tracer("x03")
	} else {
		// the non-deprecated route: NewTracerProvider over the SDK provider
		b := otbridge.NewBridgeTracer()
		p := otbridge.NewTracerProvider(b, w.tp)
		b.SetOpenTelemetryTracer(p.Tracer("x03"))
		w.bridge, w.otel = b, p.Tracer("x03")
	}
	w.bridge.SetTextMapPropagator(propagation.NewCompositeTextMapPropagator(propagation.TraceContext{}, propagation.Baggage{}))
	w.foreign = mocktracer.New().StartSpan("foreign").Context()
	return w
}

func (w *otWorld) add(s ot.Span, ctx context.Context) error {
	ids, ok := s.Context().(scIDs)
	if !ok {
		return fmt.Errorf("span context %T does not expose TraceID/SpanID/IsSampled", s.Context())
	}
	w.spans = append(w.spans, &otSpan{ot: s, ctx: ctx})
	w.refs = append(w.refs, spanRef{key: spanKey{ids.TraceID(), ids.SpanID()}})
	return nil
}

func (w *otWorld) refCtx(to int) ot.SpanContext {
	switch {
	case to < 0:
		return w.foreign
	case to == 0:
		return w.ext
	}
	return w.spans[to-1].ot.Context()
}

func (w *otWorld) ctxOf(p int) context.Context {
	if p == 0 {
		return context.Background()
	}
	return w.spans[p-1].ctx
}

func (w *otWorld) fields(kvs []any) []otlog.Field {
	var fs []otlog.Field
	for _, x := range kvs {
		m := x.(map[string]any)
		k := w.sy.key(num(m, "k"))
		switch v := w.sy.tagValue(str(m, "c")).(type) {
		case string:
			fs = append(fs, otlog.String(k, v))
		case bool:
			fs = append(fs, otlog.Bool(k, v))
		case int:
			fs = append(fs, otlog.Int(k, v))
		case int32:
			fs = append(fs, otlog.Int32(k, v))
		case uint32:
			fs = append(fs, otlog.Uint32(k, v))
		case uint64:
			fs = append(fs, otlog.Uint64(k, v))
		case float32:
			fs = append(fs, otlog.Float32(k, v))
		case float64:
			fs = append(fs, otlog.Float64(k, v))
		case int64:
			fs = append(fs, otlog.Int64(k, v))
		default:
			fs = append(fs, otlog.Object(k, v))
		}
	}
	return fs
}

// apply executes one abstract operation through the public APIs; out is what the call itself returned.
func (w *otWorld) apply(op map[string]any) (out map[string]any, err error) {
	defer func() {
		if r := recover(); r != nil {
			err = fmt.Errorf("panic: %v", r)
		}
	}()
	out = map[string]any{"err": ""}
	sp := func() *otSpan { return w.spans[num(op, "i")-1] }
	switch str(op, "op") {
	case "Start":
		var opts []ot.StartSpanOption
		for _, r := range list(op, "refs") {
			m := r.(map[string]any)
			sc := w.refCtx(num(m, "to"))
			if str(m, "t") == "c" {
				opts = append(opts, ot.ChildOf(sc))
			} else {
				opts = append(opts, ot.FollowsFrom(sc))
			}
		}
		if k := str(op, "kind"); k != "" {
			opts = append(opts, ot.Tag{Key: "span.kind", Value: k})
		}
		switch str(op, "err") {
		case "true":
			opts = append(opts, ot.Tag{Key: "error", Value: true})
		case "false":
			opts = append(opts, ot.Tag{Key: "error", Value: false})
		}
		for _, t := range list(op, "tags") {
			m := t.(map[string]any)
			opts = append(opts, ot.Tag{Key: w.sy.key(num(m, "k")), Value: w.sy.tagValue(str(m, "c"))})
		}
		s := w.bridge.StartSpan(w.sy.str(str(op, "name")), opts...)
		return out, w.add(s, ot.ContextWithSpan(context.Background(), s))
	case "OTelStart":
		ctx, _ := w.otel.Start(w.ctxOf(num(op, "p")), w.sy.str(str(op, "name")))
		s := ot.SpanFromContext(ctx)
		if s == nil {
			return out, fmt.Errorf("no OpenTracing span in the context returned by the OTel API Start")
		}
		return out, w.add(s, ctx)
	case "CtxStart":
		s, ctx := ot.StartSpanFromContextWithTracer(w.ctxOf(num(op, "p")), w.bridge, w.sy.str(str(op, "name")))
		return out, w.add(s, ctx)
	case "Ctx":
		ctx := sp().ctx
		o, e := -1, -1
		if s := ot.SpanFromContext(ctx); s != nil {
			if ids, ok := s.Context().(scIDs); ok {
				o = w.idxOf(spanKey{ids.TraceID(), ids.SpanID()})
			}
		}
		e = w.idxOf(keyOf(trace.SpanContextFromContext(ctx)))
		return map[string]any{"ot": o, "otel": e}, nil
	case "SetTag":
		sp().ot.SetTag(w.sy.key(num(op, "k")), w.sy.tagValue(str(op, "c")))
	case "SetKind":
		sp().ot.SetTag("span.kind", str(op, "c"))
	case "SetErr":
		sp().ot.SetTag("error", str(op, "c") == "true")
	case "Log":
		fs := w.fields(list(op, "kvs"))
		switch str(op, "via") {
		case "fields":
			sp().ot.LogFields(fs...)
		case "kv":
			var kv []any
			for i, x := range list(op, "kvs") {
				m := x.(map[string]any)
				kv = append(kv, fs[i].Key(), w.sy.tagValue(str(m, "c")))
			}
			sp().ot.LogKV(kv...)
		}
	case "SetName":
		sp().ot.SetOperationName(w.sy.str(str(op, "name")))
	case "Finish":
		if str(op, "via") == "plain" {
			sp().ot.Finish()
		} else {
			var recs []ot.LogRecord
			for i := 0; i < num(op, "logs"); i++ {
				recs = append(recs, ot.LogRecord{Timestamp: T1, Fields: []otlog.Field{otlog.String(w.sy.key(1), w.sy.str("sv"))}})
			}
			sp().ot.FinishWithOptions(ot.FinishOptions{LogRecords: recs})
		}
	case "SetBag":
		sp().ot.SetBaggageItem(w.sy.bagKey(num(op, "k")), w.sy.str(str(op, "v")))
	case "Inject":
		var format any = ot.TextMap
		switch str(op, "fmt") {
		case "http":
			format = ot.HTTPHeaders
		case "binary":
			format = ot.Binary
		}
		kind := str(op, "car")
		m, h, wo := ot.TextMapCarrier{}, ot.HTTPHeadersCarrier(http.Header{}), &writeOnly{}
		var carrier any
		switch kind {
		case "map":
			carrier = m
		case "http":
			carrier = h
		case "wonly":
			carrier = wo
		default:
			carrier = 42
		}
		e := w.bridge.Inject(w.refCtx(num(op, "i")), format, carrier)
		out["err"] = otErr(e)
		if e == nil {
			w.carKind, w.carMap, w.carHTTP, w.carW = kind, m, h, wo
		}
	case "Extract":
		var format any = ot.TextMap
		switch str(op, "fmt") {
		case "http":
			format = ot.HTTPHeaders
		case "binary":
			format = ot.Binary
		}
		var carrier any
		switch str(op, "car") {
		case "bad":
			carrier = 42
		case "empty":
			carrier = ot.TextMapCarrier{}
			if format == ot.HTTPHeaders {
				carrier = ot.HTTPHeadersCarrier(http.Header{"Accept": {"*/*"}})
			}
		default:
			switch w.carKind {
			case "map":
				carrier = w.carMap
			case "http":
				carrier = w.carHTTP
			case "wonly":
				carrier = &readOnly{kv: w.carW.kv} // what was written, behind a reader-only carrier
			default:
				carrier = ot.TextMapCarrier{}
			}
		}
		sc, e := w.bridge.Extract(format, carrier)
		out["err"] = otErr(e)
		if e == nil {
			w.ext = sc
		}
	default:
		return out, fmt.Errorf("unknown op %v", op["op"])
	}
	return out, nil
}

func otErr(e error) string {
	switch e {
	case nil:
		return ""
	case ot.ErrUnsupportedFormat:
		return "unsupported"
	case ot.ErrInvalidCarrier:
		return "invalidcarrier"
	case ot.ErrInvalidSpanContext:
		return "invalidsc"
	case ot.ErrSpanContextNotFound:
		return "notfound"
	case ot.ErrSpanContextCorrupted:
		return "corrupted"
	}
	return "other:" + e.Error()
}

// bagOf reads the baggage items of an OpenTracing span context through ForeachBaggageItem.
func (w *otWorld) bagOf(sc ot.SpanContext, item func(string) string) []any {
	b := emptyBag(w.nb)
	seen := map[string]string{}
	sc.ForeachBaggageItem(func(k, v string) bool { seen[k] = v; return true })
	for k := 1; k <= w.nb; k++ {
		name := w.sy.bagKey(k)
		v, ok := seen[name]
		delete(seen, name)
		if ok {
			b[k-1] = w.sy.abs(v)
		}
		if item != nil && item(name) != v {
			b[k-1] = fmt.Sprintf("?BaggageItem=%q Foreach=%q", item(name), v)
		}
	}
	for k := range seen {
		b = append(b, "?extra:"+k)
	}
	return b
}

func (w *otWorld) project() map[string]any {
	spans := []any{}
	for i, s := range w.spans {
		ids := s.ot.Context().(scIDs)
		spans = append(spans, w.projSpan(i+1, w.bagOf(s.ot.Context(), s.ot.BaggageItem), ids.IsSampled()))
	}
	car := map[string]any{"has": false, "kind": "", "of": 0, "smp": false, "bag": emptyBag(w.nb)}
	if w.carKind != "" {
		get := func(k string) string { return "" }
		switch w.carKind {
		case "map":
			get = func(k string) string { return w.carMap[k] }
		case "http":
			get = func(k string) string { return http.Header(w.carHTTP).Get(k) }
		case "wonly":
			get = func(k string) string {
				for _, p := range w.carW.kv {
					if p[0] == k {
						return p[1]
					}
				}
				return ""
			}
		}
		car["kind"] = w.carKind
		parts := strings.Split(get("traceparent"), "-")
		if len(parts) == 4 {
			tid, e1 := trace.TraceIDFromHex(parts[1])
			sid, e2 := trace.SpanIDFromHex(parts[2])
			if e1 == nil && e2 == nil {
				car["has"] = true
				car["of"] = w.idxOf(spanKey{tid, sid})
				car["smp"] = parts[3] == "01"
			}
		}
		if h := get("baggage"); h != "" {
			bg, err := baggage.Parse(h)
			bag := emptyBag(w.nb)
			if err != nil {
				bag = append(bag, "?unparsable:"+h)
			}
			for _, m := range bg.Members() {
				hit := false
				for k := 1; k <= w.nb; k++ {
					if w.sy.bagKey(k) == m.Key() {
						bag[k-1] = w.sy.abs(m.Value())
						hit = true
					}
				}
				if !hit {
					bag = append(bag, "?extra:"+m.Key())
				}
			}
			car["bag"] = bag
		}
	}
	ext := map[string]any{"ok": false, "of": 0, "smp": false, "bag": emptyBag(w.nb)}
	if w.ext != nil {
		ext["ok"] = true
		if ids, ok := w.ext.(scIDs); ok {
			ext["of"] = w.idxOf(spanKey{ids.TraceID(), ids.SpanID()})
			ext["smp"] = ids.IsSampled()
		} else {
			ext["of"] = -1
		}
		ext["bag"] = w.bagOf(w.ext, nil)
	}
	return map[string]any{"spans": spans, "car": car, "ext": ext}
}

var _ = json.Marshal
