// Helpers copied from harness/vh (edge graph, result file, ndjson trace writer): harness_x03 is its own Go module.
package main

import (
	"bufio"
	"bytes"
	"encoding/json"
	"fmt"
	"os"
	"sort"
	"strconv"
	"sync"
	"sync/atomic"
)

// Edge is one transition of the specification's state graph as printed by TLC.
type Edge struct {
	From json.RawMessage `json:"from"`
	Act  json.RawMessage `json:"act"`
	To   json.RawMessage `json:"to"`
	Out  json.RawMessage `json:"out"` // what the call itself returns (not part of the state)
}

// Canon re-marshals JSON with sorted object keys so equal values have equal strings.
func Canon(raw []byte) string {
	var v any
	d := json.NewDecoder(bytes.NewReader(raw))
	d.UseNumber()
	if err := d.Decode(&v); err != nil {
		return string(raw)
	}
	b, _ := json.Marshal(v) // encoding/json sorts map keys
	return string(b)
}

// Graph is the edge list with a BFS spanning tree from the initial state.
type Graph struct {
	Edges  []Edge
	Init   string
	parent map[string]int // state key -> index of tree edge reaching it (-1 for init)
	keys   []string       // from-key per edge
}

// LoadEdges reads an ndjson edge dump. The first edge's source is the initial state
// (TLC explores breadth first).
func LoadEdges(path string) (*Graph, error) {
	f, err := os.Open(path)
	if err != nil {
		return nil, err
	}
	defer f.Close()
	g := &Graph{parent: map[string]int{}}
	sc := bufio.NewScanner(f)
	sc.Buffer(make([]byte, 1<<20), 1<<28)
	for sc.Scan() {
		line := bytes.TrimSpace(sc.Bytes())
		if len(line) == 0 {
			continue
		}
		var e Edge
		if err := json.Unmarshal(line, &e); err != nil {
			return nil, fmt.Errorf("edge %d: %w", len(g.Edges), err)
		}
		g.Edges = append(g.Edges, e)
	}
	if len(g.Edges) == 0 {
		return nil, fmt.Errorf("no edges in %s", path)
	}
	g.keys = make([]string, len(g.Edges))
	for i, e := range g.Edges {
		g.keys[i] = Canon(e.From)
	}
	g.Init = g.keys[0]
	g.parent[g.Init] = -1
	// edges are printed in BFS order: a source state is always reached by an earlier edge
	for i, e := range g.Edges {
		if _, ok := g.parent[g.keys[i]]; !ok {
			continue // unreachable by earlier edges (should not happen)
		}
		tk := Canon(e.To)
		if _, ok := g.parent[tk]; !ok {
			g.parent[tk] = i
		}
	}
	return g, nil
}

// Path returns the actions leading from the initial state to the source of edge i.
// ok is false if the source is not reachable through the tree.
func (g *Graph) Path(i int) (acts []json.RawMessage, ok bool) {
	k := g.keys[i]
	var rev []json.RawMessage
	for n := 0; ; n++ {
		p, found := g.parent[k]
		if !found || n > 10000 {
			return nil, false
		}
		if p < 0 {
			break
		}
		rev = append(rev, g.Edges[p].Act)
		k = g.keys[p]
	}
	for i := len(rev) - 1; i >= 0; i-- {
		acts = append(acts, rev[i])
	}
	return acts, true
}

// Mismatch is one disagreement between the real code and the specification.
type Mismatch struct {
	Kind   string `json:"kind"`
	Case   any    `json:"case"`             // minimal description used for known-finding matching
	Path   any    `json:"path,omitempty"`   // operations leading to the source state
	Act    any    `json:"act,omitempty"`    // the operation
	Want   any    `json:"want,omitempty"`   // specification's successor (projection)
	Got    any    `json:"got,omitempty"`    // real code's state (projection)
	Detail string `json:"detail,omitempty"` // free text
}

// Result is what a harness run reports to the python driver.
type Result struct {
	mu           sync.Mutex
	Evaluations  int64            `json:"evaluations"`
	Executed     int64            `json:"executed"` // edges / behaviours / scenarios executed on the real code
	Mismatches   []Mismatch       `json:"mismatches"`
	NMismatch    int64            `json:"n_mismatch"`
	Counters     map[string]int64 `json:"counters"`
	Samples      []any            `json:"samples"`
	Inconclusive []string         `json:"inconclusive"`
}

func NewResult() *Result {
	return &Result{Counters: map[string]int64{}, Mismatches: []Mismatch{}, Samples: []any{}, Inconclusive: []string{}}
}

func (r *Result) Count(name string, n int64) {
	r.mu.Lock()
	r.Counters[name] += n
	r.mu.Unlock()
}

func (r *Result) AddMismatch(m Mismatch) {
	atomic.AddInt64(&r.NMismatch, 1)
	r.mu.Lock()
	if len(r.Mismatches) < 100000 {
		r.Mismatches = append(r.Mismatches, m)
	}
	r.mu.Unlock()
}

func (r *Result) Sample(v any) {
	r.mu.Lock()
	if len(r.Samples) < 5 {
		r.Samples = append(r.Samples, v)
	}
	r.mu.Unlock()
}

func (r *Result) Inconcl(s string) {
	r.mu.Lock()
	if len(r.Inconclusive) < 50 {
		r.Inconclusive = append(r.Inconclusive, s)
	}
	r.mu.Unlock()
}

func (r *Result) Write(path string) error {
	r.mu.Lock()
	defer r.mu.Unlock()
	b, err := json.MarshalIndent(r, "", " ")
	if err != nil {
		return err
	}
	return os.WriteFile(path, b, 0o644)
}

// TraceWriter writes ndjson trace events, ordered by one atomic sequence number.
type TraceWriter struct {
	mu  sync.Mutex
	w   *bufio.Writer
	f   *os.File
	seq int64
	N   int64
}

func NewTraceWriter(path string) (*TraceWriter, error) {
	f, err := os.Create(path)
	if err != nil {
		return nil, err
	}
	return &TraceWriter{f: f, w: bufio.NewWriterSize(f, 1<<20)}, nil
}

// Emit appends one event. The sequence number is taken and the line written under one
// lock, so file order = sequence order = a real-time-consistent total order of Emit calls.
func (t *TraceWriter) Emit(ev map[string]any) {
	t.mu.Lock()
	t.seq++
	ev["seq"] = t.seq
	b, err := json.Marshal(ev)
	if err == nil {
		t.w.Write(b)
		t.w.WriteByte('\n')
		t.N++
	}
	t.mu.Unlock()
}

func (t *TraceWriter) Close() error {
	t.mu.Lock()
	defer t.mu.Unlock()
	if err := t.w.Flush(); err != nil {
		return err
	}
	return t.f.Close()
}

// Seed returns VERIF_SEED (default 1).
func Seed() int64 {
	if s := os.Getenv("VERIF_SEED"); s != "" {
		if n, err := strconv.ParseInt(s, 10, 64); err == nil {
			return n
		}
	}
	return 1
}

// Thorough reports whether VERIF_TIER=thorough.
func Thorough() bool { return os.Getenv("VERIF_TIER") == "thorough" }

// SortedKeys returns the sorted keys of a map.
func SortedKeys[V any](m map[string]V) []string {
	ks := make([]string, 0, len(m))
	for k := range m {
		ks = append(ks, k)
	}
	sort.Strings(ks)
	return ks
}

// Must aborts the harness (exit 3 = harness failure, reported as inconclusive).
func Must(err error) {
	if err != nil {
		fmt.Fprintln(os.Stderr, "harness error:", err)
		os.Exit(3)
	}
}
