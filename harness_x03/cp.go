package main

import (
	"context"
	"fmt"
	"net/http"
	"sort"
	"strings"

	"go.opentelemetry.io/otel/baggage"
	"go.opentelemetry.io/otel/propagation"
	"go.opentelemetry.io/otel/trace"
)

// Part C: the composite propagator over TraceContext, Baggage and two marker propagators.

var cpIDs = []spanKey{
	{trace.TraceID{0x0a, 0xf7, 0x65, 0x19, 0x16, 0xcd, 0x43, 0xdd, 0x84, 0x48, 0xeb, 0x21, 0x1c, 0x80, 0x31, 0x9c}, trace.SpanID{0xb7, 0xad, 0x6b, 0x71, 0x69, 0x20, 0x33, 0x31}},
	{trace.TraceID{0xff, 0xff, 0xff, 0xff, 0xff, 0xff, 0xff, 0xff, 0xff, 0xff, 0xff, 0xff, 0xff, 0xff, 0xff, 0xfe}, trace.SpanID{0, 0, 0, 0, 0, 0, 0, 1}},
}
var tsKeys = map[string][2]string{"a": {"vendor-a", "x:1"}, "b": {"b/2@sys", "v 2~"}}

type slotKey int
type logKey struct{}

// marker is a user propagator: it carries one context slot in its own field and writes the two
// fields x-shared / x-order that both markers share.
type marker struct{ n int }

func (m marker) field() string { return fmt.Sprintf("x-m%d", m.n) }
func (m marker) Inject(ctx context.Context, c propagation.TextMapCarrier) {
	if v, _ := ctx.Value(slotKey(m.n)).(string); v != "" {
		c.Set(m.field(), v)
	}
	c.Set("x-shared", fmt.Sprint(m.n))
	c.Set("x-order", c.Get("x-order")+fmt.Sprint(m.n))
}
func (m marker) Extract(ctx context.Context, c propagation.TextMapCarrier) context.Context {
	s1, _ := ctx.Value(slotKey(1)).(string)
	s2, _ := ctx.Value(slotKey(2)).(string)
	saw := map[string]any{"p": m.n, "sc": trace.SpanContextFromContext(ctx).IsValid(), "bag": baggage.FromContext(ctx).Len() > 0, "s1": s1, "s2": s2}
	old, _ := ctx.Value(logKey{}).([]any)
	ctx = context.WithValue(ctx, logKey{}, append(append([]any{}, old...), saw))
	if v := c.Get(m.field()); v != "" {
		ctx = context.WithValue(ctx, slotKey(m.n), v)
	}
	return ctx
}
func (m marker) Fields() []string { return []string{m.field(), "x-shared", "x-order"} }

type cpWorld struct {
	sy     *syms
	rep    int
	car    propagation.TextMapCarrier
	ctx    context.Context
	fields []string
}

func newCPWorld(rep int) machine {
	return &cpWorld{sy: newSyms(rep), rep: rep, car: propagation.MapCarrier{}, ctx: context.Background(), fields: []string{}}
}

func (w *cpWorld) newCarrier() propagation.TextMapCarrier {
	if w.rep%2 == 1 {
		return propagation.HeaderCarrier(http.Header{})
	}
	return propagation.MapCarrier{}
}

func (w *cpWorld) props(ps []any) propagation.TextMapPropagator {
	var l []propagation.TextMapPropagator
	for _, p := range ps {
		switch p.(string) {
		case "tc":
			l = append(l, propagation.TraceContext{})
		case "bg":
			l = append(l, propagation.Baggage{})
		case "m1":
			l = append(l, marker{1})
		case "m2":
			l = append(l, marker{2})
		}
	}
	return propagation.NewCompositeTextMapPropagator(l...)
}

func (w *cpWorld) mkSC(m map[string]any) trace.SpanContext {
	if b, _ := m["valid"].(bool); !b {
		return trace.SpanContext{}
	}
	id := cpIDs[num(m, "id")-1]
	ts := trace.TraceState{}
	l := list(m, "ts")
	for i := len(l) - 1; i >= 0; i-- {
		kv := tsKeys[l[i].(string)]
		var err error
		if ts, err = ts.Insert(kv[0], kv[1]); err != nil {
			panic(err)
		}
	}
	var fl trace.TraceFlags
	if b, _ := m["smp"].(bool); b {
		fl = trace.FlagsSampled
	}
	rem, _ := m["rem"].(bool)
	return trace.NewSpanContext(trace.SpanContextConfig{TraceID: id.tid, SpanID: id.sid, TraceFlags: fl, TraceState: ts, Remote: rem})
}

func (w *cpWorld) mkBag(l []any) baggage.Baggage {
	var ms []baggage.Member
	for i, v := range l {
		if s := v.(string); s != "" {
			m, err := baggage.NewMemberRaw(w.sy.bagKey(i+1), w.sy.str(s))
			if err != nil {
				panic(err)
			}
			ms = append(ms, m)
		}
	}
	b, err := baggage.New(ms...)
	if err != nil {
		panic(err)
	}
	return b
}

func (w *cpWorld) mkCtx(m map[string]any) context.Context {
	ctx := context.Background()
	sc := w.mkSC(m["sc"].(map[string]any))
	if sc.IsValid() {
		ctx = trace.ContextWithSpanContext(ctx, sc)
	}
	if b := w.mkBag(list(m, "bag")); b.Len() > 0 {
		ctx = baggage.ContextWithBaggage(ctx, b)
	}
	for n := 1; n <= 2; n++ {
		if v := str(m, fmt.Sprintf("s%d", n)); v != "" {
			ctx = context.WithValue(ctx, slotKey(n), w.sy.str(v))
		}
	}
	return ctx
}

// mkCar writes a hand-made carrier: "ok" headers are produced by the member propagators themselves
// (their formats are C03 / C11), "bad" ones are malformed on purpose.
func (w *cpWorld) mkCar(m map[string]any) propagation.TextMapCarrier {
	c := w.newCarrier()
	switch str(m, "tp") {
	case "ok":
		propagation.TraceContext{}.Inject(trace.ContextWithSpanContext(context.Background(), w.mkSC(m["tpsc"].(map[string]any))), c)
	case "bad":
		c.Set("traceparent", []string{"00-00000000000000000000000000000000-b7ad6b7169203331-01", "00-0af7651916cd43dd8448eb211c80319c-b7ad6b7169203331", "ff-0af7651916cd43dd8448eb211c80319c-b7ad6b7169203331-01"}[w.rep%3])
		c.Set("tracestate", "vendor-a=x:1")
	}
	switch str(m, "bg") {
	case "ok":
		propagation.Baggage{}.Inject(baggage.ContextWithBaggage(context.Background(), w.mkBag(list(m, "bag"))), c)
	case "bad":
		c.Set("baggage", []string{"=novalue;;", "k ey=v,,,", "b1=%zz"}[w.rep%3])
	}
	for n := 1; n <= 2; n++ {
		if v := str(m, fmt.Sprintf("m%d", n)); v != "" {
			c.Set(fmt.Sprintf("x-m%d", n), w.sy.str(v))
		}
	}
	return c
}

func (w *cpWorld) apply(op map[string]any) (out map[string]any, err error) {
	defer func() {
		if r := recover(); r != nil {
			err = fmt.Errorf("panic: %v", r)
		}
	}()
	out = map[string]any{}
	switch str(op, "op") {
	case "RT":
		p := w.props(list(op, "ps"))
		w.car = w.newCarrier()
		p.Inject(w.mkCtx(op["ctx"].(map[string]any)), w.car)
		w.ctx = p.Extract(context.Background(), w.car)
	case "EX":
		p := w.props(list(op, "ps"))
		w.car = w.mkCar(op["car"].(map[string]any))
		w.ctx = p.Extract(w.mkCtx(op["ctx"].(map[string]any)), w.car)
	case "Fields":
		w.fields = w.props(list(op, "ps")).Fields()
		if w.fields == nil {
			w.fields = []string{}
		}
	default:
		return nil, fmt.Errorf("unknown op %v", op["op"])
	}
	return out, nil
}

func (w *cpWorld) projSC(sc trace.SpanContext) map[string]any {
	out := map[string]any{"valid": false, "id": 0, "smp": false, "rem": false, "ts": []any{}}
	if !sc.IsValid() {
		return out
	}
	out["valid"] = true
	out["id"] = -1
	for i, id := range cpIDs {
		if id == keyOf(sc) {
			out["id"] = i + 1
		}
	}
	out["smp"] = sc.IsSampled()
	out["rem"] = sc.IsRemote()
	ts := []any{}
	sc.TraceState().Walk(func(k, v string) bool {
		sym := "?" + k
		for s, kv := range tsKeys {
			if kv[0] == k && kv[1] == v {
				sym = s
			}
		}
		ts = append(ts, sym)
		return true
	})
	out["ts"] = ts
	return out
}

func (w *cpWorld) projBag(b baggage.Baggage) []any {
	bag := emptyBag(2)
	for _, m := range b.Members() {
		hit := false
		for k := 1; k <= 2; k++ {
			if w.sy.bagKey(k) == m.Key() {
				bag[k-1] = w.sy.abs(m.Value())
				hit = true
			}
		}
		if !hit {
			bag = append(bag, "?extra:"+m.Key())
		}
	}
	return bag
}

func (w *cpWorld) project() map[string]any {
	car := map[string]any{"tp": "none", "tpsc": w.projSC(trace.SpanContext{}), "bg": "none", "bag": emptyBag(2), "m1": "", "m2": "", "shared": "", "order": []any{}}
	get := w.car.Get
	if tp := get("traceparent"); tp != "" {
		// the carrier is judged through the member propagator's own Extract (its grammar is C03's subject)
		sc := trace.SpanContextFromContext(propagation.TraceContext{}.Extract(context.Background(), w.car))
		if sc.IsValid() {
			car["tp"] = "ok"
			p := w.projSC(sc)
			p["rem"] = false // not on the wire
			car["tpsc"] = p
		} else {
			car["tp"] = "bad"
		}
	}
	if h := get("baggage"); h != "" {
		if b, err := baggage.Parse(h); err == nil && b.Len() > 0 {
			car["bg"] = "ok"
			car["bag"] = w.projBag(b)
		} else {
			car["bg"] = "bad"
		}
	}
	car["m1"], car["m2"] = w.sy.abs(get("x-m1")), w.sy.abs(get("x-m2"))
	car["shared"] = get("x-shared")
	order := []any{}
	for _, ch := range get("x-order") {
		order = append(order, int(ch-'0'))
	}
	car["order"] = order
	known := map[string]bool{"traceparent": true, "tracestate": true, "baggage": true, "x-m1": true, "x-m2": true, "x-shared": true, "x-order": true}
	var extra []string
	for _, k := range w.car.Keys() {
		if !known[strings.ToLower(k)] {
			extra = append(extra, k)
		}
	}
	if len(extra) > 0 {
		sort.Strings(extra)
		car["extra_keys"] = extra
	}
	s1, _ := w.ctx.Value(slotKey(1)).(string)
	s2, _ := w.ctx.Value(slotKey(2)).(string)
	lg, _ := w.ctx.Value(logKey{}).([]any)
	logs := []any{}
	for _, e := range lg {
		m := e.(map[string]any)
		logs = append(logs, map[string]any{"p": m["p"], "sc": m["sc"], "bag": m["bag"], "s1": w.sy.abs(m["s1"].(string)), "s2": w.sy.abs(m["s2"].(string))})
	}
	ctx := map[string]any{"sc": w.projSC(trace.SpanContextFromContext(w.ctx)), "bag": w.projBag(baggage.FromContext(w.ctx)),
		"s1": w.sy.abs(s1), "s2": w.sy.abs(s2), "log": logs}
	f := append([]string{}, w.fields...)
	fl := []any{}
	for _, x := range f {
		fl = append(fl, x)
	}
	return map[string]any{"car": car, "ctx": ctx, "fieldsU": fl}
}
