package main

import (
	"fmt"
	"math/rand"
)

// Seeded random histories (code -> spec).  The generator only picks abstract operations that the
// model defines (same guards as OTBridge.tla / OCBridge.tla) and records what the real code did;
// Trace_Bridge.tla judges the log.

var otClasses = []string{"str", "str2", "bool", "int", "i32", "u32", "uint", "u64", "f32", "f64", "i64"}
var ocClasses = []string{"bool", "i64", "f64", "str", "str2"}

func pick[T any](r *rand.Rand, xs ...T) T { return xs[r.Intn(len(xs))] }

func kvList(r *rand.Rand, nk int, classes []string, max int) []any {
	out := []any{}
	for i := r.Intn(max + 1); i > 0; i-- {
		out = append(out, map[string]any{"k": 1 + r.Intn(nk), "c": classes[r.Intn(len(classes))]})
	}
	return out
}

func genOT(r *rand.Rand, w *otWorld, maxSpans int) map[string]any {
	n := len(w.spans)
	name := pick(r, "n1", "n1", "n2", "ns")
	if n == 0 || (n < maxSpans && r.Intn(4) == 0) {
		switch r.Intn(4) {
		case 0:
			return map[string]any{"op": "OTelStart", "p": r.Intn(n + 1), "name": name}
		case 1:
			return map[string]any{"op": "CtxStart", "p": r.Intn(n + 1), "name": name}
		}
		refs := []any{}
		for i := r.Intn(4); i > 0 && n > 0; i-- {
			to := 1 + r.Intn(n)
			switch {
			case r.Intn(8) == 0:
				to = -1
			case w.ext != nil && r.Intn(4) == 0:
				to = 0
			}
			t := "c"
			if r.Intn(4) == 0 {
				t = "f"
			}
			refs = append(refs, map[string]any{"t": t, "to": to})
		}
		// references that disagree on a baggage item: the contract does not say which one wins
		seen := map[string]string{}
		conflict := false
		for _, x := range refs {
			if to := num(x.(map[string]any), "to"); to >= 0 {
				w.refCtx(to).ForeachBaggageItem(func(k, v string) bool {
					if o, ok := seen[k]; ok && o != v {
						conflict = true
					}
					seen[k] = v
					return true
				})
			}
		}
		if conflict {
			refs = refs[:1]
		}
		tags := []any{}
		used := map[int]bool{}
		for _, x := range kvList(r, w.nk, otClasses, 3) {
			if k := num(x.(map[string]any), "k"); !used[k] { // start tags are a map
				used[k] = true
				tags = append(tags, x)
			}
		}
		return map[string]any{"op": "Start", "name": name, "refs": refs, "kind": pick(r, "", "", "client", "server", "producer", "consumer", "bogus"),
			"err": pick(r, "", "", "", "true", "false"), "tags": tags}
	}
	i := 1 + r.Intn(n)
	switch r.Intn(12) {
	case 0, 1:
		return map[string]any{"op": "SetTag", "i": i, "k": 1 + r.Intn(w.nk), "c": otClasses[r.Intn(len(otClasses))]}
	case 2:
		return map[string]any{"op": "SetKind", "i": i, "c": "client"}
	case 3:
		return map[string]any{"op": "SetErr", "i": i, "c": pick(r, "true", "true", "true", "false")}
	case 4, 5:
		return map[string]any{"op": "Log", "i": i, "via": pick(r, "fields", "kv"), "kvs": kvList(r, w.nk, otClasses, 4)}
	case 6:
		return map[string]any{"op": "SetName", "i": i, "name": pick(r, "n1", "n2")}
	case 7:
		if r.Intn(2) == 0 {
			return map[string]any{"op": "Finish", "i": i, "via": "plain", "logs": 0}
		}
		return map[string]any{"op": "Finish", "i": i, "via": "opts", "logs": r.Intn(3)}
	case 8, 9:
		return map[string]any{"op": "SetBag", "i": i, "k": 1 + r.Intn(w.nb), "v": pick(r, "v1", "v2")}
	case 10:
		op := map[string]any{"op": "Inject", "i": i, "fmt": pick(r, "textmap", "http"), "car": pick(r, "map", "http", "wonly")}
		if w.ext != nil && r.Intn(5) == 0 {
			op["i"] = 0
		}
		switch r.Intn(12) { // at most one fault
		case 0:
			op["i"] = -1
		case 1:
			op["fmt"] = "binary"
		case 2:
			op["car"] = "bad"
		}
		if op["car"] == "http" && op["fmt"] == "textmap" {
			op["fmt"] = "http"
		}
		return op
	case 11:
		op := map[string]any{"op": "Extract", "fmt": pick(r, "textmap", "http"), "car": pick(r, "cur", "cur", "cur", "empty")}
		switch r.Intn(12) {
		case 0:
			op["fmt"] = "binary"
		case 1:
			op["car"] = "bad"
		}
		if op["car"] == "cur" && w.carKind == "http" && op["fmt"] == "textmap" {
			op["fmt"] = "http"
		}
		return op
	}
	return map[string]any{"op": "Ctx", "i": i}
}

func genOC(r *rand.Rand, w *ocWorld, maxSpans int) map[string]any {
	n := len(w.spans)
	if n == 0 || (n < maxSpans && r.Intn(4) == 0) {
		op := map[string]any{"op": "Start", "p": r.Intn(n + 1), "q": 0, "via": "ctx", "kind": pick(r, "", "unspecified", "client", "server"),
			"sampler": r.Intn(5) == 0, "name": pick(r, "n1", "n2")}
		if n > 0 && r.Intn(3) == 0 {
			op["via"], op["p"], op["q"] = "remote", 1+r.Intn(n), r.Intn(n+1)
		}
		return op
	}
	i := 1 + r.Intn(n)
	switch r.Intn(9) {
	case 0, 1:
		l := kvList(r, w.nk, ocClasses, 3)
		if len(l) == 0 {
			l = append(l, map[string]any{"k": 1, "c": "str"})
		}
		return map[string]any{"op": "AddAttrs", "i": i, "kvs": l}
	case 2:
		return map[string]any{"op": "Annotate", "i": i, "kvs": kvList(r, w.nk, ocClasses, 3), "msg": pick(r, "m1", "m2")}
	case 3:
		return map[string]any{"op": "MsgEvent", "i": i, "dir": pick(r, "send", "recv")}
	case 4:
		if i > 1 {
			return map[string]any{"op": "AddLink", "i": i, "to": 1 + r.Intn(i-1), "typ": pick(r, "child", "parent")}
		}
		return map[string]any{"op": "Ctx", "i": i}
	case 5:
		return map[string]any{"op": "SetStatus", "i": i, "code": pick(r, 0, 0, 1, 1, 1, 2, 5, 13, 16, -1), "msg": pick(r, "", "d1")}
	case 6:
		return map[string]any{"op": "SetName", "i": i, "name": pick(r, "n1", "n2")}
	case 7:
		return map[string]any{"op": "End", "i": i}
	}
	return map[string]any{"op": "Ctx", "i": i}
}

func random(_ string, n int, tracePath, resPath string, nk, nb int) {
	tw, err := NewTraceWriter(tracePath)
	Must(err)
	res := NewResult()
	cls := &classes{}
	r := rand.New(rand.NewSource(Seed()*7919 + 17))
	for sc := 0; sc < n; sc++ {
		part := "ot"
		if sc%3 == 2 {
			part = "oc"
		}
		rep := r.Intn(12)
		m := newMachine(part, nk, nb, rep)
		tw.Emit(map[string]any{"ev": "New", "part": part, "sc": sc, "rep": rep})
		steps := 4 + r.Intn(12)
		var ops []any
		for s := 0; s < steps; s++ {
			var op map[string]any
			if part == "ot" {
				op = genOT(r, m.(*otWorld), 5)
			} else {
				op = genOC(r, m.(*ocWorld), 4)
			}
			op = norm(op).(map[string]any)
			ops = append(ops, op)
			out, err := m.apply(op)
			res.Evaluations++
			res.Count(part+"."+str(op, "op"), 1)
			if err != nil {
				// a panic inside the bridge is real behaviour: reported with the history, scenario abandoned
				mm := Mismatch{Kind: "panic", Path: ops, Detail: err.Error()}
				res.NMismatch++
				for _, sig := range sigsFor(part, "panic", []string{"act"}, ops) {
					cls.add(sig, mm)
				}
				break
			}
			nspans := len(list(norm(m.project()).(map[string]any), "spans"))
			fs := []any{}
			for j := 0; j <= nspans; j++ {
				fs = append(fs, facts(part, ops, j))
			}
			tw.Emit(map[string]any{"ev": "Op", "part": part, "sc": sc, "op": op, "obs": m.project(), "out": out, "facts": fs})
		}
		res.Executed++
		if sc < 2 {
			res.Sample(map[string]any{"part": part, "ops": ops})
		}
	}
	Must(tw.Close())
	res.Count("lines", tw.N)
	writeResult(res, cls, resPath)
	fmt.Println("random scenarios:", n, "lines:", tw.N)
}
