package main


func random(part string, n int, out, res string, nk, nb int) { panic("todo") }
