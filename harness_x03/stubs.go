package main

func newOCWorld(nk, nb, rep int) machine { panic("todo") }
func random(part string, n int, out, res string, nk, nb int) { panic("todo") }
