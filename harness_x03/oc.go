package main

import (
	"context"
	"fmt"
	"sync/atomic"

	octrace "go.opencensus.io/trace"
	"go.opencensus.io/trace/tracestate"

	"go.opentelemetry.io/otel"
	"go.opentelemetry.io/otel/bridge/opencensus"
	sdktrace "go.opentelemetry.io/otel/sdk/trace"
	"go.opentelemetry.io/otel/trace"
)

// Part B (traces): the OpenCensus trace bridge installed as octrace.DefaultTracer over a recording SDK.

var handled int64 // calls of the global OpenTelemetry error handler

func init() {
	otel.SetErrorHandler(otel.ErrorHandlerFunc(func(error) { atomic.AddInt64(&handled, 1) }))
}

type ocSpan struct {
	s   *octrace.Span
	ctx context.Context
}

type ocWorld struct {
	world
	tp    *sdktrace.TracerProvider
	spans []*ocSpan
}

func newOCWorld(nk, nb, rep int) machine {
	w := &ocWorld{}
	w.sy = newSyms(rep)
	w.nk, w.nb = nk, nb
	w.rec = newRecorder()
	w.tp = sdktrace.NewTracerProvider(sdktrace.WithSpanProcessor(w.rec))
	opencensus.InstallTraceBridge(opencensus.WithTracerProvider(w.tp))
	return w
}

func ocKey(sc octrace.SpanContext) spanKey {
	return spanKey{trace.TraceID(sc.TraceID), trace.SpanID(sc.SpanID)}
}

func (w *ocWorld) attrs(kvs []any) []octrace.Attribute {
	var out []octrace.Attribute
	for _, x := range kvs {
		m := x.(map[string]any)
		k := w.sy.key(num(m, "k"))
		switch str(m, "c") {
		case "bool":
			out = append(out, octrace.BoolAttribute(k, true))
		case "i64":
			out = append(out, octrace.Int64Attribute(k, 9007199254740993))
		case "f64":
			out = append(out, octrace.Float64Attribute(k, 2.25))
		case "str":
			out = append(out, octrace.StringAttribute(k, w.sy.str("sv")))
		case "str2":
			out = append(out, octrace.StringAttribute(k, w.sy.str("sw")))
		default:
			panic("unknown OC attribute class")
		}
	}
	return out
}

func (w *ocWorld) apply(op map[string]any) (out map[string]any, err error) {
	defer func() {
		if r := recover(); r != nil {
			err = fmt.Errorf("panic: %v", r)
		}
	}()
	out = map[string]any{"err": ""}
	sp := func() *ocSpan { return w.spans[num(op, "i")-1] }
	ctxOf := func(p int) context.Context {
		if p == 0 {
			return context.Background()
		}
		return w.spans[p-1].ctx
	}
	switch str(op, "op") {
	case "Start":
		var opts []octrace.StartOption
		switch str(op, "kind") {
		case "client":
			opts = append(opts, octrace.WithSpanKind(octrace.SpanKindClient))
		case "server":
			opts = append(opts, octrace.WithSpanKind(octrace.SpanKindServer))
		case "unspecified":
			opts = append(opts, octrace.WithSpanKind(octrace.SpanKindUnspecified))
		}
		if b, _ := op["sampler"].(bool); b {
			opts = append(opts, octrace.WithSampler(octrace.AlwaysSample()))
		}
		before := atomic.LoadInt64(&handled)
		var ctx context.Context
		var s *octrace.Span
		name := w.sy.str(str(op, "name"))
		if str(op, "via") == "remote" {
			ctx, s = octrace.StartSpanWithRemoteParent(ctxOf(num(op, "q")), name, w.spans[num(op, "p")-1].s.SpanContext(), opts...)
		} else {
			ctx, s = octrace.StartSpan(ctxOf(num(op, "p")), name, opts...)
		}
		w.spans = append(w.spans, &ocSpan{s: s, ctx: ctx})
		w.refs = append(w.refs, spanRef{key: ocKey(s.SpanContext())})
		return map[string]any{"handled": atomic.LoadInt64(&handled) > before}, nil
	case "AddAttrs":
		sp().s.AddAttributes(w.attrs(list(op, "kvs"))...)
	case "Annotate":
		if w.sy.rep%2 == 1 {
			sp().s.Annotatef(w.attrs(list(op, "kvs")), "%s", w.sy.str(str(op, "msg")))
		} else {
			sp().s.Annotate(w.attrs(list(op, "kvs")), w.sy.str(str(op, "msg")))
		}
	case "MsgEvent":
		if str(op, "dir") == "send" {
			sp().s.AddMessageSendEvent(5, 11, 7)
		} else {
			sp().s.AddMessageReceiveEvent(5, 11, 7)
		}
	case "AddLink":
		to := w.refs[num(op, "to")-1].key
		t := octrace.LinkTypeChild
		if str(op, "typ") == "parent" {
			t = octrace.LinkTypeParent
		}
		sp().s.AddLink(octrace.Link{TraceID: octrace.TraceID(to.tid), SpanID: octrace.SpanID(to.sid), Type: t, Attributes: map[string]interface{}{"la": "x"}})
	case "SetStatus":
		sp().s.SetStatus(octrace.Status{Code: int32(num(op, "code")), Message: w.sy.str(str(op, "msg"))})
	case "SetName":
		sp().s.SetName(w.sy.str(str(op, "name")))
	case "End":
		sp().s.End()
	case "Ctx":
		ctx := sp().ctx
		oc := -1
		if s := octrace.FromContext(ctx); s != nil {
			oc = w.idxOf(ocKey(s.SpanContext()))
		}
		// NewContext / FromContext round trip in a fresh context
		if s := octrace.FromContext(octrace.NewContext(context.Background(), sp().s)); s == nil || w.idxOf(ocKey(s.SpanContext())) != oc {
			oc = -2
		}
		return map[string]any{"oc": oc, "otel": w.idxOf(keyOf(trace.SpanContextFromContext(ctx)))}, nil
	case "ToOC", "ToOTel", "RoundOC", "RoundOTel":
		return w.conv(str(op, "op"), op["sc"].(map[string]any)), nil
	default:
		return out, fmt.Errorf("unknown op %v", op["op"])
	}
	return out, nil
}

// tracestate keys of the conversion cases: class "both" is valid in OpenCensus and W3C, class "otel"
// only in the W3C grammar (multi-tenant key whose tenant id starts with a digit); the key is made unique by its position.
func tsKey(class string, i, rep int) string {
	if class == "otel" {
		return fmt.Sprintf([]string{"%dx@sys", "%d-t/a@v", "%d@s"}[rep%3], i)
	}
	return fmt.Sprintf([]string{"k%d", "vendor-%d/x", "t%d@sys"}[rep%3], i)
}
func tsClass(k string) string {
	if k != "" && k[0] >= '0' && k[0] <= '9' {
		return "otel"
	}
	return "both"
}

func (w *ocWorld) conv(op string, sc map[string]any) map[string]any {
	id := cpIDs[0]
	smp, _ := sc["smp"].(bool)
	entries := list(sc, "ts")
	mkOTel := func() trace.SpanContext {
		ts := trace.TraceState{}
		for i := len(entries) - 1; i >= 0; i-- {
			e := entries[i].(map[string]any)
			var err error
			if ts, err = ts.Insert(tsKey(str(e, "k"), i+1, w.sy.rep), str(e, "v")); err != nil {
				panic(err)
			}
		}
		var fl trace.TraceFlags
		if smp {
			fl = trace.FlagsSampled | 0x02 // an unrelated flag bit rides along
		}
		return trace.NewSpanContext(trace.SpanContextConfig{TraceID: id.tid, SpanID: id.sid, TraceFlags: fl, TraceState: ts})
	}
	mkOC := func() octrace.SpanContext {
		var es []tracestate.Entry
		for i, x := range entries {
			e := x.(map[string]any)
			es = append(es, tracestate.Entry{Key: tsKey(str(e, "k"), i+1, w.sy.rep), Value: str(e, "v")})
		}
		ts, err := tracestate.New(nil, es...)
		if err != nil {
			panic(err)
		}
		var to octrace.TraceOptions
		if smp {
			to = 1
		}
		return octrace.SpanContext{TraceID: octrace.TraceID(id.tid), SpanID: octrace.SpanID(id.sid), TraceOptions: to, Tracestate: ts}
	}
	projOTel := func(s trace.SpanContext) (bool, bool, []any) {
		ts := []any{}
		s.TraceState().Walk(func(k, v string) bool {
			ts = append(ts, map[string]any{"k": tsClass(k), "v": v})
			return true
		})
		return keyOf(s) == id, s.IsSampled(), ts
	}
	projOC := func(s octrace.SpanContext) (bool, bool, []any) {
		ts := []any{}
		for _, e := range s.Tracestate.Entries() {
			ts = append(ts, map[string]any{"k": tsClass(e.Key), "v": e.Value})
		}
		return ocKey(s) == id, s.IsSampled(), ts
	}
	before := atomic.LoadInt64(&handled)
	var ids, gotSmp bool
	var ts []any
	switch op {
	case "ToOC":
		ids, gotSmp, ts = projOC(opencensus.OTelSpanContextToOC(mkOTel()))
	case "ToOTel":
		ids, gotSmp, ts = projOTel(opencensus.OCSpanContextToOTel(mkOC()))
	case "RoundOC":
		ids, gotSmp, ts = projOC(opencensus.OTelSpanContextToOC(opencensus.OCSpanContextToOTel(mkOC())))
	case "RoundOTel":
		ids, gotSmp, ts = projOTel(opencensus.OCSpanContextToOTel(opencensus.OTelSpanContextToOC(mkOTel())))
	}
	return map[string]any{"ids": ids, "smp": gotSmp, "tsA": ts, "handled": atomic.LoadInt64(&handled) > before}
}

func (w *ocWorld) project() map[string]any {
	spans := []any{}
	for i, s := range w.spans {
		spans = append(spans, w.projSpan(i+1, emptyBag(w.nb), s.s.SpanContext().IsSampled()))
	}
	return map[string]any{"spans": spans,
		"car": map[string]any{"has": false, "kind": "", "of": 0, "smp": false, "bag": emptyBag(w.nb)},
		"ext": map[string]any{"ok": false, "of": 0, "smp": false, "bag": emptyBag(w.nb)}}
}
