package main

import (
	"encoding/json"
	"regexp"
	"sort"
	"strconv"
	"strings"
)

// Classification of mismatches into small signatures (matched by the python driver against
// known_findings/X03.json).  Only neutral facts about the abstract history are computed here; the
// expected values themselves always come from the TLA+ model.

var idxRe = regexp.MustCompile(`\[(\d+)\]`)

type class struct {
	Sig     map[string]any `json:"sig"`
	Count   int64          `json:"count"`
	Example Mismatch       `json:"example"`
}

type classes struct {
	m map[string]*class
}

func (c *classes) add(sig map[string]any, ex Mismatch) {
	if c.m == nil {
		c.m = map[string]*class{}
	}
	b, _ := json.Marshal(sig)
	k := string(b)
	if e, ok := c.m[k]; ok {
		e.Count++
		return
	}
	c.m[k] = &class{Sig: sig, Count: 1, Example: ex}
}

func (c *classes) list() []*class {
	keys := make([]string, 0, len(c.m))
	for k := range c.m {
		keys = append(keys, k)
	}
	sort.Strings(keys)
	out := []*class{}
	for _, k := range keys {
		out = append(out, c.m[k])
	}
	return out
}

// sigsFor: one signature per differing field of one mismatch.
func sigsFor(part, kind string, fields []string, ops []any) []map[string]any {
	var sigs []map[string]any
	seen := map[string]bool{}
	for _, f := range fields {
		span := 0
		if m := idxRe.FindStringSubmatch(f); m != nil && len(f) > 7 && f[:7] == ".spans[" {
			span, _ = strconv.Atoi(m[1])
		}
		field := idxRe.ReplaceAllString(f, "")
		if len(field) > 0 && field[0] == '.' {
			field = field[1:]
		}
		sig := map[string]any{"part": part, "kind": kind, "field": field}
		for k, v := range facts(part, ops, span) {
			sig[k] = v
		}
		b, _ := json.Marshal(sig)
		if !seen[string(b)] {
			seen[string(b)] = true
			sigs = append(sigs, sig)
		}
	}
	return sigs
}

// facts about the history that led to the mismatch, relative to span index `span` (0: not a span field).
func facts(part string, ops []any, span int) map[string]any {
	out := map[string]any{}
	n := 0 // spans created so far
	ffFrom, mrFrom := 0, 0
	lp, errFalse := false, false
	code2, otelOnly, nilData := false, false, false
	nilWhich := ""
	for _, x := range ops {
		op, _ := x.(map[string]any)
		if op == nil {
			continue
		}
		name := str(op, "op")
		switch part {
		case "ot":
			switch name {
			case "Start":
				n++
				var usable []map[string]any
				for _, r := range list(op, "refs") {
					m := r.(map[string]any)
					if num(m, "to") >= 0 {
						usable = append(usable, m)
					}
				}
				onlyF := len(usable) > 0
				for _, m := range usable {
					if str(m, "t") == "c" {
						onlyF = false
					}
				}
				if onlyF && ffFrom == 0 {
					ffFrom = n // only FollowsFrom references
				}
				if len(usable) > 1 && mrFrom == 0 {
					mrFrom = n
				}
				if n == span {
					for _, m := range usable {
						if num(m, "to") > 0 {
							lp = true
						}
					}
					if str(op, "err") == "false" {
						errFalse = true
					}
				}
			case "CtxStart":
				n++
				if n == span && num(op, "p") > 0 {
					lp = true
				}
			case "OTelStart":
				n++
			case "SetErr":
				if num(op, "i") == span && str(op, "c") == "false" {
					errFalse = true
				}
			}
		case "oc":
			switch name {
			case "Start":
				n++
			case "SetStatus":
				if num(op, "i") == span && num(op, "code") >= 2 {
					code2 = true
				}
			case "ToOC", "RoundOTel":
				sc, _ := op["sc"].(map[string]any)
				for _, e := range list(sc, "ts") {
					if str(e.(map[string]any), "k") == "otel" {
						otelOnly = true
					}
				}
			}
		case "ocm":
			kinds := map[string]bool{}
			nilKinds(op["ms"], kinds)
			delete(kinds, "metric") // a nil *Metric is skipped by design
			nilData = len(kinds) > 0
			nilWhich = strings.Join(SortedKeys(kinds), "+")
		}
	}
	switch part {
	case "ot":
		out["ff"] = ffFrom > 0 && (span == 0 || span >= ffFrom)
		out["mr"] = mrFrom > 0 && (span == 0 || span >= mrFrom)
		out["lp"] = lp
		out["errfalse"] = errFalse
	case "oc":
		out["code2"] = code2
		out["otelonly"] = otelOnly
	case "ocm":
		out["nildata"] = nilData
		out["nil"] = nilWhich
	}
	return out
}

// nilKinds: which nil pointer classes an abstract OpenCensus metric case contains.
func nilKinds(v any, into map[string]bool) {
	switch x := v.(type) {
	case map[string]any:
		if b, ok := x["nil"].(bool); ok && b {
			if _, isMetric := x["type"]; isMetric {
				into["metric"] = true
			} else {
				into["series"] = true
			}
		}
		if s, ok := x["nil"].(string); ok && s != "" {
			into[map[string]string{"ptr": "value", "opts": "bucketoptions"}[s]] = true
		}
		for _, e := range x {
			nilKinds(e, into)
		}
	case []any:
		for _, e := range x {
			nilKinds(e, into)
		}
	}
}
