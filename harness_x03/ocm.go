package main

import (
	"context"
	"fmt"
	"sort"
	"strconv"
	"time"

	ocmetricdata "go.opencensus.io/metric/metricdata"
	"go.opencensus.io/metric/metricproducer"
	octrace "go.opencensus.io/trace"

	"go.opentelemetry.io/otel/attribute"
	"go.opentelemetry.io/otel/bridge/opencensus"
	"go.opentelemetry.io/otel/sdk/metric/metricdata"
)

// Part B (metrics): OpenCensus metric data fed through the public route -- a producer registered with
// OpenCensus' global manager, read by opencensus.NewMetricProducer().Produce.

var S1 = T1.Add(-time.Hour)
var T2 = T1.Add(time.Second)

type fixedProducer struct{ ms []*ocmetricdata.Metric }

func (p *fixedProducer) Read() []*ocmetricdata.Metric { return p.ms }

type ocmWorld struct {
	rep  int
	done bool
}

func newOCMWorld(rep int) machine { return &ocmWorld{rep: rep} }

func (w *ocmWorld) project() map[string]any { return map[string]any{"done": w.done} }

func mkValue(v map[string]any) any {
	exKind := str(v, "ex")
	mkEx := func() *ocmetricdata.Exemplar {
		switch exKind {
		case "sc":
			return &ocmetricdata.Exemplar{Value: 0.5, Timestamp: T1, Attachments: ocmetricdata.Attachments{
				ocmetricdata.AttachmentKeySpanContext: octrace.SpanContext{TraceID: octrace.TraceID(cpIDs[0].tid), SpanID: octrace.SpanID(cpIDs[0].sid)}}}
		case "att":
			return &ocmetricdata.Exemplar{Value: 0.5, Timestamp: T1, Attachments: ocmetricdata.Attachments{"zz": "top", "aa": uint8(3)}}
		case "badsc":
			return &ocmetricdata.Exemplar{Value: 0.5, Timestamp: T1, Attachments: ocmetricdata.Attachments{ocmetricdata.AttachmentKeySpanContext: "not a span context"}}
		}
		return nil
	}
	switch str(v, "k") {
	case "i":
		return int64(7)
	case "f":
		return float64(2.5)
	case "str":
		return "seven"
	case "dist":
		if str(v, "nil") == "ptr" {
			return (*ocmetricdata.Distribution)(nil)
		}
		d := &ocmetricdata.Distribution{Count: 3, Sum: 6.5, SumOfSquaredDeviation: 1,
			BucketOptions: &ocmetricdata.BucketOptions{Bounds: []float64{1, 2}},
			Buckets:       []ocmetricdata.Bucket{{Count: 1, Exemplar: mkEx()}, {Count: 1}, {Count: 1}}}
		if str(v, "nil") == "opts" {
			d.BucketOptions, d.Buckets = nil, nil // "If nil, there is no associated histogram"
		}
		switch str(v, "neg") {
		case "count":
			d.Count = -1
		case "bucket":
			d.Buckets[1].Count = -2
		}
		return d
	case "sum":
		if str(v, "nil") == "ptr" {
			return (*ocmetricdata.Summary)(nil)
		}
		s := &ocmetricdata.Summary{Count: 4, Sum: 10, HasCountAndSum: true, Snapshot: ocmetricdata.Snapshot{Percentiles: map[float64]float64{99: 9, 50: 2}}}
		if str(v, "neg") == "count" {
			s.Count = -1
		}
		return s
	}
	return nil
}

func (w *ocmWorld) mkMetric(i int, m map[string]any) *ocmetricdata.Metric {
	if b, _ := m["nil"].(bool); b {
		return nil
	}
	types := map[string]ocmetricdata.Type{"gi": ocmetricdata.TypeGaugeInt64, "gf": ocmetricdata.TypeGaugeFloat64, "ci": ocmetricdata.TypeCumulativeInt64,
		"cf": ocmetricdata.TypeCumulativeFloat64, "dist": ocmetricdata.TypeCumulativeDistribution, "summary": ocmetricdata.TypeSummary,
		"gdist": ocmetricdata.TypeGaugeDistribution, "bogus": ocmetricdata.Type(42)}
	d := ocmetricdata.Descriptor{Name: fmt.Sprintf("m%d", i), Description: "d", Unit: ocmetricdata.UnitBytes, Type: types[str(m, "type")]}
	for k := 1; k <= num(m, "keys"); k++ {
		d.LabelKeys = append(d.LabelKeys, ocmetricdata.LabelKey{Key: fmt.Sprintf("l%d", k)})
	}
	out := &ocmetricdata.Metric{Descriptor: d}
	for _, x := range list(m, "ts") {
		s := x.(map[string]any)
		if b, _ := s["nil"].(bool); b {
			out.TimeSeries = append(out.TimeSeries, nil)
			continue
		}
		ts := &ocmetricdata.TimeSeries{StartTime: S1}
		for j, lv := range list(s, "lvs") {
			ts.LabelValues = append(ts.LabelValues, ocmetricdata.LabelValue{Value: fmt.Sprintf("lv%d", j+1), Present: lv.(string) == "p"})
		}
		for _, y := range list(s, "pts") {
			p := y.(map[string]any)
			t := T1
			if str(p, "t") == "t2" {
				t = T2
			}
			ts.Points = append(ts.Points, ocmetricdata.Point{Time: t, Value: mkValue(p["val"].(map[string]any))})
		}
		out.TimeSeries = append(out.TimeSeries, ts)
	}
	return out
}

func (w *ocmWorld) apply(op map[string]any) (out map[string]any, err error) {
	defer func() {
		if r := recover(); r != nil {
			err = fmt.Errorf("panic: %v", r)
		}
	}()
	cases := list(op, "ms")
	p := &fixedProducer{}
	for i, m := range cases {
		p.ms = append(p.ms, w.mkMetric(i+1, m.(map[string]any)))
	}
	mgr := metricproducer.GlobalManager()
	mgr.AddProducer(p)
	defer mgr.DeleteProducer(p)
	w.done = true
	sms, e := opencensus.NewMetricProducer().Produce(context.Background())
	byName := map[string]metricdata.Metrics{}
	dup := false
	for _, sm := range sms {
		for _, m := range sm.Metrics {
			if _, ok := byName[m.Name]; ok {
				dup = true
			}
			byName[m.Name] = m
		}
	}
	ms := []any{}
	for i := range cases {
		ms = append(ms, map[string]any{"rA": projMetric(byName[fmt.Sprintf("m%d", i+1)])})
		delete(byName, fmt.Sprintf("m%d", i+1))
	}
	out = map[string]any{"errA": e != nil, "ms": ms}
	if dup || len(byName) > 0 {
		out["unexpected_metrics"] = true
	}
	return out, nil
}

func projAttrs(set attribute.Set) []any {
	idx := []int{}
	for _, kv := range set.ToSlice() {
		k := string(kv.Key)
		n, err := strconv.Atoi(k[1:])
		if err != nil || k[0] != 'l' || kv.Value.AsString() != fmt.Sprintf("lv%d", n) {
			n = -1
		}
		idx = append(idx, n)
	}
	sort.Ints(idx)
	out := []any{}
	for _, n := range idx {
		out = append(out, n)
	}
	return out
}

func projTime(start, t time.Time) (string, string) {
	s, tt := "?", "?"
	if start.Equal(S1) {
		s = "s1"
	}
	switch {
	case t.Equal(T1):
		tt = "t1"
	case t.Equal(T2):
		tt = "t2"
	}
	return s, tt
}

func fnum(f float64) string { return strconv.FormatFloat(f, 'g', -1, 64) }

func projMetric(m metricdata.Metrics) map[string]any {
	agg := map[string]any{"agg": "", "num": "", "temp": "", "mono": false}
	out := map[string]any{"present": false, "agg": agg, "pts": []any{}}
	if m.Data == nil {
		return out
	}
	out["present"] = true
	if m.Description != "d" || m.Unit != "By" {
		out["descriptor_lost"] = true
	}
	pts := []any{}
	val := func(k string, sum string) map[string]any {
		return map[string]any{"k": k, "count": 0, "sum": sum, "bounds": 0, "buckets": 0, "exs": []any{}, "q": []any{}}
	}
	temp := func(t metricdata.Temporality) string {
		if t == metricdata.CumulativeTemporality {
			return "cumulative"
		}
		return "delta"
	}
	switch d := m.Data.(type) {
	case metricdata.Gauge[int64]:
		agg["agg"], agg["num"] = "gauge", "i"
		for _, p := range d.DataPoints {
			s, t := projTime(p.StartTime, p.Time)
			pts = append(pts, map[string]any{"attrs": projAttrs(p.Attributes), "start": s, "t": t, "v": val("i", fmt.Sprint(p.Value))})
		}
	case metricdata.Gauge[float64]:
		agg["agg"], agg["num"] = "gauge", "f"
		for _, p := range d.DataPoints {
			s, t := projTime(p.StartTime, p.Time)
			pts = append(pts, map[string]any{"attrs": projAttrs(p.Attributes), "start": s, "t": t, "v": val("f", fnum(p.Value))})
		}
	case metricdata.Sum[int64]:
		agg["agg"], agg["num"], agg["temp"], agg["mono"] = "sum", "i", temp(d.Temporality), d.IsMonotonic
		for _, p := range d.DataPoints {
			s, t := projTime(p.StartTime, p.Time)
			pts = append(pts, map[string]any{"attrs": projAttrs(p.Attributes), "start": s, "t": t, "v": val("i", fmt.Sprint(p.Value))})
		}
	case metricdata.Sum[float64]:
		agg["agg"], agg["num"], agg["temp"], agg["mono"] = "sum", "f", temp(d.Temporality), d.IsMonotonic
		for _, p := range d.DataPoints {
			s, t := projTime(p.StartTime, p.Time)
			pts = append(pts, map[string]any{"attrs": projAttrs(p.Attributes), "start": s, "t": t, "v": val("f", fnum(p.Value))})
		}
	case metricdata.Histogram[float64]:
		agg["agg"], agg["num"], agg["temp"] = "hist", "f", temp(d.Temporality)
		for _, p := range d.DataPoints {
			s, t := projTime(p.StartTime, p.Time)
			v := val("dist", fnum(p.Sum))
			v["count"], v["bounds"], v["buckets"] = int(p.Count), len(p.Bounds), len(p.BucketCounts)
			exs := []any{}
			for _, e := range p.Exemplars {
				k := "?"
				switch {
				case string(e.TraceID) == string(cpIDs[0].tid[:]) && string(e.SpanID) == string(cpIDs[0].sid[:]) && len(e.FilteredAttributes) == 0:
					k = "sc"
				case len(e.TraceID) == 0 && len(e.FilteredAttributes) == 2 && e.FilteredAttributes[0].Key == "aa" && e.FilteredAttributes[1].Value.AsString() == "top":
					k = "att"
				}
				if e.Value != 0.5 || !e.Time.Equal(T1) {
					k = "?value"
				}
				exs = append(exs, k)
			}
			v["exs"] = exs
			for _, c := range p.BucketCounts {
				if c != 1 {
					v["bucket_values_lost"] = true
				}
			}
			if len(p.Bounds) == 2 && (p.Bounds[0] != 1 || p.Bounds[1] != 2) {
				v["bucket_values_lost"] = true
			}
			pts = append(pts, map[string]any{"attrs": projAttrs(p.Attributes), "start": s, "t": t, "v": v})
		}
	case metricdata.Summary:
		agg["agg"] = "summary"
		for _, p := range d.DataPoints {
			s, t := projTime(p.StartTime, p.Time)
			v := val("sum", fnum(p.Sum))
			v["count"] = int(p.Count)
			q := []any{}
			for _, qv := range p.QuantileValues {
				q = append(q, fnum(qv.Quantile)+":"+fnum(qv.Value))
			}
			v["q"] = q
			pts = append(pts, map[string]any{"attrs": projAttrs(p.Attributes), "start": s, "t": t, "v": v})
		}
	default:
		agg["agg"] = fmt.Sprintf("%T", m.Data)
	}
	out["pts"] = pts
	return out
}
