// Command harness_x03 executes TLC-generated edges and seeded random histories on the real
// OpenTracing / OpenCensus bridges and the composite propagator (growth X03).  It only executes
// and projects: every expected value comes from the TLA+ model (edge `to` / `out`, Trace_Bridge.tla).
package main

import (
	"encoding/json"
	"flag"
	"fmt"
	"os"
)

// machine is one scenario of a part: a fresh real system the abstract operations are applied to.
type machine interface {
	apply(op map[string]any) (map[string]any, error)
	project() map[string]any
}

func newMachine(part string, nk, nb, rep int) machine {
	switch part {
	case "ot":
		return newOTWorld(nk, nb, rep)
	case "oc":
		return newOCWorld(nk, nb, rep)
	case "cp":
		return newCPWorld(rep)
	case "ocm":
		return newOCMWorld(rep)
	}
	fmt.Fprintln(os.Stderr, "unknown part", part)
	os.Exit(3)
	return nil
}

func main() {
	if len(os.Args) < 2 {
		fmt.Fprintln(os.Stderr, "usage: harness_x03 replay|random ...")
		os.Exit(3)
	}
	fs := flag.NewFlagSet(os.Args[1], flag.ExitOnError)
	part := fs.String("part", "ot", "ot|oc|cp")
	edges := fs.String("edges", "", "edge dump")
	outp := fs.String("out", "", "result file / trace file")
	resp := fs.String("res", "", "result file (random)")
	rep := fs.Int("rep", 0, "representative index")
	nk := fs.Int("nk", 2, "attribute keys")
	nb := fs.Int("nb", 2, "baggage keys")
	n := fs.Int("n", 100, "random scenarios")
	every := fs.Int("every", 1, "replay every n-th edge (offset by rep)")
	fs.Parse(os.Args[2:])
	switch os.Args[1] {
	case "replay":
		replay(*part, *edges, *outp, *rep, *nk, *nb, *every)
	case "random":
		random(*part, *n, *outp, *resp, *nk, *nb)
	default:
		os.Exit(3)
	}
}

func replay(part, edgesPath, outPath string, rep, nk, nb, every int) {
	g, err := LoadEdges(edgesPath)
	Must(err)
	res := NewResult()
	cls := &classes{}
	report := func(m Mismatch, fields []string, ops []any) {
		res.NMismatch++
		for _, sig := range sigsFor(part, m.Kind, fields, ops) {
			cls.add(sig, m)
		}
	}
	for i, e := range g.Edges {
		if every > 1 && (i+rep)%every != 0 {
			continue
		}
		path, ok := g.Path(i)
		if !ok {
			res.Inconcl(fmt.Sprintf("edge %d: source not reachable in BFS tree", i))
			continue
		}
		m := newMachine(part, nk, nb, rep)
		var pathOps []any
		failed := false
		for _, a := range path {
			op := mustJSON(a)
			pathOps = append(pathOps, op)
			if _, err := m.apply(op); err != nil {
				report(Mismatch{Kind: "panic", Path: pathOps, Detail: err.Error()}, []string{"path"}, pathOps)
				failed = true
				break
			}
		}
		if failed {
			continue
		}
		act := mustJSON(e.Act)
		res.Count("op."+str(act, "op"), 1)
		out, err := m.apply(act)
		res.Executed++
		res.Evaluations += int64(len(path) + 1)
		if err != nil {
			report(Mismatch{Kind: "panic", Path: pathOps, Act: act, Detail: err.Error()}, []string{"act"}, append(pathOps, act))
			continue
		}
		got := norm(m.project())
		want := norm(json.RawMessage(e.To))
		if d := diff(want, got, ""); len(d) > 0 {
			report(Mismatch{Kind: "state", Case: d, Path: pathOps, Act: act, Want: want, Got: got}, d, append(pathOps, act))
			continue
		}
		if len(e.Out) > 0 {
			wo, gout := norm(json.RawMessage(e.Out)), norm(out)
			if d := diff(wo, gout, "out"); len(d) > 0 {
				report(Mismatch{Kind: "out", Case: d, Path: pathOps, Act: act, Want: wo, Got: gout}, d, append(pathOps, act))
				continue
			}
		}
		if res.Executed%997 == 1 {
			res.Sample(map[string]any{"path": pathOps, "act": act, "state": got, "out": out})
		}
	}
	writeResult(res, cls, outPath)
}

// writeResult: the vh result plus the mismatch classes (signature, count, one full example each).
func writeResult(res *Result, cls *classes, path string) {
	b, err := json.Marshal(res)
	Must(err)
	var m map[string]any
	Must(json.Unmarshal(b, &m))
	m["classes"] = cls.list()
	b, err = json.MarshalIndent(m, "", " ")
	Must(err)
	Must(os.WriteFile(path, b, 0o644))
}
