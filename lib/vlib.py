"""Shared machinery for the /verif checks: TLC runner, Go harness runner, trace
validation, known-finding matching, evidence writing.

Exit code convention (see DESIGN.md §1): 0 = property held on everything explored,
1 = a violation observed on the REAL code (prints `VIOLATION property=<id> replay=<path>`),
2 = inconclusive (harness death, model drift, timeout, TLC error) -- never a violation.
"""
import json
import os
import re
import shutil
import subprocess
import sys
import time

VERIF = os.path.dirname(os.path.dirname(os.path.abspath(__file__)))
REPO = os.environ.get("VERIF_REPO", "/repo")
SPECS = os.path.join(VERIF, "specs")
HARNESS = os.path.join(VERIF, "harness")
NCPU = os.cpu_count() or 4

GOENV = {
    "GOFLAGS": "-mod=mod",
    "GOPROXY": "off",
    "GOSUMDB": "off",
    "GOTOOLCHAIN": "local",
}


def adaptive_workers():
    """TLC worker count: all cores on an idle machine, fewer when the machine is already oversubscribed
    (results do not depend on the worker count; edge dumps always use 1)."""
    if os.environ.get("VERIF_TLC_WORKERS"):
        return max(1, int(os.environ["VERIF_TLC_WORKERS"]))
    try:
        load = os.getloadavg()[0]
    except OSError:
        load = 0.0
    if load <= NCPU / 2:
        return NCPU
    return max(2, min(NCPU, int(NCPU * NCPU / (2 * load))))


class Inconclusive(Exception):
    pass


def log(*a):
    print(*a, flush=True)


class Ctx:
    def __init__(self, prop, tier, seed):
        self.prop = prop
        self.tier = tier
        self.seed = seed
        self.t0 = time.time()
        # VERIF_WORK_SUFFIX / VERIF_EVIDENCE_DIR: let several runs of one property (e.g. against
        # different scratch trees via VERIF_REPO) coexist without sharing scratch or evidence files
        self.work = os.path.join(VERIF, ".work", "%s-%s%s" % (prop, tier, os.environ.get("VERIF_WORK_SUFFIX", "")))
        shutil.rmtree(self.work, ignore_errors=True)
        os.makedirs(self.work, exist_ok=True)
        self.states = 0
        self.transitions = 0
        self.traces_validated = 0
        self.evaluations = 0
        self.samples = []
        self.tlc_runs = []
        self.assumptions = []
        self.extra = {}
        self.violations = []  # unlisted violations (exit 1), one per distinct signature
        self.viol_counts = {}
        self.known_hits = {}  # finding id -> count
        self.inconclusive = []
        self.exhaustive = True
        self.level = "model_checking"
        self._known = load_known(prop)
        self._bins = {}

    # ------------------------------------------------------------------ TLC
    def tlc(self, subdir, module, cfg, workers=None, timeout=600, simulate=None,
            depth=None, coverage=False, deque=False, extra_files=None, want_edges=False,
            defines=None, heap=None, name=None, must_pass=True, count=True):
        """Run TLC on specs/<subdir>/<module>.tla with <cfg>. Returns a dict.

        want_edges: collect `EDGE {...}` lines (spec -> code replay input) into a file.
        defines: dict NAME -> TLA+ expression text substituted for `@NAME@` in cfg and tla copies.
        """
        name = name or ("%s-%s" % (module, os.path.splitext(os.path.basename(cfg))[0]))
        d = os.path.join(self.work, "tlc-" + name)
        shutil.rmtree(d, ignore_errors=True)
        os.makedirs(d)
        for src in (os.path.join(SPECS, "common"), os.path.join(SPECS, subdir)):
            if os.path.isdir(src):
                for f in os.listdir(src):
                    p = os.path.join(src, f)
                    if os.path.isfile(p):
                        shutil.copy(p, d)
        for fn, src in (extra_files or {}).items():
            if os.path.exists(src):
                shutil.copy(src, os.path.join(d, fn))
        if defines:
            for f in os.listdir(d):
                if f.endswith((".tla", ".cfg")):
                    p = os.path.join(d, f)
                    s = open(p).read()
                    s2 = s
                    for k, v in defines.items():
                        s2 = s2.replace("@%s@" % k, str(v))
                    if s2 != s:
                        open(p, "w").write(s2)
        if workers is None:
            workers = 1 if want_edges else adaptive_workers()
        cmd = ["java", "-XX:+UseParallelGC", "-XX:ParallelGCThreads=%d" % max(2, min(8, workers)), "-Xss256m"]
        if heap:
            cmd.append("-Xmx" + heap)
        if deque:
            cmd.append("-Dtlc2.tool.queue.IStateQueue=StateDeque")
        cmd += ["-cp", "/opt/veriftools/tla/tla2tools.jar:/opt/veriftools/tla/CommunityModules-deps.jar",
                "tlc2.TLC", "-workers", str(workers), "-metadir", os.path.join(d, "md"),
                "-config", os.path.basename(cfg), "-noGenerateSpecTE"]
        if simulate:
            cmd += ["-simulate", simulate]
            if depth:
                cmd += ["-depth", str(depth)]
            cmd += ["-seed", str(self.seed)]
        if coverage:
            cmd += ["-coverage", "1"]
        cmd.append(module + ".tla")
        out_path = os.path.join(d, "tlc.out")
        t0 = time.time()
        try:
            with open(out_path, "w") as out:
                p = subprocess.run(cmd, cwd=d, stdout=out, stderr=subprocess.STDOUT, timeout=timeout)
            rc = p.returncode
            timed_out = False
        except subprocess.TimeoutExpired:
            rc = -1
            timed_out = True
        wall = time.time() - t0
        res = {"name": name, "rc": rc, "timed_out": timed_out, "wall_s": round(wall, 2), "dir": d,
               "out": out_path, "generated": 0, "distinct": 0, "depth": 0, "violated": None,
               "error": None, "prints": [], "edges_file": None, "zero_cov": []}
        edges_f = None
        if want_edges:
            res["edges_file"] = os.path.join(d, "edges.ndjson")
            edges_f = open(res["edges_file"], "w")
        nedges = 0
        with open(out_path, errors="replace") as f:
            for line in f:
                line = line.rstrip("\n")
                if line.startswith('"EDGE '):
                    if edges_f:
                        try:
                            edges_f.write(json.loads(line)[5:] + "\n")
                            nedges += 1
                        except Exception:
                            pass
                    continue
                if line.startswith('"'):
                    try:
                        res["prints"].append(json.loads(line))
                    except Exception:
                        res["prints"].append(line)
                    continue
                m = re.match(r"(\d+) states generated, (\d+) distinct states found", line)
                if m:
                    res["generated"] = int(m.group(1))
                    res["distinct"] = int(m.group(2))
                m = re.match(r"The depth of the complete state graph search is (\d+)", line)
                if m:
                    res["depth"] = int(m.group(1))
                m = re.match(r"Error: Invariant (\S+) is violated", line)
                if m:
                    res["violated"] = m.group(1)
                m = re.match(r"Error: Action property (\S+) is violated", line)
                if m:
                    res["violated"] = m.group(1)
                if line.startswith("Error: Temporal properties were violated"):
                    res["violated"] = "temporal"
                if line.startswith("Error:") and res["error"] is None and res["violated"] is None:
                    res["error"] = line
                if coverage:
                    m = re.match(r"<(\w+) line .*>: (\d+):(\d+)$", line)
                    if m and int(m.group(2)) == 0 and m.group(1) not in ("Init",):
                        res["zero_cov"].append(m.group(1))
        if edges_f:
            edges_f.close()
            res["edges"] = nedges
        if count and not simulate:
            self.states += res["distinct"]
            self.transitions += res["generated"]
        self.tlc_runs.append({k: res[k] for k in ("name", "rc", "wall_s", "generated", "distinct", "depth",
                                                    "violated", "error", "timed_out")})
        if must_pass:
            if timed_out:
                raise Inconclusive("TLC %s timed out after %ss" % (name, timeout))
            if res["violated"]:
                raise Inconclusive("TLC %s: model-level violation of %s (model only, not a verdict on the code); see %s"
                                   % (name, res["violated"], out_path))
            if rc != 0 or res["error"]:
                raise Inconclusive("TLC %s failed rc=%s %s; see %s" % (name, rc, res["error"], out_path))
        return res

    # ------------------------------------------------------------------ Go
    def go_build(self, pkg, tags="verif", race=False, test=False):
        """Build harness/<pkg> from /repo's current tree (hooks on). Returns binary path."""
        key = (pkg, tags, race, test)
        if key in self._bins:
            return self._bins[key]
        out = os.path.join(self.work, "bin-" + pkg.replace("/", "_") + ("-race" if race else ""))
        env = dict(os.environ)
        env.update(GOENV)
        if race:
            env["CGO_ENABLED"] = "1"
        sync_gosum()
        if test:
            cmd = ["go", "test", "-c", "-o", out]
        else:
            cmd = ["go", "build", "-o", out]
        if os.path.realpath(REPO) != "/repo":
            # alternative tree (scratch worktree with a candidate change): same module, other replace root
            alt = os.path.join(self.work, "go.alt.mod")
            txt = open(os.path.join(HARNESS, "go.mod")).read().replace("=> /repo", "=> " + REPO)
            open(alt, "w").write(txt)
            shutil.copy(os.path.join(HARNESS, "go.sum"), os.path.join(self.work, "go.alt.sum"))
            cmd.append("-modfile=" + alt)
        if tags:
            cmd += ["-tags", tags]
        if race:
            cmd.append("-race")
        cmd.append("./" + pkg)
        t0 = time.time()
        p = subprocess.run(cmd, cwd=HARNESS, env=env, stdout=subprocess.PIPE, stderr=subprocess.STDOUT, text=True)
        if p.returncode != 0:
            raise Inconclusive("go build %s failed:\n%s" % (pkg, p.stdout[-4000:]))
        self.extra.setdefault("build_s", {})[pkg + ("-race" if race else "")] = round(time.time() - t0, 1)
        self._bins[key] = out
        return out

    def run(self, cmd, timeout=600, env=None, cwd=None, stdin=None, ok_codes=(0,)):
        e = dict(os.environ)
        e.update(GOENV)
        e["VERIF_SEED"] = str(self.seed)
        e["VERIF_TIER"] = self.tier
        if env:
            e.update(env)
        try:
            p = subprocess.run(cmd, cwd=cwd or self.work, env=e, stdout=subprocess.PIPE, stderr=subprocess.PIPE,
                               text=True, timeout=timeout, input=stdin, errors="replace")
        except subprocess.TimeoutExpired:
            raise Inconclusive("harness timed out after %ss: %s" % (timeout, " ".join(cmd[:4])))
        if p.returncode not in ok_codes:
            raise Inconclusive("harness rc=%d: %s\nstdout tail: %s\nstderr tail: %s" %
                               (p.returncode, " ".join(cmd[:6]), p.stdout[-3000:], p.stderr[-3000:]))
        return p

    # ------------------------------------------------------------------ trace validation
    def validate_trace(self, subdir, module, cfg, trace_file, timeout=600, deque=False, name=None,
                       extra_files=None, defines=None):
        """TLC validates an ndjson trace recorded from the real code against a Trace_ spec.

        The trace specs print `VIOL {json}` for every contract clause the real trace breaks and
        `ACCEPTED <n>` when every line was consumed. Returns (viols, accepted_lines)."""
        files = {"trace.ndjson": trace_file}
        files.update(extra_files or {})
        r = self.tlc(subdir, module, cfg, workers=1, timeout=timeout, deque=deque, extra_files=files,
                     name=name or ("trace-" + module), must_pass=False, count=False, defines=defines)
        if r["timed_out"]:
            raise Inconclusive("trace validation timed out: " + r["out"])
        viols = []
        accepted = None
        for s in r["prints"]:
            if isinstance(s, str) and s.startswith("VIOL "):
                try:
                    viols.append(json.loads(s[5:]))
                except Exception:
                    viols.append({"raw": s})
            elif isinstance(s, str) and s.startswith("ACCEPTED"):
                accepted = int(s.split()[1])
        if r["rc"] != 0 or r["error"] or r["violated"]:
            raise Inconclusive("trace validation TLC error (%s/%s): %s" % (r["error"], r["violated"], r["out"]))
        nlines = sum(1 for _ in open(trace_file))
        if accepted != nlines:
            raise Inconclusive("trace spec consumed %s of %d lines (spec/harness drift, not a verdict): %s"
                               % (accepted, nlines, r["out"]))
        # de-duplicate (TLC may evaluate an action more than once)
        seen = set()
        out = []
        for v in viols:
            k = json.dumps(v, sort_keys=True)
            if k not in seen:
                seen.add(k)
                out.append(v)
        return out, accepted

    # ------------------------------------------------------------------ verdicts
    def violation(self, sig, replay=None):
        """Report a violation observed on the real code. `sig` is a flat dict describing the
        minimal failing case; it is matched against known_findings.json."""
        kf = match_known(self._known, sig)
        if kf is not None:
            self.known_hits[kf["id"]] = self.known_hits.get(kf["id"], 0) + 1
            self.extra.setdefault("known_examples", {}).setdefault(kf["id"], sig)
            return False
        key = json.dumps(sig, sort_keys=True, default=str)
        self.viol_counts[key] = self.viol_counts.get(key, 0) + 1
        if self.viol_counts[key] == 1:
            self.violations.append({"sig": sig, "replay": replay})
        return True

    def note_inconclusive(self, msg):
        self.inconclusive.append(msg)

    def add_samples(self, items, cap=6):
        for it in items:
            if len(self.samples) < cap:
                self.samples.append(it)

    def finish(self):
        wall = time.time() - self.t0
        # replay artefacts
        rdir = os.path.join(VERIF, "replays", self.prop + os.environ.get("VERIF_WORK_SUFFIX", ""))
        paths = []
        if self.violations:
            os.makedirs(rdir, exist_ok=True)
            for i, v in enumerate(self.violations[:20]):
                p = os.path.join(rdir, "%s-seed%d-%d.json" % (self.tier, self.seed, i))
                with open(p, "w") as f:
                    json.dump({"property": self.prop, "tier": self.tier, "seed": self.seed, "sig": v["sig"],
                               "replay": v["replay"]}, f, indent=1, default=str)
                paths.append(p)
        for kf in self._known:
            if kf.get("status") == "known" and self.known_hits.get(kf["id"]):
                log("KNOWN-FINDING: property=%s %s [%s x%d]" % (self.prop, kf["what"], kf["id"], self.known_hits[kf["id"]]))
        cov = {
            "states": self.states,
            "transitions": self.transitions,
            "traces_validated_against_impl": self.traces_validated,
            "evaluations": self.evaluations,
            "samples": self.samples if self.samples else ["(no sample recorded)"],
            "exhaustive": self.exhaustive,
            "tlc_runs": self.tlc_runs,
            "known_findings_hit": self.known_hits,
            "inconclusive": self.inconclusive,
            "checker_cmd": "bin/vcheck %s --tier %s" % (self.prop, self.tier),
            "trusted_base": ["TLC 1.8.0", "TLA+ specs under /verif/specs", "Go harness under /verif/harness",
                             "projection functions of the harness"],
        }
        cov.update(self.extra)
        ev = {
            "property_id": self.prop, "tier": self.tier, "seed": self.seed, "level": self.level,
            "coverage": cov, "assumptions": self.assumptions, "wall_s": round(wall, 1),
            "violations": sum(self.viol_counts.values()),
        }
        evdir = os.environ.get("VERIF_EVIDENCE_DIR") or os.path.join(VERIF, "evidence")
        os.makedirs(evdir, exist_ok=True)
        with open(os.path.join(evdir, self.prop + ".json"), "w") as f:
            json.dump(ev, f, indent=1, default=str)
        if self.violations:
            for p in paths[:5]:
                log("VIOLATION property=%s replay=%s" % (self.prop, p))
            for v in self.violations[:20]:
                key = json.dumps(v["sig"], sort_keys=True, default=str)
                log("  case x%d: %s" % (self.viol_counts.get(key, 1), key[:600]))
            return 1
        if self.inconclusive:
            for m in self.inconclusive[:10]:
                log("INCONCLUSIVE: " + m)
            return 2
        log("OK property=%s tier=%s seed=%d states=%d transitions=%d traces/edges_on_impl=%d wall=%.1fs" %
            (self.prop, self.tier, self.seed, self.states, self.transitions, self.traces_validated, wall))
        return 0


# ---------------------------------------------------------------------- known findings
def load_known(prop):
    """known_findings/<prop>.json: committed, never written at run time."""
    p = os.path.join(VERIF, "known_findings", prop + ".json")
    if not os.path.exists(p):
        return []
    with open(p) as f:
        data = json.load(f)
    return [k for k in data.get("findings", []) if k.get("property") == prop]


def match_known(known, sig):
    for kf in known:
        if kf.get("status") != "known":
            continue  # fixed entries suppress nothing
        ok = True
        for k, want in kf.get("match", {}).items():
            got = sig.get(k)
            if isinstance(want, dict) and "re" in want:
                if got is None or not re.search(want["re"], str(got)):
                    ok = False
            elif isinstance(want, dict) and "in" in want:
                if got not in want["in"]:
                    ok = False
            elif got != want:
                ok = False
            if not ok:
                break
        if ok:
            return kf
    return None


# ---------------------------------------------------------------------- misc
_GOSUM_DONE = False


def sync_gosum():
    """harness/go.sum = union of the repo's go.sum files (offline builds need every hash)."""
    global _GOSUM_DONE
    if _GOSUM_DONE:
        return
    lines = set()
    own = os.path.join(HARNESS, "go.sum")
    if os.path.exists(own):
        lines.update(open(own).read().splitlines())
    for root, dirs, files in os.walk(REPO):
        dirs[:] = [d for d in dirs if d not in (".git", "node_modules")]
        if "go.sum" in files:
            lines.update(open(os.path.join(root, "go.sum")).read().splitlines())
    lines.discard("")
    new = "\n".join(sorted(lines)) + "\n"
    if not os.path.exists(own) or open(own).read() != new:
        with open(own, "w") as f:
            f.write(new)
    _GOSUM_DONE = True


def read_ndjson(path):
    out = []
    with open(path) as f:
        for line in f:
            line = line.strip()
            if line:
                out.append(json.loads(line))
    return out


def main(run_fn, prop):
    import argparse
    ap = argparse.ArgumentParser()
    ap.add_argument("--tier", default=os.environ.get("VERIF_TIER", "quick"), choices=["quick", "thorough"])
    ap.add_argument("--seed", type=int, default=int(os.environ.get("VERIF_SEED", "1") or 1))
    ap.add_argument("--replay", default=None)
    a = ap.parse_args(sys.argv[2:] if len(sys.argv) > 1 and re.match(r"[A-Z]\d+$", sys.argv[1]) else None)
    replay_data = None
    if a.replay:
        # a replay artefact records tier and seed; every random choice derives from the seed, so re-running
        # that tier with that seed re-executes the failing case (and everything else of that run)
        with open(a.replay) as f:
            replay_data = json.load(f)
        a.tier = replay_data.get("tier", a.tier)
        a.seed = int(replay_data.get("seed", a.seed))
        log("replaying %s: tier=%s seed=%d case=%s" % (a.replay, a.tier, a.seed,
                                                     json.dumps(replay_data.get("sig"), default=str)[:400]))
    ctx = Ctx(prop, a.tier, a.seed)
    ctx.replay = replay_data
    try:
        run_fn(ctx)
    except Inconclusive as e:
        ctx.note_inconclusive(str(e))
    except Exception as e:  # harness bug: never a violation
        import traceback
        traceback.print_exc()
        ctx.note_inconclusive("checker exception: %r" % (e,))
    sys.exit(ctx.finish())
